#!/bin/bash
# usage: try_seed.sh <patch.diff> <ID> [tier]   — applies a property-breaking change to /repo, runs one check, reverts.
P="$1"; ID="$2"; TIER="${3:-quick}"
cd /repo || exit 2
if ! git diff --quiet; then echo "REPO DIRTY, refusing"; exit 2; fi
git apply "$P" || { echo "PATCH DOES NOT APPLY"; exit 2; }
cd /verif && ./run.sh "$ID" "$TIER" > /tmp/try_seed.out 2>&1; rc=$?
git -C /repo checkout -- .
echo "exit=$rc"; grep -E "^VIOLATION|MACHINERY|KNOWN-FINDING|tier=" /tmp/try_seed.out | cut -c1-220 | head -8
grep -A2 -E "^--- violation 0 " /tmp/try_seed.out | cut -c1-300
