#!/bin/bash
# usage: confirm_seed.sh <seed_dir>
# Confirms, in a scratch worktree of /repo (HEAD), that a seeded change (1) applies, (2) passes the full baseline,
# (3) makes its demonstration fail, and that the demonstration passes without it.  Prints CONFIRMED / REJECTED.
S="$1"; WT=${WT:-/tmp/wt_confirm}; TAG=$(basename "$WT")
[ -d "$WT" ] || git -C /repo worktree add -q --detach "$WT" HEAD || exit 2
cd "$WT" && git checkout -q --detach "$(git -C /repo rev-parse HEAD)" && git checkout -q -- . && git clean -fdq -e target
crate=$(grep -oE "crates/[a-z_]+/tests" "$S/demo.rs" | head -1 | cut -d/ -f2)
[ -n "$crate" ] || { echo "REJECTED: cannot tell which crate the demo goes in"; exit 1; }
pkg=$crate
cp "$S/demo.rs" "crates/$crate/tests/seed_demo.rs"
# toml_edit has autotests = false: register the target temporarily
if grep -q "autotests = false" crates/$crate/Cargo.toml; then printf '\n[[test]]\nname = "seed_demo"\n' >> crates/$crate/Cargo.toml; fi
feat=""; [ "$crate" = toml_edit ] && feat="--features serde"
# a demonstration may need a non-default feature configuration: taken from its header comment
hl=$(grep -E -- "cargo test.*--features" "$S/demo.rs" | head -1)
hf=$(echo "$hl" | grep -oE -- "--features[ =][a-z_,/]+" | head -1); [ -n "$hf" ] && feat="$hf"
echo "$hl" | grep -q -- "--no-default-features" && feat="--no-default-features $feat"
cargo test --offline -q -p $pkg $feat --test seed_demo > /tmp/confirm_clean_$TAG.log 2>&1; clean_rc=$?
git apply "$S/patch.diff" || { echo "REJECTED: patch does not apply"; exit 1; }
cargo test --offline -q -p $pkg $feat --test seed_demo > /tmp/confirm_mut_$TAG.log 2>&1; mut_rc=$?
rm -f "crates/$crate/tests/seed_demo.rs"; git checkout -q -- crates/$crate/Cargo.toml 2>/dev/null
git apply -R "$S/patch.diff"; git apply "$S/patch.diff"   # keep only the library change (Cargo.toml restored above may have been part of patch)
base=$(cargo nextest run --workspace --no-fail-fast --tool-config-file pb:/w/lib/nextest.toml --profile pb --test-threads 16 --offline 2>&1 | grep -E "Summary" )
git checkout -q -- . ; git clean -fdq -e target
echo "demo on clean tree rc=$clean_rc ; demo with change rc=$mut_rc ; baseline with change: $base"
if [ $clean_rc -eq 0 ] && [ $mut_rc -ne 0 ] && echo "$base" | grep -q "2144 passed" ; then echo "CONFIRMED $S"; exit 0; else echo "REJECTED $S"; tail -n 5 /tmp/confirm_clean_$TAG.log; tail -n 5 /tmp/confirm_mut_$TAG.log; exit 1; fi
