#!/usr/bin/env python3
"""Model audit, DESIGN.md 3.4 (2): compares the specification model (mc/refmodel) with CPython's tomllib on the
complete quick-tier universes.  tomllib never decides a property; a disagreement outside the allow-list below is a
MACHINERY error of the oracle (exit 2).

usage: tools/model_audit.py            (builds mc, dumps ~3 M documents, compares on all cores)
"""
import sys, json, math, struct, datetime, tomllib, subprocess, os, multiprocessing as mp

DUMP = "/verif/mc/target/audit.tsv"

def tag(v):
    if isinstance(v, bool): return {"t": "b", "v": v}
    if isinstance(v, str): return {"t": "s", "v": v}
    if isinstance(v, int): return {"t": "i", "v": str(v)}
    if isinstance(v, float):
        if math.isnan(v): return {"t": "f", "v": "nan"}
        return {"t": "f", "v": "%016x" % struct.unpack('>Q', struct.pack('>d', v))[0]}
    if isinstance(v, (datetime.datetime, datetime.date, datetime.time)): return {"t": "d", "v": "?"}
    if isinstance(v, list): return [tag(x) for x in v]
    if isinstance(v, dict): return {k: tag(x) for k, x in v.items()}
    raise Exception(type(v))

def strip_d(j):
    if isinstance(j, dict):
        if j.get("t") == "d" and isinstance(j.get("v"), str): return {"t": "d", "v": "?"}
        return {k: strip_d(x) for k, x in j.items()}
    if isinstance(j, list): return [strip_d(x) for x in j]
    return j

def has(j, pred):
    if isinstance(j, dict):
        if "t" in j and "v" in j and isinstance(j["t"], str) and len(j) == 2 and pred(j): return True
        return any(has(x, pred) for x in j.values())
    if isinstance(j, list): return any(has(x, pred) for x in j)
    return False

def work(lines):
    out = []
    for line in lines:
        s, verdict = line.rstrip("\n").split("\t", 1)
        s = json.loads(s)
        try:
            # (tomllib.loads takes decoded text: a byte-order mark is the file layer's business there)
            py = json.dumps(tag(tomllib.loads(s[1:] if s.startswith("\ufeff") else s)), sort_keys=True)
        except RecursionError:
            continue
        except Exception as e:
            py = "ERR"
        if verdict == "U1":
            continue                                   # the specification is undecided; tomllib accepts
        if verdict.startswith("LIMIT"):
            continue                                   # tomllib has no i64 / f64 limits
        if verdict == "ERR":
            if py != "ERR":
                out.append((s, "ERR", py))
            continue
        model = json.loads(verdict[3:])
        m = json.dumps(strip_d(model), sort_keys=True)
        if py == m:
            continue
        # tomllib deviations (documented): datetime cannot represent second 60 and year 0000; it keeps CRLF in
        # multi-line strings only after normalising \r\n to \n (equal); -nan / nan both nan
        if py == "ERR" and has(model, lambda x: x["t"] == "d" and ("T" in x["v"] or ":" in x["v"]) and (":60." in x["v"] or x["v"].startswith("d0000-"))):
            continue
        if py == "ERR" and has(model, lambda x: x["t"] == "d" and x["v"].startswith("d0000-")):
            continue
        out.append((s, m, py))
    return out

if __name__ == "__main__":
    r = subprocess.run(["/verif/run.sh", "audit-dump", DUMP])
    if r.returncode != 0:
        print("MACHINERY-ERROR audit dump failed"); sys.exit(2)
    lines = open(DUMP, encoding="utf-8").readlines()
    chunks = [lines[i:i + 20000] for i in range(0, len(lines), 20000)]
    with mp.Pool(16) as p:
        res = p.map(work, chunks)
    diffs = [d for r in res for d in r]
    print("model audit vs tomllib: %d documents, %d disagreements" % (len(lines), len(diffs)))
    for d in diffs[:40]:
        print(repr(d[0]), "| model:", d[1][:120], "| tomllib:", d[2][:120])
    os.remove(DUMP)
    sys.exit(2 if diffs else 0)
