#!/bin/bash
# Detection matrix: runs every stored seed (/verif/seeded/*/patch.diff) against the quick check of the property it
# breaks, in a scratch copy (repo worktree + copy of /verif with paths rewritten), so that /repo and /verif stay free.
# usage: [MX=<scratch dir>] matrix.sh [seed names...]   (default: all)   prints one line per (seed, check); tools/matrix_all.sh
# runs two shards in parallel and writes /verif/seeded/RESULTS.md
set -u
MX=${MX:-/root/scratch/mx}
mkdir -p $MX/logs
if [ ! -d $MX/repo ]; then git -C /repo worktree add -q --detach $MX/repo HEAD; fi
git -C $MX/repo checkout -q --detach "$(git -C /repo rev-parse HEAD)"; git -C $MX/repo checkout -q -- .
mkdir -p $MX/verif
rsync -a --delete --exclude 'target' --exclude 'target-*' --exclude 'gen_macro_*' --exclude '.git' --exclude 'replays' /verif/ $MX/verif/
grep -rl "/repo/" $MX/verif/mc --include=*.toml --include=*.rs | xargs sed -i "s#/repo/#$MX/repo/#g"
sed -i "s#cd \"\${VERIF_REPO:-/repo}\"#cd $MX/repo#" $MX/verif/tools/baseline.sh
names=("$@"); if [ ${#names[@]} -eq 0 ]; then names=($(ls /verif/seeded | grep -E '^C[0-9]+_[0-9]+$')); fi
for n in "${names[@]}"; do
  P=/verif/seeded/$n/patch.diff; ID=${n%%_*}
  extra=$(python3 -c "import json;print(' '.join(json.load(open('/verif/seeded/$n/meta.json')).get('also_run',[])))" 2>/dev/null)
  ( cd $MX/repo && git checkout -q -- . && git apply "$P" ) || { echo "$n APPLY-FAILED"; continue; }
  for id in $ID $extra; do
    ( cd $MX/verif && VERIF_DIR=$MX/verif ./run.sh $id quick > $MX/logs/$n.$id.log 2>&1 ); rc=$?
    first=$(grep -a -A2 -E "^--- violation 0 " $MX/logs/$n.$id.log | grep -a detail | cut -c1-160)
    echo "$n $id exit=$rc $first"
  done
  ( cd $MX/repo && git checkout -q -- . )
done
