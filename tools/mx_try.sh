#!/bin/bash
# usage: mx_try.sh <seed name under /tmp/seeds or /verif/seeded> [check IDs...]
# Runs quick checks against a seed in a second scratch copy (/root/scratch/mx2) so that /repo stays untouched.
set -u
MX=${MX:-/root/scratch/mx2}
n="$1"; shift
P=/tmp/seeds/$n/patch.diff; [ -f "$P" ] || P=/verif/seeded/$n/patch.diff; [ -f "$P" ] || P=/verif/mutants/$n.patch; [ -f "$P" ] || P=/tmp/benign/$n/patch.diff; [ -f "$P" ] || P=/verif/benign/$n/patch.diff
[ -f "$P" ] || { echo "no patch for $n"; exit 2; }
ids=("$@"); [ ${#ids[@]} -eq 0 ] && ids=(${n%%_*})
mkdir -p $MX/logs
if [ ! -d $MX/repo ]; then git -C /repo worktree add -q --detach $MX/repo HEAD; fi
git -C $MX/repo checkout -q --detach "$(git -C /repo rev-parse HEAD)"; git -C $MX/repo checkout -q -- .
mkdir -p $MX/verif
rsync -a --delete --exclude 'target' --exclude 'target-*' --exclude 'gen_macro_*' --exclude '.git' --exclude 'replays' /verif/ $MX/verif/
grep -rl "/repo/" $MX/verif/mc --include=*.toml --include=*.rs | xargs sed -i "s#/repo/#$MX/repo/#g"
( cd $MX/repo && git apply "$P" ) || { echo "$n APPLY-FAILED"; exit 3; }
for id in "${ids[@]}"; do
  ( cd $MX/verif && VERIF_DIR=$MX/verif ./run.sh $id quick > $MX/logs/$n.$id.log 2>&1 ); rc=$?
  first=$(grep -a -A2 -E "^--- violation 0 " $MX/logs/$n.$id.log | grep -a detail | cut -c1-200)
  echo "$n $id exit=$rc $first"
done
( cd $MX/repo && git checkout -q -- . )
