#!/usr/bin/env python3
"""Rewrites the table of DESIGN.md section 10.1 from the evidence files of the last quick runs."""
import json, re
NOTES = {
 "C01": ("`c_docs.rs`", "enum", "`U-tok` N = 5 (quick) / 6 (thorough); later additions: `U-inline-stmt`, `U-cp` (every BMP scalar value x 18 frames; thorough: every scalar value), `U-utf8`, `U-nest` (around the observed limit), long separated literals in `U-edge`, `U-bom`"),
 "C02": ("`c_docs.rs`", "enum", "plus `U-stmt` over {a,b,c}; the position of a super-table first created implicitly and later defined by its own header is not constrained"),
 "C03": ("`c03.rs`", "enum", "KF-C03-1 recognised by an exact re-rendering (`normalise_shared_keys`)"),
 "C04": ("`c04.rs`", "proc", "12 entry points + 26 typed targets; growth family in sacrificial workers; watchdog; release differential (profile `mcrel`) and valgrind memcheck (10.6)"),
 "C05": ("`c05.rs`", "proc", "same binary in profile `mc` and `mcdev` (opt-level 0); 2 MiB threads in restartable worker processes; the limit is observed, not assumed; wording shared with shallow syntax errors never counts as the limit error"),
 "C06": ("`c06.rs`", "tree", "5 construction routes + `toml::Table` display; `U-chain`; `U-api-state` (vacated slots, reused values, dotted inline tables through conversions); `U-char`"),
 "C07": ("`c07.rs` + `fam.rs`", "tree", "family of 19 root types (`U6`: `None` through the map interface) (incl. root newtypes / enums); the \"unsupported\" predicate is a method of the family trait"),
 "C08": ("`c08.rs`", "state", "marker-comment oracle; 11 start documents + wide + CR LF documents; 27 op kinds (`MoveDotted`); one frontier in memory; `U-placeholder` histories"),
 "C09": ("`c_docs.rs`", "enum", "as planned; error wording only tallied"),
 "C10": ("`c10.rs`", "enum", "plus `U-quote-runs`, `U-char`, `U-long-runs`"),
 "C11": ("`c11.rs`", "enum", "complete lattices; value serializers; a foreign `Deserializer`; serde NaN sign normalisation honoured; byte-buffer targets"),
 "C12": ("`c12.rs`", "enum", "edit distance 2 in both tiers; thorough adds `U-dt-sub3` (every 3-position substitution, 80 M strings)"),
 "C13": ("`c07.rs`", "tree", "9 document routes + 3 single-value routes per value, 7 per document, toml::Value trees through every conversion; `try_from` trees compared exactly (NaN sign included)"),
 "C14": ("`c14.rs`", "enum", "own `Spanned` self-describing tree; explicit span comparison on every entry point; newtype-wrapped keys; typed error locations; header-defined tables end at their last token; `U-bom`"),
 "C15": ("`c15.rs`", "enum", "document, value and key entry points; typed family through 15 routes; `U-long-line`; `U-typed-table`; `U-bom`"),
 "C16": ("`c16.rs`", "state", "hand-rolled parallel BFS (generic `Sys` trait) to closure; sort family (dotted, wide, depth); double-ended iteration; placeholder positions left open; `preserve_order` histories from `cfgbattery`"),
 "C17": ("`c07.rs`", "tree", "value trees: 7 entry kinds x 3-4 keys x all insertion orders x 2 depths, also in the `preserve_order` build (order kept within each class of entries); `U-string-tree`"),
 "C18": ("`c18.rs` + `cfgbattery`", "cfg", "8 configurations quick / 20 thorough; block digests + `dump`; panics and process death are results; `te.strings.order`"),
 "C19": ("`c19.rs`", "prog", "generated programs; compile failures bisected to the document"),
 "C20": ("`c20.rs`", "enum", "every hook recorded; node identity = address; API histories with vacated slots, placeholders, empty containers; `U-deep` (chains to depth 1025 / 4097); structure compared after a non-modifying `VisitMut`"),
}
rows = ["| id | module | engine | quick tier (last run on this machine) | notes / deviations from section 5 |", "|---|---|---|---|---|"]
for pid in sorted(NOTES):
    e = json.load(open(f"/verif/evidence/{pid}.json"))
    c = e["coverage"]
    extra = ""
    if c.get("states"):
        extra = f", {c['states']:,} states / {c.get('transitions', 0):,} transitions"
    rows.append(f"| {pid} | {NOTES[pid][0]} | {NOTES[pid][1]} | {c['evaluations']:,} evaluations{extra}, {e['wall_s']:.0f} s | {NOTES[pid][2]} |")
s = open("/verif/DESIGN.md").read()
a = s.index("| id | module | engine |")
b = s.index("\n\n", a)
s = s[:a] + "\n".join(rows) + s[b:]
open("/verif/DESIGN.md", "w").write(s)
print("\n".join(rows[:4]))
