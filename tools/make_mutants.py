#!/usr/bin/env python3
"""Own mutants (DESIGN.md section 7): small realistic property-breaking edits, generated as patches against /repo HEAD
in the scratch worktree /tmp/wt_confirm, kept only if they compile and the 2144 baseline tests still pass.
Output: /verif/mutants/<prop>_<name>.patch and /verif/mutants/INDEX.md"""
import subprocess, os, sys, re
WT="/tmp/wt_confirm"
M=[
 # (property, name, file, old, new)
 ("C01","basic_unescaped_del","crates/toml_edit/src/parser/strings.rs", "0x5D..=0x7E,", "0x5D..=0x7F,", 1),
 ("C01","time_second_61","crates/toml_edit/src/parser/datetime.rs", "(0..=60)", "(0..=61)", 1),
 ("C01","comment_allows_del","crates/toml_edit/src/parser/trivia.rs", "(0x09, 0x20..=0x7E, NON_ASCII);", "(0x09, 0x20..=0x7F, NON_ASCII);", 1),
 ("C02","nan_no_copysign","crates/toml_edit/src/parser/numbers.rs", "NAN.value(f64::NAN.copysign(1.0))", "NAN.value(f64::NAN)", 1),
 ("C02","secfrac_round","crates/toml_edit/src/parser/datetime.rs", None, None, 0),
 ("C03","array_trailing_comma_lost","crates/toml_edit/src/parser/array.rs", "array.set_trailing_comma(comma);", "array.set_trailing_comma(comma && !array.is_empty() && array.len() < 3);", 1),
 ("C05","limit_off_by_one","crates/toml_edit/src/parser/mod.rs", "if LIMIT <= self.current {\n                    return Err(super::error::CustomError::RecursionLimitExceeded);\n                }\n            }\n            Ok(())\n        }\n\n        fn exit(&mut self) {", "if LIMIT + 40 <= self.current {\n                    return Err(super::error::CustomError::RecursionLimitExceeded);\n                }\n            }\n            Ok(())\n        }\n\n        fn exit(&mut self) {", 1),
 ("C06","empty_key_bare","crates/toml_write/src/string.rs", "metrics.unquoted = !s.is_empty();", "metrics.unquoted = true;", 1),
 ("C08","array_replace_drops_decor","crates/toml_edit/src/array.rs", None, None, 0),
 ("C08","table_remove_swap","crates/toml_edit/src/table.rs", "self.items.shift_remove(key)\n    }", "self.items.swap_remove(key)\n    }", 1),
 ("C09","dotted_implicit_inverted","crates/toml_edit/src/parser/state.rs", "let mixed_table_types = table.is_dotted() == path.is_empty();", "let mixed_table_types = table.is_dotted() && path.is_empty();", 1),
 ("C10","ml_quotes_3","crates/toml_write/src/string.rs", "let max_seq_double_quotes = if is_ml { 2 } else { 0 };", "let max_seq_double_quotes = if is_ml { 3 } else { 0 };", 1),
 ("C10","cr_not_escape_code","crates/toml_write/src/string.rs", "c if c <= 0x1f || c == 0x7f => metrics.escape_codes = true,\n                _ => {}\n            }\n        }\n\n        metrics\n    }\n}\n\n#[derive(Copy, Clone, Debug)]\nstruct KeyMetrics", "b'\\r' => {}\n                c if c <= 0x1f || c == 0x7f => metrics.escape_codes = true,\n                _ => {}\n            }\n        }\n\n        metrics\n    }\n}\n\n#[derive(Copy, Clone, Debug)]\nstruct KeyMetrics", 1),
 ("C11","float_no_dot_zero","crates/toml_write/src/value.rs", "impl WriteTomlValue for f64 {\n    fn write_toml_value<W: TomlWrite + ?Sized>(&self, writer: &mut W) -> core::fmt::Result {\n        match (self.is_sign_negative(), self.is_nan(), *self == 0.0) {\n            (true, true, _) => write!(writer, \"-nan\"),\n            (false, true, _) => write!(writer, \"nan\"),\n            (true, false, true) => write!(writer, \"-0.0\"),\n            (false, false, true) => write!(writer, \"0.0\"),\n            (_, false, false) => {\n                if self % 1.0 == 0.0 {", "impl WriteTomlValue for f64 {\n    fn write_toml_value<W: TomlWrite + ?Sized>(&self, writer: &mut W) -> core::fmt::Result {\n        match (self.is_sign_negative(), self.is_nan(), *self == 0.0) {\n            (true, true, _) => write!(writer, \"-nan\"),\n            (false, true, _) => write!(writer, \"nan\"),\n            (true, false, true) => write!(writer, \"-0.0\"),\n            (false, false, true) => write!(writer, \"0.0\"),\n            (_, false, false) => {\n                if self % 1.0 == 0.0 && self.abs() < 1e300 {", 1),
 ("C12","leap_no_400","crates/toml_edit/src/parser/datetime.rs", "(year % 4 == 0) && ((year % 100 != 0) || (year % 400 == 0))", "(year % 4 == 0) && (year % 100 != 0 || year % 1000 == 0)", 1),
 ("C13","map_enum_two_entries","crates/toml/src/value.rs", "} else if variant.len() != 1 {\n                    Err(crate::de::Error::custom(\n                        \"wanted exactly 1 element, more than 1 element\",", "} else if variant.len() > 2 {\n                    Err(crate::de::Error::custom(\n                        \"wanted exactly 1 element, more than 1 element\",", 1),
 ("C14","spanned_start_end_swapped","crates/toml_edit/src/de/spanned.rs", "start: Some(span.start),\n            end: Some(span.end),", "start: Some(span.end),\n            end: Some(span.start),", 1),
 ("C15","highlight_no_saturating","crates/toml_edit/src/error.rs", "content.len().saturating_sub(column)", "content.len() - column.min(content.len() + 1)", 1),
 ("C16","inline_remove_swap","crates/toml_edit/src/inline_table.rs", "self.items\n            .shift_remove(key)\n            .and_then(|value| value.into_value().ok())", "self.items\n            .swap_remove(key)\n            .and_then(|value| value.into_value().ok())", 1),
 ("C16","table_len_counts_placeholders","crates/toml_edit/src/table.rs", "pub fn len(&self) -> usize {\n        self.iter().count()", "pub fn len(&self) -> usize {\n        self.items.len()", 1),
 ("C17","value_second_pass_dropped","crates/toml/src/value.rs", None, None, 0),
 ("C18","preserve_remove_swap","crates/toml/src/map.rs", None, None, 0),
 ("C19","neg_dropped_in_array","crates/toml/src/macros.rs", "(@array $root:ident - $v:tt , $($rest:tt)*) => {\n        $crate::toml_internal!(@array $root (-$v) , $($rest)*);", "(@array $root:ident - $v:tt , $($rest:tt)*) => {\n        $crate::toml_internal!(@array $root ($v) , $($rest)*);", 1),
 ("C20","aot_mut_skip_first","crates/toml_edit/src/visit_mut.rs", "for table in node.iter_mut() {\n        v.visit_table_mut(table);", "for table in node.iter_mut().skip(1) {\n        v.visit_table_mut(table);", 1),
 ("C04","literal_string_unwrap","crates/toml_edit/src/parser/numbers.rs", None, None, 0),
 ("C07","u64_as_i64","crates/toml_edit/src/ser/value.rs", None, None, 0),
]
def sh(cmd, cwd=WT):
    return subprocess.run(cmd, shell=True, cwd=cwd, capture_output=True, text=True)
head=sh("git -C /repo rev-parse HEAD").stdout.strip()
sh(f"git checkout -q --detach {head} && git checkout -q -- .")
index=[]
for prop,name,file,old,new,cnt in M:
    if old is None: continue
    p=os.path.join(WT,file); s=open(p).read()
    if s.count(old)!=cnt:
        print(f"{prop}_{name}: pattern count {s.count(old)} != {cnt} — skipped"); continue
    open(p,'w').write(s.replace(old,new))
    b=sh("cargo build -q --offline --workspace 2>&1 | grep -E '^error' | head -3")
    if b.stdout.strip():
        print(f"{prop}_{name}: does not compile: {b.stdout.strip()[:200]}"); sh("git checkout -q -- ."); continue
    t=sh("cargo nextest run --workspace --no-fail-fast --tool-config-file pb:/w/lib/nextest.toml --profile pb --test-threads 16 --offline 2>&1 | grep Summary")
    ok="2144 passed" in t.stdout
    if ok:
        d=sh("git diff").stdout
        open(f"/verif/mutants/{prop}_{name}.patch","w").write(d)
        index.append(f"| {prop}_{name} | {file} | baseline passes |")
        print(f"{prop}_{name}: kept")
    else:
        print(f"{prop}_{name}: caught by the baseline suite ({t.stdout.strip()}) — not kept")
    sh("git checkout -q -- .")
open("/verif/mutants/INDEX.md","w").write("# own mutants (all compile and pass the 2144 baseline tests)\n\n| mutant | file | baseline |\n|---|---|---|\n"+"\n".join(index)+"\n")
