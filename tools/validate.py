#!/opt/veriftools/pyvenv/bin/python
import json,jsonschema,sys,glob
m=json.load(open('/verif/MANIFEST.json'))
jsonschema.validate(m,json.load(open('/root/.vp/MANIFEST.schema.json')))
es=json.load(open('/root/.vp/EVIDENCE.schema.json'))
ok=True
for c in m['checks']:
    try:
        e=json.load(open(c['evidence_file']))
        jsonschema.validate(e,es)
        assert e['level']==c['level_claimed']['category'], 'level mismatch'
        print(c['property_id'],'ok',e['tier'],e['coverage'].get('evaluations'),e['coverage'].get('distinct_nontrivial'),e['wall_s'])
    except Exception as ex:
        ok=False; print(c['property_id'],'BAD',str(ex)[:200])
props=[json.loads(l)['id'] for l in open('/verif/properties.jsonl')]
claimed={c['property_id'] for c in m['checks']}; na={x['property_id'] for x in m.get('not_applicable',[])}
print('unaccounted:',[p for p in props if p not in claimed and p not in na])
sys.exit(0 if ok else 1)
