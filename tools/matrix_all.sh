#!/bin/bash
# Runs the whole detection matrix (every stored seed and own mutant against the quick check of its property) in two
# parallel shards, each in its own scratch copy, and writes /verif/seeded/RESULTS.md.
set -u
cd /verif
names=($(ls seeded | grep -E '^C[0-9]+_[0-9]+$'))
a=(); b=()
for i in "${!names[@]}"; do if (( i % 2 )); then b+=("${names[$i]}"); else a+=("${names[$i]}"); fi; done
mkdir -p /root/scratch
( MX=/root/scratch/mx5 tools/matrix.sh "${a[@]}" > /root/scratch/matrix_a.log 2>&1 ) &
( MX=/root/scratch/mx6 tools/matrix.sh "${b[@]}" > /root/scratch/matrix_b.log 2>&1 ) &
wait
python3 - <<'PY'
import json,re,os
rows={}
for f in ['/root/scratch/matrix_a.log','/root/scratch/matrix_b.log']:
    for l in open(f):
        m=re.match(r'^(C\d+_\d+) (C\d+) exit=(\d+) ?(.*)$', l.strip())
        if m: rows[(m.group(1),m.group(2))]=(m.group(3),m.group(4))
        elif 'APPLY-FAILED' in l: rows[(l.split()[0],'-')]=('apply-failed','')
out=['# Detection matrix: every seeded change against the quick check of the property it breaks\n',
     'Produced by `tools/matrix_all.sh` (scratch copies of /repo with the patch applied; exit 1 = VIOLATION reported).\n',
     '| seed | check | exit | first violation |','|---|---|---|---|']
caught=0
for (n,c),(rc,first) in sorted(rows.items()):
    out.append(f"| {n} | {c} | {rc} | {first.replace('|','/')[:150]} |")
    caught+= rc=='1'
out.append(f"\n{caught} of {len(rows)} (seed, check) pairs report a violation.")
open('/verif/seeded/RESULTS.md','w').write('\n'.join(out)+'\n')
print(out[-1])
PY
