#!/usr/bin/env python3
"""Regenerates /verif/MANIFEST.json from the table below (one entry per registered check)."""
import json

ROUND6 = {
 "C01": "U-bom (0-3 whole byte-order marks plus partial ones at the start, after the first line and at the end of 44 bodies).",
 "C02": "U-bom; in the preserve_order build the source order of sub-tables and arrays of tables (not only of values) is compared with the model.",
 "C03": "U-bom.",
 "C04": "U-bom.",
 "C05": "a message the library also gives for a shallow malformed document (17 references) never counts as the recursion-limit error.",
 "C06": "U-char (every scalar value as key and leaf in every container kind through every route); inline tables marked dotted through 7 conversions / placements and as the document root.",
 "C07": "family type U6 (None reached through serde's map interface and a flattened struct); negative / payload NaNs.",
 "C08": "op MoveDotted (a dotted group moved between standard tables, implicit ones included); U-placeholder (128 histories through a placeholder left by mutable indexing).",
 "C11": "byte-buffer targets (deserialize_bytes / deserialize_byte_buf protocol, CString) over arrays holding each lattice integer.",
 "C12": "edit distance 2 in the quick tier too.",
 "C13": "U6; Value::try_from / Table::try_from trees compared exactly with the parsed text's tree (NaN sign included).",
 "C14": "U-bom; a header-defined table's (array-of-tables element's) span must end exactly where its header or its last own value ends.",
 "C15": "U-bom; U-long-line (errors 100 ... 200 000 characters into one line); U-typed-table (a mismatch AT a header-defined table starts at that table's own header, whatever was declared before it).",
 "C16": "U-sort(depth): a sort leaves the entry order of non-dotted children (inline tables, arrays of inline tables, sub-tables, arrays of tables) alone.",
 "C17": "U-string-tree (every string of <= 3 class representatives and every scalar value, alone and before a quotation mark, as value / key / array element through the three printers); in the preserve_order build print-then-parse keeps the map's order within each class of entries.",
 "C18": "battery kind te.strings.order (InternalString and Key order, compare and hash like the str they hold, in every configuration); the order laws of C02 / C17.",
 "C20": "U-deep (API-built chains of 5 container kinds to depth 1025 / 4097, each followed by a small document on the same thread); the structure, not only the text, is compared after a non-modifying VisitMut.",
}

CHECKS = {
 "C01": ("model_checking", "enum", "5/C01",
  "Bounded-exhaustive: every text of the stated finite universes (all token sequences <= N over T24, all strings <= n over one representative per byte class in each lexical context, all number strings <= n, date-time edit neighbourhoods and field sweeps, all statement sequences <= N, all byte strings <= 2-3 bytes, all 256 byte values at every position of 40 seed frames, corpus single-edit mutants, decor skeletons) is parsed by four entry points and the verdict compared with an independent executable reading of TOML 1.0.0.",
  "Trusts mc/refmodel as the specification (validated against the 562-file toml-test 1.0.0 corpus at setup and against CPython tomllib by tools/model_audit.py); bounded, not a proof for longer inputs; class U1 skipped and counted.",
  "exhaustive enumeration of bounded input universes on the real parser vs. a reference specification model"),
 "C02": ("model_checking", "enum", "5/C02",
  "Bounded-exhaustive: every model-valid text of the same universes is decoded by five routes and the full tree (keys, order, types, exact scalar values, float bits, date-time fields) compared with the specification model's tree.",
  "Trusts mc/refmodel and Rust's correctly rounded f64 parsing; the position of a super-table first created implicitly and later defined by its own header is not constrained; bounded.",
  "exhaustive enumeration of bounded input universes; tree equality against a reference decoder"),
 "C03": ("model_checking", "enum", "5/C03",
  "Bounded-exhaustive: every model-valid text of the universes (decor skeletons with every filler in every slot, statement sequences, token sequences, lexical contexts, corpus mutants) is parsed and printed unedited; output must equal the normalised input N(x) computed from the model's token layout whenever dotted-prefix keys are adjacent, and always be valid, decode equal, keep all comments and be a fixed point.",
  "Trusts the model's token layout (multi-line string extents, comments, last line kind). One known finding (KF-C03-1, shared path keys) is recognised by an exact re-rendering of the input, so any other difference is still a violation.",
  "exhaustive enumeration of bounded input universes; byte equality with a model-computed normal form"),
 "C09": ("model_checking", "enum", "5/C09",
  "Bounded-exhaustive over exactly the space the property names: every sequence of <= N statements from {[p], [[p]], p = 1, p = {b.a = 1}, p = [1]} over all key paths of a 2-3 letter alphabet; verdict, error class and merged tree compared with the model's definition-rule engine; class U1 skipped and counted.",
  "Trusts the definition-rule engine of mc/refmodel (DESIGN 3.2).",
  "exhaustive enumeration of statement sequences vs. reference definition-rule state machine"),
 "C14": ("model_checking", "enum", "5/C14",
  "Bounded-exhaustive: for every model-valid non-empty text of the universes, every key/value/table/array-of-tables span of the ImDocument is checked for bounds, char boundaries, equality with the model's token extents, syntactic containment and slice re-parse; the serde view (self-describing tree with Spanned children and keys) must report the same ranges and the same value with and without Spanned; into_mut() must clear every span.",
  "Trusts the model's token extents (cross-checked against the real spans on every document).",
  "exhaustive enumeration of bounded input universes; span equality with model token extents plus model-free span laws"),
 "C15": ("model_checking", "enum", "5/C15",
  "Bounded-exhaustive: every rejected text of the universes (token sequences, lexical contexts, corpus mutants, all byte values at every frame position, multi-byte truncations and edits) yields errors from both crates that must have a non-empty message, an in-bounds char-aligned span, panic-free Display/Debug and a rendered line/column equal to an independently computed position (characters, one past the end at end of input); the same holds for the entry points below the document (Value / Key / key path / both ValueDeserializers / Datetime::from_str over unframed value strings and all token sequences <= 4-5 over a value-level alphabet); every (document, mismatching target type) pair of a typed family (19 layouts x 9 literals x 9 targets) is sent through every decoding route: the 7 routes that have the source text must carry the offending value's span, the 3 document routes and 5 single-value routes without it must carry the key path.",
  "Reference position computed independently of the implementation; one known finding (empty message at a bare CR, pinned by the repository's own snapshot) is recognised by position. The two front ends are compared on error spans, never on wording.",
  "exhaustive enumeration of rejected inputs and (document, type) pairs; independent line/column oracle"),
 "C20": ("model_checking", "enum", "5/C20",
  "Bounded-exhaustive: for every model-valid text of the universes and a family of API-built documents (every 3-step history over 8 operations: placeholders, conversions, vacated array / array-of-tables slots and table entries, empty containers) a recording Visit and VisitMut (overriding every hook incl. visit_table_like, visit_item, visit_value) are run and the callback sequence (kind, node address, content) compared with an independent pre-order walk through the public accessors; an integer-rewriting VisitMut must change every integer and nothing else (decoded tree == model tree + 1, text identical outside integer tokens).",
  "Document order = order of the public iterators; the independent walk uses only iter()/as_*() accessors.",
  "exhaustive enumeration of bounded input universes; visitor trace equality with an independent tree walk"),
 "C10": ("model_checking", "enum", "5/C10",
  "Exhaustive over the finite space the property names: every string of length <= 5 (quick) / 6 (thorough) over one representative per byte class (14 symbols), plus all strings <= 7-10 over {quote, apostrophe, backslash, LF, letter}; every style the value and key builders offer (and the toml_edit / toml default representations) must parse alone, in a key/value pair, array, inline table, header and dotted key, under the real parser and the specification model, and decode to exactly the original string.",
  "The choice of one representative per byte class is justified by the writer's metrics code and validated on the parser side by the all-256-bytes universe of C01/C04.",
  "exhaustive enumeration of all short strings x all offered quoting styles; decode equality under parser and reference model"),
 "C11": ("model_checking", "enum", "5/C11",
  "Complete structured lattices instead of samples: i64 (+-2^k, +-10^k and neighbours), f64 (all 2048 exponents x mantissa patterns x signs), f32 likewise, through every writer route; each literal must have the right TOML type per the specification model and parse back bit-for-bit. Reader side: all range-edge literals in four bases with signs/underscores and all number strings <= 5-6 over 17 symbols get the specification's verdict and value. Serde side: 12 integer widths x boundary values on output and x the i64 lattice on input must be exact or fail.",
  "The property's 'sampled uniformly' clause is replaced by the complete lattice (sampling is a different family); serde serializers drop the sign of NaN by documented design, so NaNs are compared by NaN-ness on those routes only.",
  "exhaustive enumeration of a structured bit-pattern lattice and of short number strings; round-trip and reference-model oracles"),
 "C12": ("model_checking", "enum", "5/C12",
  "Bounded-exhaustive: every string within edit distance 2 of 14 seed date-times over the 16-symbol date-time alphabet (the thorough tier adds every substitution of 3 positions, 80 M strings) plus complete field sweeps is given to Datetime::from_str, Value::from_str, the document parser and the specification model, which must agree on acceptance and on every field; printed forms must be accepted by all and parse back; every Datetime over a lattice of in-range fields (87 K values) must print to text every parser reads back, also through the API and serde.",
  "Trusts refmodel's reading of RFC 3339 as restricted by TOML 1.0.0.",
  "exhaustive enumeration of an edit neighbourhood and a field lattice; four-way agreement oracle"),
 "C04": ("exploration", "proc", "5/C04",
  "Bounded exploration of a universally quantified safety claim: every input of the byte / token / context / number / date-time / corpus / decor universes and a growth family (units repeated up to 1024-16384 times in 8 frames, run in sacrificial worker processes) is given to 12 entry points (and, for the small document universes and a family of value shapes, decoded into 26 typed targets through 3 routes) and everything returned is printed, debug-printed, cloned, dropped, re-parsed, despanned and re-serialized in a build with debug assertions and overflow checks; no panic, no worker death, wall time within a linear budget, hard watchdog.",
  "The property holds for all inputs only as far as the bounded universes reach. The main enumeration runs in a build with debug assertions and overflow checks; the build users ship (no debug assertions) is covered by a release differential (11 universes, outcomes of 7 entry points equal in both builds) and by valgrind memcheck over the byte-substitution universe (13 byte values quick, all 256 thorough).",
  "exhaustive enumeration of bounded input universes on all entry points under catch_unwind, process isolation and a watchdog"),
 "C05": ("exploration", "proc", "5/C05",
  "Every combination of header kind x depth, dotted-key depth and up to 2-3 value constructs x depth over a depth set around the limit (1, 2, 39, 40, 78-81, 200, 3000) is parsed, printed, debug-printed, cloned, dropped, despanned and deserialized on a 2 MiB thread inside a sacrificial process, in an opt-level-0 build and a release build; the worker must survive, rejection must be the recursion-limit error (recognised by what the library itself says for two reference documents far beyond the limit, not by a fixed wording), accepted trees are at most K = 160 deep, single constructs are accepted below 80 and rejected from 80.",
  "K = 160 (one header path plus one counted nest) is this check's reading of 'a small constant'; the claim over all inputs is decided for the enumerated construct combinations only.",
  "exhaustive enumeration of nesting-construct combinations around the limit; process-isolated bounded-stack execution"),
 "C16": ("model_checking", "state", "5/C16",
  "Explicit-state breadth-first search to closure for Table, InlineTable, Array, ArrayOfTables and toml::Map: a state is (real container, reference ordered map / vector), a transition is one real API call over keys {a,b,c} and a small value set (including sub-tables, inline tables, arrays of tables and placeholders left by mutable indexing), applied to both; after every transition the return value and a full observation (len, is_empty, iteration order, get / contains_* / get_key_value per key, into_iter, printed and re-parsed text, the dyn TableLike view) must agree. States are deduplicated by the Debug form of the real object plus the model; the search reports states, transitions, depth and closure. Every container also gets a stateful `retain` (visiting order observed) and toml::Map double-ended iteration; `U-slots` checks that iter(), into_iter() and the printed text agree on arrays / arrays of tables whose slots were vacated or overwritten with the wrong kind of item. A sort family adds single transitions from wide start states: Array / Table / InlineTable with 0..40 (72) entries in every rotation with tie-producing keys (stability), and every non-empty subset of 7 paths with two dotted levels in every order x root / inline table x 4 comparators (recursion into dotted children).",
  "Item::None is read as 'absent'; placeholders are invisible and kept only as a flag on the key: where a formerly-placeholder key lands is not promised by the property, so the model adopts the real position provided every other visible entry kept its relative order; array lengths bounded by 3-4; toml::Map's insertion-ordered configuration is searched by the cfg engine's binary (C18).",
  "explicit-state BFS over real API call histories with canonical-state deduplication; step-wise conformance with a reference container"),
 "C07": ("model_checking", "tree", "5/C07",
  "Complete enumeration of the values of a family of 15 derive(Serialize, Deserialize) root types over small leaf domains (enums of all four variant kinds inside sequences inside maps, optional tables, arrays of tables, mixed arrays via untagged enums, unit-variant map keys, every integer width at its edges, f32/f64 incl. NaN/inf/-0, chars, date-times in every position, tuples, newtypes, variants holding tables, and the documented unsupported shapes in struct-field, map-value and root position); six serializers; Ok(text) must be valid TOML (specification model) and decode to an equal value through both crates, Err is accepted only on the documented unsupported shapes.",
  "NaNs compare equal regardless of sign (documented normalisation of the serde serializers); the family is finite and fixed, deeper nestings than it contains are outside the bound.",
  "exhaustive enumeration of a finite value family through all serializers; round-trip and validity oracles"),
 "C13": ("model_checking", "tree", "5/C13",
  "For every serializable value of the same family and its text: nine document routes and three single-value routes (and, for every toml::Value tree of the value-tree enumeration, Value::try_from / Table::try_from / try_into::<Value | Table | Map<String, Value>> and 4 serializers x 4 decoders; what the text route refuses, Table::try_from must refuse too) (the value written as one inline table by either ValueSerializer, read by both ValueDeserializers and Value::into_deserializer) must all succeed and return the value; Value::try_from / Table::try_from must equal parsing the serialized text; for every text of the document universes (token sequences, statement sequences, decor skeletons, date-time and number edge literals, corpus mutants) seven routes into toml::Value / toml::Table must agree on success and on the tree.",
  "Law-based oracle (routes agree, round trip); no reference model involved.",
  "exhaustive enumeration of values and documents; all-routes-agree oracle"),
 "C17": ("model_checking", "tree", "5/C17",
  "For every serializable value of the family: serialization is deterministic, reaches a fixed point in one step through the type and through toml::Table, Display of a parsed toml::Table is deterministic, valid, decodes equal and is a fixed point, and plain / pretty / toml_edit-pretty outputs decode equal. For every toml::Value table with 1 to 3-4 keys (plain keys, value-like keys such as `1` / `true`, keys that need quoting): every assignment of 8 entry kinds (scalar, date-time, array, array of tables, table, mixed array, empty table, empty array) x every insertion order x 2 nesting depths through three printers: valid TOML (specification model), equal decode (also through str::parse::<Value> / ::<Table>), fixed point.",
  "The check binary is the default (sorted map) configuration; the check also builds the cfg engine's binary with preserve_order and runs the same value-tree enumeration plus the parse -> print -> parse battery there (equality by canonical form and by ==).",
  "exhaustive enumeration of value trees x insertion orders; fixed-point and validity oracles"),
 "C06": ("model_checking", "tree", "5/C06",
  "Complete enumeration of tree shapes with <= 4 (quick) / 5 (thorough) nodes over {leaf, array, inline table, table, array of tables}, keys from 10 adversarial keys and leaves from ~240 adversarial leaves (every pair of byte-class representatives, control characters, quote runs, i64 edges, float specials, four date-time kinds) with <= 1 position deviating (thorough adds every PAIR of positions over a reduced leaf alphabet on the <= 4-node shapes), every chain of <= 5 (7) nested containers, a table -> value conversion route, and an API-state family (vacated slots, values carrying decor from a previous life, wide documents of up to 48 API-made tables after an out-of-tree-order parsed prefix); each tree is built through five construction routes and as toml::Table; printed text must be valid (specification model), accepted by the parser, decode to the built tree, be a fixed point and print identically twice (byte equality ACROSS construction routes is not promised by the property and only tallied).",
  "Key order is compared separately among value entries and among table entries (TOML syntax forces values first); NaNs by sign only. One known finding (empty array of tables prints nothing) recognised exactly.",
  "exhaustive enumeration of small value trees x construction routes; validity, decode-equality and fixed-point oracles"),
 "C08": ("model_checking", "state", "5/C08",
  "Explicit-state search over edit histories: from 13 start documents (values, tables, interleaved arrays of tables, dotted and implicit tables, multi-line arrays with comments, sub-table before super-table, quoted keys, nested inline containers, a table owning an array of tables, inline tables with dotted keys, headers out of tree order around an array of tables), three of them also with CR LF line endings, and wide 12-22 header documents, every history of <= 3 (quick) / 4 (thorough) public edit calls (insert / entry / index-assign / remove, sort, fmt, array push / insert / replace / remove / retain / clear / push and insert of a value moved out of a sibling entry, array-of-tables push / extend / remove / retain / clear, table retain / clear, inline <-> standard conversions) on every path of the current document; after every step the printed text must be valid (specification model), a fixed point of the real parser, decode to the reference tree after the same edit (order among values and among array-of-tables elements), and every marked entry the edit did not touch must keep its line and the comment above it byte-for-byte. States are deduplicated by printed text + Debug of the document.",
  "'Touched' is defined per call by the reference model; table-like siblings are compared as a set because printing follows recorded header positions; empty implicit tables / arrays of tables are invisible but kept; comments after a comma belong to the following array element, so marker comments sit before the comma.",
  "explicit-state BFS over real edit call histories; step-wise conformance with a reference tree plus verbatim-fragment oracle"),
 "C18": ("exploration", "cfg", "5/C18",
  "The cargo feature matrix is enumerated completely (quick: 10 configurations, thorough: 20: toml_edit default / perf / serde / unbounded x parse+display / parse-only / display-only; toml default / preserve_order x parse+display / parse-only / display-only, with perf and unbounded underneath); every configuration must build; one deterministic battery (all documents of <= 4 tokens, all statement sequences <= 3, range-edge literals, decor samples, API-built documents, toml::Value trees in every insertion order, every toml::Map call history of <= 4 calls over 4 keys, equality of same-content tables, 7 nesting constructs x 11 depths up to 200, a foreign serde source with wrong size hints, 20 480 floats and the i64 lattice through the number writers, source order of keys under preserve_order) runs in each, every library call guarded so that a panic is that configuration's result; block digests of verdicts, trees, printed text and sorted observations are compared between all configurations that can compute them, a differing block is dumped to locate the item.",
  "Documented exceptions: order-dependent kinds are compared only between configurations with the same map ordering; the deep-nesting kind is compared only between configurations with the same boundedness, and the unbounded ones must accept every deep document. A battery process that dies is a violation of that configuration, not a machinery error. The configuration space is enumerated completely, the battery is a bounded slice.",
  "exhaustive enumeration of the feature matrix x a fixed battery; cross-configuration digest equality"),
 "C19": ("exploration", "prog", "5/C19",
  "Every document of the enumerated macro-tokenisable shapes (8 key shapes, 44 value shapes, 9 nestings, 9 header shapes, header pairs, statement pairs; 2.2 K documents quick, ~12 K thorough) that the parser accepts is written into generated Rust programs, once inside toml!{..} and once as a string literal, compiled against /repo and run; the macro's table must equal the parsed table (floats bit-wise); a shape that stops compiling is bisected to the document and reported.",
  "Shapes the macro cannot tokenise by design (literal strings, \\u escapes, +hh:mm offsets, integers beyond i32 without a suffix, multi-line strings, comments) are excluded by construction of the alphabet.",
  "enumeration of documents emitted as compiled programs; macro result vs run-time parse equality"),
}

NOT_YET = {}

def main():
    props = [json.loads(l)["id"] for l in open("/verif/properties.jsonl")]
    checks = []
    for pid in props:
        if pid not in CHECKS:
            continue
        cat, engine, ref, text, note, tech = CHECKS[pid]
        if pid in ROUND6:
            text = text + " Added in seed round 6 (DESIGN 10.4): " + ROUND6[pid]
        checks.append({
            "property_id": pid,
            "quick_cmd": f"./run.sh {pid} quick",
            "thorough_cmd": f"./run.sh {pid} thorough",
            "evidence_file": f"/verif/evidence/{pid}.json",
            "replay_cmd_template": f"./run.sh {pid} --replay {{path}}",
            "engine": engine,
            "level_claimed": {"category": cat, "text": text, "design_ref": ref},
            "level_note": note,
            "technique": tech,
        })
    na = [{"property_id": p, "reason": NOT_YET.get(p, "check not yet registered in this session: machinery under construction (DESIGN.md section 5 describes the planned bounded-exhaustive check)")} for p in props if p not in CHECKS]
    engines = [
        {"name": "enum", "path": "mc/checks", "serves_properties": [p for p in props if p in CHECKS and CHECKS[p][1] == "enum"], "kind_free_text": "stateless bounded-exhaustive enumeration of inputs on the real entry points (rayon-parallel, deterministic order); oracle = independent specification model mc/refmodel or model-free algebraic laws"},
        {"name": "tree", "path": "mc/checks", "serves_properties": [p for p in props if p in CHECKS and CHECKS[p][1] == "tree"], "kind_free_text": "bounded-exhaustive enumeration of value trees / serde values built through the real constructors, printed and re-parsed"},
        {"name": "state", "path": "mc/checks", "serves_properties": [p for p in props if p in CHECKS and CHECKS[p][1] == "state"], "kind_free_text": "explicit-state search (BFS with canonical-state deduplication) where each transition is one real API call, compared step by step with a plain reference container"},
        {"name": "proc", "path": "mc/checks", "serves_properties": [p for p in props if p in CHECKS and CHECKS[p][1] == "proc"], "kind_free_text": "enumeration where each case runs in a sacrificial worker process / bounded-stack thread"},
        {"name": "cfg", "path": "mc/cfgbattery", "serves_properties": [p for p in props if p in CHECKS and CHECKS[p][1] == "cfg"], "kind_free_text": "exhaustive enumeration of the cargo feature matrix with an identical deterministic battery per configuration"},
        {"name": "prog", "path": "mc/macrogen", "serves_properties": [p for p in props if p in CHECKS and CHECKS[p][1] == "prog"], "kind_free_text": "enumeration of macro-tokenisable documents emitted as Rust programs, compiled against /repo and executed"},
    ]
    engines = [e for e in engines if e["serves_properties"]]
    m = {
        "version": 1,
        "setup_cmd": "./run.sh setup",
        "hooks": {
            "guard": "toml_rs_toml_verif",
            "enable": "no hooks are needed: every property is observable through public API; checks path-depend on /repo/crates/* and rebuild from the working tree on every run",
            "baseline_off_cmd": "/verif/tools/baseline.sh",
            "source_commits": [],
            "add_only": True,
        },
        "engines": engines,
        "checks": checks,
        "not_applicable": na,
        "notes": "Exit codes: 0 held (possibly with KNOWN-FINDING lines), 1 VIOLATION, 2 MACHINERY-ERROR (never a verdict). Known findings and fixed defects: /verif/known_findings.txt. Changes used to test the checks: /verif/seeded/ (198 property-breaking changes written by sub-agents, RESULTS.md = detection matrix), /verif/mutants/ (own mutants incl. release-only ones), /verif/benign/ (60 candidate property-preserving changes, RESULTS.md = silence matrix; two of them turned out to break a property and are reported).",
    }
    if not na:
        del m["not_applicable"]
    json.dump(m, open("/verif/MANIFEST.json", "w"), indent=1)
    print("checks:", [c["property_id"] for c in checks], "not_applicable:", [x["property_id"] for x in na])

if __name__ == "__main__":
    main()
