#!/bin/bash
# usage: keep_seeds.sh <seed names...>   confirms each seed (tools/confirm_seed.sh) and stores it under /verif/seeded/<name>/
for n in "$@"; do
  S=/tmp/seeds/$n
  [ -f "$S/patch.diff" ] || { echo "$n: missing"; continue; }
  if /verif/tools/confirm_seed.sh "$S" > /tmp/confirm_$n.log 2>&1; then
    mkdir -p /verif/seeded/$n
    cp "$S/patch.diff" "$S/demo.rs" /verif/seeded/$n/
    python3 - "$S" "$n" <<'PY'
import json,sys
s,n=sys.argv[1],sys.argv[2]
try: m=json.load(open(s+'/meta.json'))
except Exception as e: m={"property":n.split('_')[0],"summary":"(meta.json of the sub-agent was not valid JSON)"}
m["breaks_property"]=n.split('_')[0]
m["confirmed"]={"by":"tools/confirm_seed.sh in a scratch worktree of /repo HEAD","result":open('/tmp/confirm_'+n+'.log').read().strip().splitlines()[-2:]}
json.dump(m,open('/verif/seeded/'+n+'/meta.json','w'),indent=1)
PY
    echo "$n: CONFIRMED and stored"
  else
    echo "$n: REJECTED ($(tail -1 /tmp/confirm_$n.log))"
  fi
done
