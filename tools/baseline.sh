#!/bin/bash
# Runs the repository's pinned baseline (guard off; there are no hooks) and prints the nextest summary line.
cd "${VERIF_REPO:-/repo}" && cargo nextest run --workspace --no-fail-fast --tool-config-file pb:/w/lib/nextest.toml --profile pb --test-threads 16 --offline 2>&1 | tail -15
