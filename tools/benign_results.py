#!/usr/bin/env python3
"""Writes /verif/benign/RESULTS.md from the logs of tools/benign_matrix.sh (argv: log files; later logs override)."""
import json, os, sys
res = {}
for f in sys.argv[1:]:
    for line in open(f):
        for part in line.strip().split(';'):
            p = part.split()
            if len(p) == 3 and p[0].startswith('B'):
                res.setdefault(p[0], {})[p[1]] = p[2]
notes = {
 'B9_2': 'NOT property-preserving (true positive): the error renderer now pads with `{:width$}`; Rust limits a formatting width to u16, so rendering an error whose column is >= 65536 panics ("Formatting argument out of range"). C05 met it on its 128 KiB one-line documents (a rejected 65535-segment header); rendering an error must never panic (C04 / C15).',
 'B5_4': 'NOT property-preserving (true positive): keeping a re-opened implicit table in its slot also keeps the FIRST spelling of its key, so `[a.b]` / `[\\ta]` prints `[a]` - an unedited document without dotted keys no longer prints back byte-for-byte (C03). On the unchanged tree this input round-trips; the alarm is a different input than the recorded finding KF-C03-1 covers, and is reported as such.',
 'B1_2': 'first pass: false alarm of C05 (recognised the recursion-limit error by its wording, then by the whole message); corrected - the cause line of what the library says for a reference document is used; silent since',
}
out = ['# Property-preserving changes: every quick check against each (expected: silence)\n',
       'Produced by `tools/benign_matrix.sh` (scratch copy of /repo with the patch applied, all 20 quick checks) and `tools/benign_results.py`.',
       'Each change was written by a sub-agent that saw only the property texts; each compiles and passes the 2144 baseline tests.',
       'B1-B4: first round; B5-B8: second round; B9-B12: third round (after seed round 5). The listed result of every change is from a run against the final checks.\n',
       '| change | what | alarms in the last run | note |', '|---|---|---|---|']
for n in sorted(res):
    mp = f'/verif/benign/{n}/meta.json'
    m = json.load(open(mp)) if os.path.exists(mp) else {}
    bad = [k for k, v in sorted(res[n].items()) if v != 'exit=0']
    out.append(f"| {n} | {(m.get('summary') or '')[:260].replace('|', '/').replace(chr(10), ' ')} | {', '.join(bad) if bad else 'none (%d/%d silent)' % (len(res[n]), len(res[n]))} | {notes.get(n, '')} |")
open('/verif/benign/RESULTS.md', 'w').write('\n'.join(out) + '\n')
print(len(res), 'changes;', sum(1 for n in res for v in res[n].values() if v != 'exit=0'), 'alarms')
