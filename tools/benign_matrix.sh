#!/bin/bash
# usage: benign_matrix.sh <names...>   runs every quick check against each property-preserving change (expected: all exit 0)
export MX=${MX:-/root/scratch/mx3}
ALL="C01 C02 C03 C04 C05 C06 C07 C08 C09 C10 C11 C12 C13 C14 C15 C16 C17 C18 C19 C20"
for n in "$@"; do
  /verif/tools/mx_try.sh $n $ALL 2>&1 | grep -v conda | awk '{print $1, $2, $3}' | tr '\n' ';'
  echo
done
