use rayon::prelude::*;
use toml_write::{TomlStringBuilder, TomlKeyBuilder, ToTomlValue, ToTomlKey};
use std::sync::Mutex;
fn main() {
    let sigma: Vec<&str> = vec!["\"","'","\\","\n","\r","\t"," ","\0","\u{1f}","\u{7f}","#","a","é","😀"];
    let n: usize = std::env::args().nth(1).unwrap().parse().unwrap();
    let k = sigma.len() as u64;
    let bad: Mutex<Vec<String>> = Mutex::new(Vec::new());
    let mut total = 0u64;
    for len in 0..=n {
        let cnt = k.pow(len as u32);
        total += cnt;
        (0..cnt).into_par_iter().for_each(|i0| {
            let mut i = i0; let mut s = String::new();
            for _ in 0..len { s.push_str(sigma[(i % k) as usize]); i /= k; }
            let b = TomlStringBuilder::new(&s);
            let mut styles: Vec<(&str, Option<String>)> = vec![
                ("default", Some(b.as_default().to_toml_value())),
                ("basic", Some(b.as_basic().to_toml_value())),
                ("ml_basic", Some(b.as_ml_basic().to_toml_value())),
                ("literal", b.as_literal().map(|t| t.to_toml_value())),
                ("ml_literal", b.as_ml_literal().map(|t| t.to_toml_value())),
                ("basic_pretty", b.as_basic_pretty().map(|t| t.to_toml_value())),
                ("ml_basic_pretty", b.as_ml_basic_pretty().map(|t| t.to_toml_value())),
            ];
            styles.push(("value_from", Some(toml_edit::Value::from(s.as_str()).to_string())));
            for (name, tok) in styles {
                if let Some(tok) = tok {
                    let ok1 = tok.parse::<toml_edit::Value>().ok().and_then(|v| v.as_str().map(|x| x == s)).unwrap_or(false);
                    let doc = format!("k = {tok}\n");
                    let ok2 = doc.parse::<toml_edit::DocumentMut>().ok().and_then(|d| d["k"].as_str().map(|x| x == s)).unwrap_or(false);
                    if !(ok1 && ok2) { bad.lock().unwrap().push(format!("VALUE style={name} s={s:?} tok={tok:?} alone={ok1} doc={ok2}")); }
                }
            }
            let kb = TomlKeyBuilder::new(&s);
            let kstyles: Vec<(&str, Option<String>)> = vec![
                ("default", Some(kb.as_default().to_toml_key())),
                ("basic", Some(kb.as_basic().to_toml_key())),
                ("unquoted", kb.as_unquoted().map(|t| t.to_toml_key())),
                ("literal", kb.as_literal().map(|t| t.to_toml_key())),
                ("basic_pretty", kb.as_basic_pretty().map(|t| t.to_toml_key())),
                ("key_new", Some(toml_edit::Key::new(s.as_str()).to_string())),
            ];
            for (name, tok) in kstyles {
                if let Some(tok) = tok {
                    let ok1 = tok.parse::<toml_edit::Key>().ok().map(|v| v.get() == s).unwrap_or(false);
                    let doc = format!("{tok} = 1\n");
                    let ok2 = doc.parse::<toml_edit::DocumentMut>().ok().map(|d| d.as_table().iter().next().map(|(k,_)| k == s).unwrap_or(false)).unwrap_or(false);
                    if !(ok1 && ok2) { bad.lock().unwrap().push(format!("KEY style={name} s={s:?} tok={tok:?} alone={ok1} doc={ok2}")); }
                }
            }
        });
    }
    let bad = bad.into_inner().unwrap();
    println!("total strings {total} bad {}", bad.len());
    let mut bad = bad; bad.sort_by_key(|b| b.len()); for b in bad.iter().take(40) { println!("{b}"); }
}
