use stateright::{Model, Property, Checker};
use std::hash::{Hash, Hasher};
use toml_edit::{InlineTable, Item, Value, Key, TableLike};

#[derive(Clone, Debug, PartialEq)]
enum V { Int(i64), Placeholder }
#[derive(Clone, Debug)]
struct St { real: Item, model: Vec<(String, V)>, canon: String, ok: bool, why: String }
impl PartialEq for St { fn eq(&self, o: &Self) -> bool { self.canon == o.canon } }
impl Eq for St {}
impl Hash for St { fn hash<H: Hasher>(&self, h: &mut H) { self.canon.hash(h) } }
#[derive(Clone, Debug, PartialEq)]
enum Op { Insert(&'static str, i64), InsertFmt(&'static str, i64), GetOrInsert(&'static str, i64), Remove(&'static str), RemoveEntry(&'static str), ItemIndexMut(&'static str), ItemAssign(&'static str, i64), EntryOrInsert(&'static str, i64), RetainNotA, Sort, Clear, TlInsert(&'static str, i64), TlRemove(&'static str), TlEntryOrInsert(&'static str, i64) }
fn it(i: &Item) -> &InlineTable { i.as_inline_table().unwrap() }
fn itm(i: &mut Item) -> &mut InlineTable { i.as_inline_table_mut().unwrap() }
fn sv(v: &Value) -> String { v.as_integer().map(|x| x.to_string()).unwrap_or_else(|| format!("?{}", v.type_name())) }
fn si(i: &Item) -> String { match i { Item::None => "NONE".into(), Item::Value(v) => sv(v), _ => "?".into() } }
fn obs_real(item: &Item) -> (String, String) {
    let t = it(item);
    let inh = format!("len={} empty={} iter=[{}] gets=[{}] print={}", t.len(), t.is_empty(), t.iter().map(|(k, v)| format!("{k}={}", sv(v))).collect::<Vec<_>>().join(","),
        ["a","b","c"].iter().map(|k| format!("{k}:{:?}/{}", t.get(k).map(sv), t.contains_key(k))).collect::<Vec<_>>().join(","), t.to_string());
    let tl: &dyn TableLike = t;
    let tlo = format!("len={} empty={} iter=[{}] gets=[{}] print={}", tl.len(), tl.is_empty(), tl.iter().filter(|(_, v)| !v.is_none()).map(|(k, v)| format!("{k}={}", si(v))).collect::<Vec<_>>().join(","),
        ["a","b","c"].iter().map(|k| format!("{k}:{:?}/{}", tl.get(k).filter(|v| !v.is_none()).map(si), tl.contains_key(k))).collect::<Vec<_>>().join(","), t.to_string());
    (inh, tlo)
}
fn obs_model(m: &[(String, V)]) -> String {
    let vis: Vec<(&String, i64)> = m.iter().filter_map(|(k, v)| match v { V::Int(i) => Some((k, *i)), _ => None }).collect();
    let print = if vis.is_empty() { "{}".to_string() } else { format!("{{ {} }}", vis.iter().map(|(k, v)| format!("{k} = {v}")).collect::<Vec<_>>().join(", ")) };
    format!("len={} empty={} iter=[{}] gets=[{}] print={}", vis.len(), vis.is_empty(), vis.iter().map(|(k, v)| format!("{k}={v}")).collect::<Vec<_>>().join(","),
        ["a","b","c"].iter().map(|k| { let g = vis.iter().find(|(kk, _)| kk.as_str() == *k).map(|(_, v)| v.to_string()); format!("{k}:{:?}/{}", g, g.is_some()) }).collect::<Vec<_>>().join(","), print)
}
fn mk(real: Item, model: Vec<(String, V)>, ok: bool, why: String) -> St { let canon = format!("{:?}|{:?}|{}", real, model, ok); St { real, model, canon, ok, why } }
static VIOL: std::sync::Mutex<Vec<String>> = std::sync::Mutex::new(Vec::new());
struct M;
impl Model for M {
    type State = St; type Action = Op;
    fn init_states(&self) -> Vec<St> { vec![mk(Item::Value(Value::InlineTable(InlineTable::new())), vec![], true, String::new())] }
    fn actions(&self, _s: &St, a: &mut Vec<Op>) {
        for k in ["a","b","c"] { for v in [1,2] { a.push(Op::Insert(k, v)); a.push(Op::InsertFmt(k, v)); a.push(Op::GetOrInsert(k, v)); a.push(Op::ItemAssign(k, v)); a.push(Op::EntryOrInsert(k, v)); a.push(Op::TlInsert(k, v)); a.push(Op::TlEntryOrInsert(k, v)); }
            a.push(Op::Remove(k)); a.push(Op::RemoveEntry(k)); a.push(Op::ItemIndexMut(k)); a.push(Op::TlRemove(k)); }
        a.push(Op::RetainNotA); a.push(Op::Sort); a.push(Op::Clear);
    }
    fn next_state(&self, s: &St, op: Op) -> Option<St> {
        if !s.ok { return None; }
        let mut real = s.real.clone(); let mut model = s.model.clone();
        let pos = |m: &Vec<(String, V)>, k: &str| m.iter().position(|(kk, _)| kk == k);
        let put = |m: &mut Vec<(String, V)>, k: &str, v: i64| -> Option<V> { match m.iter().position(|(kk, _)| kk == k) { Some(i) => Some(std::mem::replace(&mut m[i].1, V::Int(v))), None => { m.push((k.to_string(), V::Int(v))); None } } };
        let vis = |o: Option<V>| match o { Some(V::Int(i)) => Some(i.to_string()), _ => None };
        let r = std::panic::catch_unwind(std::panic::AssertUnwindSafe(|| -> (String, String) { match &op {
            Op::Insert(k, v) => { let r = itm(&mut real).insert(*k, Value::from(*v)); let m = put(&mut model, k, *v); (format!("{:?}", r.as_ref().map(sv)), format!("{:?}", vis(m))) }
            Op::InsertFmt(k, v) => { let r = itm(&mut real).insert_formatted(&Key::new(*k), Value::from(*v)); let m = put(&mut model, k, *v); (format!("{:?}", r.as_ref().map(sv)), format!("{:?}", vis(m))) }
            Op::TlInsert(k, v) => { let tl: &mut dyn TableLike = itm(&mut real); let r = tl.insert(k, Item::Value(Value::from(*v))); let m = put(&mut model, k, *v); (format!("{:?}", r.as_ref().filter(|i| !i.is_none()).map(si)), format!("{:?}", vis(m))) }
            Op::GetOrInsert(k, v) => { let r = sv(itm(&mut real).get_or_insert(*k, *v)); let m = match pos(&model, k) { Some(i) => match &model[i].1 { V::Int(x) => x.to_string(), V::Placeholder => { model[i].1 = V::Int(*v); v.to_string() } }, None => { model.push((k.to_string(), V::Int(*v))); v.to_string() } }; (r, m) }
            Op::EntryOrInsert(k, v) => { let r = sv(itm(&mut real).entry(*k).or_insert(Value::from(*v))); let m = match pos(&model, k) { Some(i) => match &model[i].1 { V::Int(x) => x.to_string(), V::Placeholder => { model[i].1 = V::Int(*v); v.to_string() } }, None => { model.push((k.to_string(), V::Int(*v))); v.to_string() } }; (r, m) }
            Op::TlEntryOrInsert(k, v) => { let tl: &mut dyn TableLike = itm(&mut real); let r = { let e = tl.entry(k).or_insert(Item::Value(Value::from(*v))); if e.is_none() { *e = Item::Value(Value::from(*v)); } si(e) }; let m = match pos(&model, k) { Some(i) => match &model[i].1 { V::Int(x) => x.to_string(), V::Placeholder => { model[i].1 = V::Int(*v); v.to_string() } }, None => { model.push((k.to_string(), V::Int(*v))); v.to_string() } }; (r, m) }
            Op::Remove(k) => { let r = itm(&mut real).remove(k); let m = pos(&model, k).map(|i| model.remove(i).1); (format!("{:?}", r.as_ref().map(sv)), format!("{:?}", vis(m))) }
            Op::TlRemove(k) => { let tl: &mut dyn TableLike = itm(&mut real); let r = tl.remove(k); let m = pos(&model, k).map(|i| model.remove(i).1); (format!("{:?}", r.as_ref().filter(|i| !i.is_none()).map(si)), format!("{:?}", vis(m))) }
            Op::RemoveEntry(k) => { let r = itm(&mut real).remove_entry(k); let m = pos(&model, k).map(|i| model.remove(i)); (format!("{:?}", r.as_ref().map(|(kk, v)| (kk.get().to_string(), sv(v)))), format!("{:?}", m.and_then(|(kk, v)| match v { V::Int(i) => Some((kk, i.to_string())), _ => None }))) }
            Op::ItemIndexMut(k) => { let _ = &mut real[*k]; if pos(&model, k).is_none() { model.push((k.to_string(), V::Placeholder)); } (String::new(), String::new()) }
            Op::ItemAssign(k, v) => { real[*k] = toml_edit::value(*v); put(&mut model, k, *v); (String::new(), String::new()) }
            Op::RetainNotA => { itm(&mut real).retain(|k, _| k != "a"); model.retain(|(k, v)| k != "a" && *v != V::Placeholder); (String::new(), String::new()) }
            Op::Sort => { itm(&mut real).sort_values(); model.sort_by(|a, b| a.0.cmp(&b.0)); (String::new(), String::new()) }
            Op::Clear => { itm(&mut real).clear(); model.clear(); (String::new(), String::new()) }
        }}));
        let (rret, mret) = match r { Ok(x) => x, Err(_) => { VIOL.lock().unwrap().push(format!("PANIC :: op={op:?} on {:?}", s.model)); return Some(mk(real, model, false, format!("op={op:?} PANICKED"))) } };
        let ((inh, tl), om) = (obs_real(&real), obs_model(&model));
        let ok = rret == mret && inh == om && tl == om;
        if !ok { VIOL.lock().unwrap().push(format!("{:?}", op).split("(").next().unwrap().to_string() + " :: " + &format!("op={op:?} ret real={rret} model={mret}\n inherent : {inh}\n tablelike: {tl}\n model    : {om}")); }
        let why = if ok { String::new() } else { format!("op={op:?} ret real={rret} model={mret}\n inherent : {inh}\n tablelike: {tl}\n model    : {om}") };
        Some(mk(real, model, ok, why))
    }
    fn properties(&self) -> Vec<Property<Self>> { vec![Property::<Self>::sometimes("never", |_, _| false)] }
}
fn main() {
    std::panic::set_hook(Box::new(|_| {}));
    let depth: usize = std::env::args().nth(1).map(|s| s.parse().unwrap()).unwrap_or(4);
    let c = M.checker().threads(16).target_max_depth(depth).spawn_bfs().join();
    println!("states={} max_depth={} done={}", c.unique_state_count(), c.max_depth(), c.is_done());
    let mut v = VIOL.lock().unwrap().clone(); v.sort_by_key(|x| x.len()); let mut seen = std::collections::BTreeSet::new(); println!("violations {}", v.len()); for x in &v { let cls = x.split(" :: ").next().unwrap().to_string(); if seen.insert(cls) { println!("{x}\n"); } }
    for (name, path) in c.discoveries() { println!("DISCOVERY {name}: actions={:?}", path.clone().into_actions()); println!("{}", path.last_state().why); }
}
