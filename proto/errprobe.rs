use rayon::prelude::*;
use std::sync::Mutex;
fn refpos(src: &str, start: usize) -> (usize, usize) {
    if src.is_empty() { return (1, start + 1); }
    if start >= src.len() {
        // one past the end of the last line (line containing the last byte)
        let last = src.len() - 1;
        let line_start = src.as_bytes()[..last].iter().rposition(|b| *b == b'\n').map(|i| i + 1).unwrap_or(0);
        let line = src[..line_start].matches('\n').count();
        let col = src[line_start..].chars().count() + (start - src.len());
        return (line + 1, col + 1);
    }
    let line_start = src[..start].rfind('\n').map(|i| i + 1).unwrap_or(0);
    let line = src[..line_start].matches('\n').count();
    let col = src[line_start..start].chars().count();
    (line + 1, col + 1)
}
fn main() {
    let mode = std::env::args().nth(1).unwrap();
    let n: usize = std::env::args().nth(2).unwrap().parse().unwrap();
    let toks: Vec<&str> = if mode == "tok" { vec!["a","b","\"a\"","'b'",".","=","[","]","{","}",",","1","0","-","_","e",":","true","inf"," ","\n","\r\n","#c","\"\"\"", "é"] } else { vec!["\"","'","\\","\n","\r","\t"," ","\0","\u{7f}","#","a","é","n","u","0","=","😀"] };
    let k = toks.len() as u64;
    let bad: Mutex<Vec<String>> = Mutex::new(Vec::new());
    let mut tot = 0u64; 
    for len in 0..=n {
        let cnt = k.pow(len as u32); tot += cnt;
        (0..cnt).into_par_iter().for_each(|i0| {
            let mut i = i0; let mut s = String::new();
            for _ in 0..len { s.push_str(toks[(i % k) as usize]); i /= k; }
            if let Err(e) = s.parse::<toml_edit::DocumentMut>() {
                let mut problems = Vec::new();
                if e.message().is_empty() { problems.push("empty message".to_string()); }
                let r = std::panic::catch_unwind(|| e.to_string());
                match (&r, e.span()) {
                    (Err(_), _) => problems.push("display panicked".into()),
                    (Ok(text), Some(sp)) => {
                        if sp.start > sp.end || sp.end > s.len() + 1 { problems.push(format!("span {sp:?} out of bounds len {}", s.len())); }
                        else if sp.start <= s.len() && !s.is_char_boundary(sp.start) || (sp.end <= s.len() && !s.is_char_boundary(sp.end)) { problems.push(format!("span {sp:?} not on char boundary")); }
                        else {
                            let (l, c) = refpos(&s, sp.start);
                            let want = format!("TOML parse error at line {l}, column {c}\n");
                            if !text.starts_with(&want) { problems.push(format!("position: want {:?} got {:?} span {sp:?}", want, text.lines().next())); }
                        }
                    }
                    (Ok(_), None) => problems.push("no span".into()),
                }
                if !problems.is_empty() { bad.lock().unwrap().push(format!("{s:?}: {problems:?}")); }
            }
        });
    }
    let mut bad = bad.into_inner().unwrap();
    println!("total {tot} bad {}", bad.len());
    bad.sort_by_key(|b| b.len()); for b in bad.iter().take(1000000) { println!("{b}"); }
}
