use rayon::prelude::*;
use std::sync::Mutex;
use toml_edit::{ImDocument, Item, Value, Table};
fn val_eq(a: &Value, b: &Value) -> bool {
    match (a, b) {
        (Value::String(x), Value::String(y)) => x.value() == y.value(),
        (Value::Integer(x), Value::Integer(y)) => x.value() == y.value(),
        (Value::Float(x), Value::Float(y)) => x.value().to_bits() == y.value().to_bits(),
        (Value::Boolean(x), Value::Boolean(y)) => x.value() == y.value(),
        (Value::Datetime(x), Value::Datetime(y)) => x.value() == y.value(),
        (Value::Array(x), Value::Array(y)) => x.len() == y.len() && x.iter().zip(y.iter()).all(|(p, q)| val_eq(p, q)),
        (Value::InlineTable(x), Value::InlineTable(y)) => x.len() == y.len() && x.iter().zip(y.iter()).all(|((k1, p), (k2, q))| k1 == k2 && val_eq(p, q)),
        _ => false,
    }
}
fn inb(src: &str, sp: &std::ops::Range<usize>) -> bool { sp.start <= sp.end && sp.end <= src.len() && src.is_char_boundary(sp.start) && src.is_char_boundary(sp.end) }
fn check_value(src: &str, v: &Value, parent: Option<&std::ops::Range<usize>>, out: &mut Vec<String>) {
    let Some(sp) = v.span() else { out.push(format!("value without span: {:?}", v.type_name())); return; };
    if !inb(src, &sp) { out.push(format!("value span {sp:?} out of bounds/boundary")); return; }
    if let Some(p) = parent { if !(p.start <= sp.start && sp.end <= p.end) { out.push(format!("value span {sp:?} outside parent {p:?}")); } }
    match src[sp.clone()].parse::<Value>() { Ok(r) => if !val_eq(&r, v) { out.push(format!("reparse of {:?} differs", &src[sp.clone()])); }, Err(_) => out.push(format!("slice {:?} does not reparse as value", &src[sp.clone()])) }
    match v { Value::Array(a) => for e in a.iter() { check_value(src, e, Some(&sp), out); },
        Value::InlineTable(t) => check_tablelike_inline(src, t, &sp, out), _ => {} }
}
fn check_key(src: &str, k: &toml_edit::Key, parent: Option<&std::ops::Range<usize>>, out: &mut Vec<String>) {
    let Some(sp) = k.span() else { out.push(format!("key {:?} without span", k.get())); return; };
    if !inb(src, &sp) { out.push(format!("key span {sp:?} oob")); return; }
    if let Some(p) = parent { if !(p.start <= sp.start && sp.end <= p.end) { out.push(format!("key {:?} span {sp:?} outside parent {p:?}", k.get())); } }
    match src[sp.clone()].parse::<toml_edit::Key>() { Ok(r) => if r.get() != k.get() { out.push(format!("key reparse {:?} != {:?}", r.get(), k.get())); }, Err(_) => out.push(format!("key slice {:?} does not reparse", &src[sp.clone()])) }
}
fn check_tablelike_inline(src: &str, t: &toml_edit::InlineTable, sp: &std::ops::Range<usize>, out: &mut Vec<String>) {
    for (k, v) in t.iter() { let key = t.key(k).unwrap(); 
        if let Some(it) = v.as_inline_table() { if it.is_dotted() { check_key(src, key, Some(sp), out); check_tablelike_inline(src, it, sp, out); continue; } }
        check_key(src, key, Some(sp), out); check_value(src, v, Some(sp), out); }
}
fn check_table(src: &str, t: &Table, section: Option<&std::ops::Range<usize>>, out: &mut Vec<String>) {
    // section = span of the nearest enclosing non-dotted table section
    let own = if t.is_dotted() { section.cloned() } else { t.span() };
    if let Some(sp) = &own { if !inb(src, sp) { out.push(format!("table span {sp:?} oob")); } }
    for (k, item) in t.iter() {
        let key = t.key(k).unwrap();
        match item {
            Item::Value(v) => { check_key(src, key, own.as_ref(), out); check_value(src, v, own.as_ref(), out); }
            Item::Table(sub) => { if sub.is_dotted() { check_key(src, key, own.as_ref(), out); check_table(src, sub, own.as_ref(), out); } else { check_table(src, sub, None, out); } }
            Item::ArrayOfTables(a) => { let asp = a.span(); if let Some(asp) = &asp { if !inb(src, asp) { out.push("aot span oob".into()); } }
                for e in a.iter() { if let (Some(asp), Some(esp)) = (&asp, e.span()) { if !(asp.start <= esp.start && esp.end <= asp.end) { out.push(format!("aot elem span {esp:?} outside aot {asp:?}")); } } else { out.push("aot or elem without span".into()); } check_table(src, e, None, out); } }
            Item::None => {}
        }
    }
}
fn main() {
    let mode = std::env::args().nth(1).unwrap();
    let n: usize = std::env::args().nth(2).unwrap().parse().unwrap();
    let toks: Vec<String> = if mode == "tok" { ["a","\"é\"","'b'",".","=","[","]","{","}",",","1","-","true"," ","\n","\r\n","#é","\"\"\"", "\u{feff}", "1979-05-27", "\t"].iter().map(|s| s.to_string()).collect() } else {
        let mut v = Vec::new(); for p in ["a","b","a.b","b.a"," a . \"é\" "] { v.push(format!("[{p}] # h\n")); v.push(format!("[[{p}]]\n")); v.push(format!("{p} = 1 # c\n")); v.push(format!(" {p}={{b.a = 1, \"é\"=[ 1 , {{}} ]}}\r\n")); v.push(format!("{p} = [1, 'é']\n")); } v };
    let k = toks.len() as u64;
    let bad: Mutex<Vec<String>> = Mutex::new(Vec::new());
    let (mut tot, acc) = (0u64, std::sync::atomic::AtomicU64::new(0));
    for len in 0..=n { let cnt = k.pow(len as u32); tot += cnt;
        (0..cnt).into_par_iter().for_each(|i0| { let mut i = i0; let mut s = String::new(); for _ in 0..len { s.push_str(&toks[(i % k) as usize]); i /= k; }
            if let Ok(d) = ImDocument::parse(s.as_str()) { acc.fetch_add(1, std::sync::atomic::Ordering::Relaxed); let mut out = Vec::new(); check_table(&s, d.as_table(), None, &mut out);
                // despan check
                let m = d.clone().into_mut(); fn any_span(t: &Table) -> bool { t.span().is_some() || t.iter().any(|(k, i)| t.key(k).unwrap().span().is_some() || match i { Item::Value(v) => v.span().is_some(), Item::Table(s) => any_span(s), Item::ArrayOfTables(a) => a.span().is_some() || a.iter().any(any_span), Item::None => false }) }
                if any_span(m.as_table()) { out.push("span survives into_mut".into()); }
                if !out.is_empty() { bad.lock().unwrap().push(format!("{s:?}: {out:?}")); } }
        }); }
    let mut bad = bad.into_inner().unwrap(); bad.sort_by_key(|b| b.len());
    println!("total {tot} accepted {} bad {}", acc.into_inner(), bad.len()); for b in bad.iter().take(25) { println!("{}", &b[..b.len().min(400)]); }
}
