import sys, json, tomllib, math, struct, datetime, multiprocessing as mp
def tag(v):
    if isinstance(v, bool): return {"t":"b","v":v}
    if isinstance(v, str): return {"t":"s","v":v}
    if isinstance(v, int): return {"t":"i","v":str(v)}
    if isinstance(v, float):
        if math.isnan(v): v=float('nan'); b=0x7ff8000000000000
        else: b=struct.unpack('>Q', struct.pack('>d', v))[0]
        return {"t":"f","v":"%016x"%b}
    if isinstance(v,(datetime.datetime,datetime.date,datetime.time)): return {"t":"d","v":"?"}
    if isinstance(v, list): return [tag(x) for x in v]
    if isinstance(v, dict): return {k:tag(x) for k,x in v.items()}
    raise Exception(type(v))
def strip_d(j):
    if isinstance(j, dict):
        if j.get("t")=="d" and "v" in j and isinstance(j["v"],str): return {"t":"d","v":"?"}
        return {k:strip_d(x) for k,x in j.items()}
    if isinstance(j, list): return [strip_d(x) for x in j]
    return j
def work(lines):
    out=[]
    for line in lines:
        s, verdict = line.rstrip("\n").split("\t",1)
        s=json.loads(s)
        try:
            r=tomllib.loads(s); pv=json.dumps(tag(r), sort_keys=True)
        except Exception as e:
            pv="ERR"
        rv = verdict if verdict=="ERR" else json.dumps(strip_d(json.loads(verdict)), sort_keys=True)
        if pv!=rv: out.append((s, rv, pv))
    return out
if __name__=="__main__":
    lines=open(sys.argv[1]).readlines()
    chunks=[lines[i:i+20000] for i in range(0,len(lines),20000)]
    with mp.Pool(16) as p:
        res=p.map(work, chunks)
    diffs=[d for r in res for d in r]
    print("total", len(lines), "diffs", len(diffs))
    for d in diffs[:int(sys.argv[2]) if len(sys.argv)>2 else 30]:
        print(repr(d[0]), "| rust:", d[1][:100], "| py:", d[2][:100])
