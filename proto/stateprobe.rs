use stateright::{Model, Property, Checker};
use std::hash::{Hash, Hasher};
use toml_edit::{Table, Item, value, Key};

#[derive(Clone, Debug)]
enum V { Int(i64), Tbl, Placeholder }
#[derive(Clone, Debug)]
struct St { real: Table, model: Vec<(String, V)>, canon: String, ok: bool, why: String }
impl PartialEq for St { fn eq(&self, o: &Self) -> bool { self.canon == o.canon } }
impl Eq for St {}
impl Hash for St { fn hash<H: Hasher>(&self, h: &mut H) { self.canon.hash(h) } }

#[derive(Clone, Debug, PartialEq)]
enum Op { Insert(&'static str, i64), InsertTbl(&'static str), InsertFmt(&'static str, i64), Remove(&'static str), RemoveEntry(&'static str), IndexMut(&'static str), Assign(&'static str, i64), EntryOrInsert(&'static str, i64), RetainNotA, RetainEven, Sort, SortRev, Clear, Extend(&'static str, i64) }

fn obs_real(t: &Table) -> String {
    let it: Vec<String> = t.iter().map(|(k, v)| format!("{k}={}", show_item(v))).collect();
    let gets: Vec<String> = ["a","b","c"].iter().map(|k| format!("{k}:{:?}/{}/{}/{}", t.get(k).map(show_item), t.contains_key(k), t.contains_value(k), t.contains_table(k))).collect();
    format!("len={} empty={} iter=[{}] gets=[{}] kv=[{}]", t.len(), t.is_empty(), it.join(","), gets.join(","),
        ["a","b","c"].iter().map(|k| format!("{:?}", t.get_key_value(k).map(|(kk, v)| (kk.get().to_string(), show_item(v))))).collect::<Vec<_>>().join(","))
}
fn show_item(i: &Item) -> String { match i { Item::None => "NONE".into(), Item::Value(v) => format!("{}", v.as_integer().map(|x| x.to_string()).unwrap_or("?".into())), Item::Table(_) => "T".into(), Item::ArrayOfTables(_) => "A".into() } }
fn show_v(v: &V) -> String { match v { V::Int(i) => i.to_string(), V::Tbl => "T".into(), V::Placeholder => "NONE".into() } }
fn obs_model(m: &[(String, V)]) -> String {
    let vis: Vec<&(String, V)> = m.iter().filter(|(_, v)| !matches!(v, V::Placeholder)).collect();
    let it: Vec<String> = vis.iter().map(|(k, v)| format!("{k}={}", show_v(v))).collect();
    let get = |k: &str| vis.iter().find(|(kk, _)| kk == k).map(|(_, v)| v.clone());
    let gets: Vec<String> = ["a","b","c"].iter().map(|k| { let g = get(k); format!("{k}:{:?}/{}/{}/{}", g.as_ref().map(show_v), g.is_some(), matches!(g, Some(V::Int(_))), matches!(g, Some(V::Tbl))) }).collect();
    format!("len={} empty={} iter=[{}] gets=[{}] kv=[{}]", vis.len(), vis.is_empty(), it.join(","), gets.join(","),
        ["a","b","c"].iter().map(|k| format!("{:?}", get(k).map(|v| (k.to_string(), show_v(&v))))).collect::<Vec<_>>().join(","))
}
fn mk(real: Table, model: Vec<(String, V)>, ok: bool, why: String) -> St {
    let canon = format!("{:?}|{:?}|{}", real, model, ok);
    St { real, model, canon, ok, why }
}
struct M;
impl Model for M {
    type State = St; type Action = Op;
    fn init_states(&self) -> Vec<St> { vec![mk(Table::new(), vec![], true, String::new())] }
    fn actions(&self, _s: &St, a: &mut Vec<Op>) {
        for k in ["a","b","c"] { for v in [1,2] { a.push(Op::Insert(k, v)); a.push(Op::Assign(k, v)); a.push(Op::EntryOrInsert(k, v)); a.push(Op::InsertFmt(k, v)); a.push(Op::Extend(k, v)); }
            a.push(Op::InsertTbl(k)); a.push(Op::Remove(k)); a.push(Op::RemoveEntry(k)); a.push(Op::IndexMut(k)); }
        a.push(Op::RetainNotA); a.push(Op::RetainEven); a.push(Op::Sort); a.push(Op::SortRev); a.push(Op::Clear);
    }
    fn next_state(&self, s: &St, op: Op) -> Option<St> {
        if !s.ok { return None; }
        let mut real = s.real.clone(); let mut model = s.model.clone();
        let pos = |m: &Vec<(String, V)>, k: &str| m.iter().position(|(kk, _)| kk == k);
        let norm = |o: Option<V>| match o { Some(V::Placeholder) | None => None, x => x };
        let (rret, mret): (String, String) = match &op {
            Op::Insert(k, v) => { let r = real.insert(k, value(*v)); let m = match pos(&model, k) { Some(i) => Some(std::mem::replace(&mut model[i].1, V::Int(*v))), None => { model.push((k.to_string(), V::Int(*v))); None } };
                (format!("{:?}", r.as_ref().filter(|i| !i.is_none()).map(show_item)), format!("{:?}", norm(m).as_ref().map(show_v))) }
            Op::InsertTbl(k) => { let r = real.insert(k, Item::Table(Table::new())); let m = match pos(&model, k) { Some(i) => Some(std::mem::replace(&mut model[i].1, V::Tbl)), None => { model.push((k.to_string(), V::Tbl)); None } };
                (format!("{:?}", r.as_ref().filter(|i| !i.is_none()).map(show_item)), format!("{:?}", norm(m).as_ref().map(show_v))) }
            Op::InsertFmt(k, v) => { let key = Key::new(*k); let r = real.insert_formatted(&key, value(*v)); let m = match pos(&model, k) { Some(i) => Some(std::mem::replace(&mut model[i].1, V::Int(*v))), None => { model.push((k.to_string(), V::Int(*v))); None } };
                (format!("{:?}", r.as_ref().filter(|i| !i.is_none()).map(show_item)), format!("{:?}", norm(m).as_ref().map(show_v))) }
            Op::Extend(k, v) => { real.extend([(*k, value(*v))]); match pos(&model, k) { Some(i) => { model[i].1 = V::Int(*v); }, None => model.push((k.to_string(), V::Int(*v))) }; (String::new(), String::new()) }
            Op::Remove(k) => { let r = real.remove(k); let m = pos(&model, k).map(|i| model.remove(i).1);
                (format!("{:?}", r.as_ref().filter(|i| !i.is_none()).map(show_item)), format!("{:?}", norm(m).as_ref().map(show_v))) }
            Op::RemoveEntry(k) => { let r = real.remove_entry(k); let m = pos(&model, k).map(|i| model.remove(i));
                (format!("{:?}", r.as_ref().filter(|(_, i)| !i.is_none()).map(|(kk, i)| (kk.get().to_string(), show_item(i)))), format!("{:?}", m.filter(|(_, v)| !matches!(v, V::Placeholder)).map(|(kk, v)| (kk, show_v(&v))))) }
            Op::IndexMut(k) => { let _ = &mut real[*k]; if pos(&model, k).is_none() { model.push((k.to_string(), V::Placeholder)); } (String::new(), String::new()) }
            Op::Assign(k, v) => { real[*k] = value(*v); match pos(&model, k) { Some(i) => model[i].1 = V::Int(*v), None => model.push((k.to_string(), V::Int(*v))) }; (String::new(), String::new()) }
            Op::EntryOrInsert(k, v) => { let r = show_item(real.entry(k).or_insert(value(*v))); let m = match pos(&model, k) { Some(i) => show_v(&model[i].1), None => { model.push((k.to_string(), V::Int(*v))); v.to_string() } }; (r, m) }
            Op::RetainNotA => { real.retain(|k, _| k != "a"); model.retain(|(k, _)| k != "a"); (String::new(), String::new()) }
            Op::RetainEven => { real.retain(|_, v| v.as_integer().map(|i| i % 2 == 0).unwrap_or(true)); model.retain(|(_, v)| match v { V::Int(i) => i % 2 == 0, _ => true }); (String::new(), String::new()) }
            Op::Sort => { real.sort_values(); model.sort_by(|a, b| a.0.cmp(&b.0)); (String::new(), String::new()) }
            Op::SortRev => { real.sort_values_by(|k1, _, k2, _| k2.get().cmp(k1.get())); model.sort_by(|a, b| b.0.cmp(&a.0)); (String::new(), String::new()) }
            Op::Clear => { real.clear(); model.clear(); (String::new(), String::new()) }
        };
        let (o1, o2) = (obs_real(&real), obs_model(&model));
        let ok = rret == mret && o1 == o2;
        let why = if ok { String::new() } else { format!("op={op:?} ret real={rret} model={mret}\n real : {o1}\n model: {o2}") };
        Some(mk(real, model, ok, why))
    }
    fn properties(&self) -> Vec<Property<Self>> { vec![Property::<Self>::always("conforms", |_, s| s.ok)] }
}
fn main() {
    let depth: usize = std::env::args().nth(1).map(|s| s.parse().unwrap()).unwrap_or(4);
    let t0 = std::time::Instant::now();
    let c = M.checker().threads(16).target_max_depth(depth).spawn_bfs().join();
    println!("states={} max_depth={} done={} wall={:?}", c.unique_state_count(), c.max_depth(), c.is_done(), t0.elapsed());
    for (name, path) in c.discoveries() { println!("DISCOVERY {name}: actions={:?}", path.clone().into_actions()); println!("{}", path.last_state().why); }
}
