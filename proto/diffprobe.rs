use rayon::prelude::*;
use std::io::Write;
fn tag(v: &toml::Value) -> serde_json::Value {
    use serde_json::json;
    match v {
        toml::Value::String(s) => json!({"t":"s","v":s}),
        toml::Value::Integer(i) => json!({"t":"i","v":i.to_string()}),
        toml::Value::Float(f) => json!({"t":"f","v":format!("{:016x}", if f.is_nan() { f64::NAN.to_bits() } else { f.to_bits() })}),
        toml::Value::Boolean(b) => json!({"t":"b","v":b}),
        toml::Value::Datetime(d) => json!({"t":"d","v":d.to_string()}),
        toml::Value::Array(a) => serde_json::Value::Array(a.iter().map(tag).collect()),
        toml::Value::Table(t) => serde_json::Value::Object(t.iter().map(|(k,v)| (k.clone(), tag(v))).collect()),
    }
}
fn main() {
    let mode = std::env::args().nth(1).unwrap();
    let n: usize = std::env::args().nth(2).unwrap().parse().unwrap();
    let toks: Vec<String> = if mode.starts_with("ctx") { ["\"","'","\\","\n","\r","\t"," ","\u{0}","\u{7f}","#","a","é","n","u","0"].iter().map(|s| s.to_string()).collect() } else if mode == "num" { ["0","1","7","9","_","+","-",".","e","E","x","o","b","a","f","i","n"].iter().map(|s| s.to_string()).collect() } else if mode == "dt" { ["0","1","2","3","5","6","9","-",":",".","+","T","t","Z","z"," "].iter().map(|s| s.to_string()).collect() } else if mode == "tok" {
        ["a","b","\"a\"","'b'",".","=","[","]","{","}",",","1","0","-","_","e",":","true","inf"," ","\n","\r\n","#c","\"\"\""].iter().map(|s| s.to_string()).collect()
    } else {
        let mut v = Vec::new();
        let paths = ["a","b","a.a","a.b","b.a","b.b","a.a.a","a.a.b","a.b.a","a.b.b","b.a.a","b.a.b","b.b.a","b.b.b"];
        for p in paths { v.push(format!("[{p}]\n")); v.push(format!("[[{p}]]\n")); v.push(format!("{p} = 1\n")); v.push(format!("{p} = {{b.a = 1}}\n")); v.push(format!("{p} = [1]\n")); }
        v
    };
    let k = toks.len() as u64;
    let total = k.pow(n as u32);
    let out: Vec<Vec<u8>> = (0..total).into_par_iter().map(|i0| {
        let mut i = i0;
        let mut s = String::with_capacity(32); if mode == "num" || mode == "dt" { s.push_str("k="); } match mode.as_str() { "ctx_mlb" => s.push_str("k=\"\"\""), "ctx_b" => s.push_str("k=\""), "ctx_l" => s.push_str("k='"), "ctx_mll" => s.push_str("k='''"), "ctx_c" => s.push_str("k=1#"), "ctx_k" => s.push_str(""), _ => {} }
        for _ in 0..n { s.push_str(&toks[(i % k) as usize]); i /= k; }
        match mode.as_str() { "ctx_mlb" => s.push_str("\"\"\"\n"), "ctx_b" => s.push_str("\"\n"), "ctx_l" => s.push_str("'\n"), "ctx_mll" => s.push_str("'''\n"), "ctx_c" => s.push_str("\n"), "ctx_k" => s.push_str("=1\n"), _ => {} }
        let r = s.parse::<toml_edit::DocumentMut>();
        let mut line = Vec::new();
        let verdict = match &r { Ok(_) => { let v: toml::Value = toml::from_str(&s).unwrap(); serde_json::to_string(&tag(&v)).unwrap() }, Err(_) => "ERR".to_string() };
        line.extend_from_slice(serde_json::to_string(&s).unwrap().as_bytes());
        line.push(b'\t');
        line.extend_from_slice(verdict.as_bytes());
        line.push(b'\n');
        line
    }).collect();
    let stdout = std::io::stdout();
    let mut w = std::io::BufWriter::new(stdout.lock());
    for l in out { w.write_all(&l).unwrap(); }
}
