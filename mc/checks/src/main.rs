//! `mc` — bounded-exhaustive model checking of toml-rs/toml.  One subcommand per property.
mod c03;
mod c04;
mod c05;
mod c06;
mod c07;
mod c08;
mod fam;
mod c10;
mod c11;
mod c12;
mod c14;
mod c15;
mod c16;
mod c18;
mod c19;
mod c20;
mod c_docs;
mod common;
mod docu;
mod real;
mod universe;

use common::Tier;

fn main() {
    let args: Vec<String> = std::env::args().collect();
    {
        let l = common::calibrated_limit();
        refmodel::scan::set_limit_zone(l);
        if l != 80 {
            eprintln!("[calibration] the library refuses nesting from depth {} on (80 at the pinned commit); limit-dependent expectations follow it", l);
        }
    }
    if args.len() < 2 {
        println!("usage: mc <C01..C20|audit> <quick|thorough> | mc <Cxx> --replay <file>");
        std::process::exit(2);
    }
    common::quiet_panics();
    let prop = args[1].as_str();
    common::init_known(prop);
    if prop == "C04-growth-worker" {
        let tier = if args[2] == "thorough" { Tier::Thorough } else { Tier::Quick };
        std::process::exit(c04::growth_worker(tier, args[3].parse().unwrap(), args[4].parse().unwrap()));
    }
    if prop == "C05-worker" {
        let tier = if args[2] == "thorough" { Tier::Thorough } else { Tier::Quick };
        std::process::exit(c05::worker(tier, args[3].parse().unwrap(), args[4].parse().unwrap(), args[5].parse().unwrap()));
    }
    if prop == "warm-cfg" {
        for (name, feats) in c18::configs(Tier::Quick) {
            if let Err(e) = c18::build(name, feats) {
                println!("MACHINERY-ERROR configuration {} does not build at setup time:\n{}", name, e);
                std::process::exit(2);
            }
        }
        std::process::exit(0);
    }
    if prop == "audit-dump" {
        std::process::exit(c_docs::audit_dump(&args[2]));
    }
    if prop == "count-decor" {
        for k in 0..=2 {
            println!("decor deviations <= {}: {} documents", k, docu::decor_cases(k).len());
        }
        std::process::exit(0);
    }
    if prop == "C04-digest-worker" {
        let tier = if args.get(2).map(|s| s.as_str()) == Some("thorough") { Tier::Thorough } else { Tier::Quick };
        let dump = if args.get(3).map(|s| s.as_str()) == Some("dump") { Some((args[4].clone(), args[5].clone())) } else { None };
        std::process::exit(c04::digest_worker(tier, dump));
    }
    if prop == "C04-mem-worker" {
        let tier = if args[2] == "thorough" { Tier::Thorough } else { Tier::Quick };
        std::process::exit(c04::mem_worker(tier, args[3].parse().unwrap(), args[4].parse().unwrap()));
    }
    if prop == "audit" {
        std::process::exit(c_docs::audit_model());
    }
    if args.get(2).map(|s| s.as_str()) == Some("--replay") {
        let path = args.get(3).expect("replay path");
        let code = match prop {
            "C01" | "C02" | "C09" => c_docs::replay(prop, path),
            "C03" => c03::replay(path),
            "C14" => c14::replay(path),
            "C19" => c19::replay(path),
            "C18" => c18::replay(path),
            "C08" => c08::replay(path),
            "C06" => c06::replay(path),
            "C07" | "C13" | "C17" => c07::replay(prop, path),
            "C16" => c16::replay(path),
            "C05" => c05::replay(path),
            "C04" => c04::replay(path),
            "C12" => c12::replay(path),
            "C11" => c11::replay(path),
            "C10" => c10::replay(path),
            "C15" => c15::replay(path),
            "C20" => c20::replay(path),
            _ => {
                println!("MACHINERY-ERROR no replay for {}", prop);
                2
            }
        };
        std::process::exit(code);
    }
    let tier = match args.get(2).map(|s| s.as_str()).or(std::env::var("VERIF_TIER").ok().as_deref().map(|_| "env")) {
        Some("thorough") => Tier::Thorough,
        Some("env") => {
            if std::env::var("VERIF_TIER").unwrap() == "thorough" {
                Tier::Thorough
            } else {
                Tier::Quick
            }
        }
        _ => Tier::Quick,
    };
    // memory guard: an engine that outgrows the machine must end as a machinery error with a message, not be killed
    // by the kernel (which also takes unrelated processes down).  Cap: VERIF_RSS_CAP_GB or 36 GiB.
    std::thread::spawn(|| {
        let cap_gb: u64 = std::env::var("VERIF_RSS_CAP_GB").ok().and_then(|s| s.parse().ok()).unwrap_or(36);
        loop {
            std::thread::sleep(std::time::Duration::from_millis(500));
            if let Ok(s) = std::fs::read_to_string("/proc/self/statm") {
                let pages: u64 = s.split_whitespace().nth(1).and_then(|x| x.parse().ok()).unwrap_or(0);
                if pages * 4096 > cap_gb << 30 {
                    println!("MACHINERY-ERROR resident memory exceeded {} GiB; the run is abandoned (no verdict)", cap_gb);
                    std::process::exit(2);
                }
            }
        }
    });
    // wall-time cap: a run that does not end (an endless loop in the library outside C04's own watchdog, a stuck child)
    // must end with a message rather than hang its caller.  VERIF_WALL_CAP_S overrides (quick 1800 s, thorough 6 h).
    {
        let cap: u64 = std::env::var("VERIF_WALL_CAP_S").ok().and_then(|s| s.parse().ok()).unwrap_or(if tier == Tier::Thorough { 6 * 3600 } else { 1800 });
        let p = prop.to_string();
        std::thread::spawn(move || {
            std::thread::sleep(std::time::Duration::from_secs(cap));
            println!("MACHINERY-ERROR {} did not finish within {} s; the run is abandoned (no verdict)", p, cap);
            std::process::exit(2);
        });
    }
    let code = match prop {
        "C01" => c_docs::c01(tier),
        "C02" => c_docs::c02(tier),
        "C09" => c_docs::c09(tier),
        "C03" => c03::c03(tier),
        "C14" => c14::c14(tier),
        "C19" => c19::c19(tier),
        "C18" => c18::c18(tier),
        "C08" => c08::c08(tier),
        "C06" => c06::c06(tier),
        "C07" => c07::c07(tier),
        "C13" => c07::c13(tier),
        "C17" => c07::c17(tier),
        "C16" => c16::c16(tier),
        "C05" => c05::c05(tier),
        "C04" => c04::c04(tier),
        "C12" => c12::c12(tier),
        "C11" => c11::c11(tier),
        "C10" => c10::c10(tier),
        "C15" => c15::c15(tier),
        "C20" => c20::c20(tier),
        _ => {
            println!("MACHINERY-ERROR unknown property {}", prop);
            2
        }
    };
    std::process::exit(code);
}
