//! C03 — unedited documents print back byte-for-byte (modulo three normalisations).

use crate::common::*;
use crate::docu;
use refmodel::{ref_parse, LastLine, Layout, Verdict};
use toml_edit::DocumentMut;

/// how an implementation that keeps ONE key (spelling + surrounding whitespace) per table entry prints key path `pidx`
fn render_path_shared(text: &str, layout: &Layout, pidx: usize) -> String {
    let p = &layout.paths[pidx];
    let n = p.segs.len();
    let t = |s: refmodel::Span| &text[s.start..s.end];
    let st = |i: usize| {
        let (pi, si) = p.stored[i];
        (&layout.paths[pi], si)
    };
    let mut out = String::new();
    let (lp, lsi) = st(n - 1);
    let last_was_last = lsi == lp.segs.len() - 1;
    if last_was_last {
        out.push_str(t(lp.segs[0].pre));
    }
    for i in 0..n {
        let (sp, si) = st(i);
        if i > 0 {
            out.push('.');
            if si > 0 {
                out.push_str(t(sp.segs[si].pre));
            }
        }
        out.push_str(t(sp.segs[si].key));
        if i < n - 1 && si < sp.segs.len() - 1 {
            out.push_str(t(sp.segs[si].post));
        }
    }
    if last_was_last {
        out.push_str(t(lp.segs[lsi].post));
    }
    out
}

/// N(x): drop BOM; CRLF -> LF outside multi-line string bodies; append LF after a final key/value or header line
pub fn normalise(text: &str, layout: &Layout) -> String {
    normalise_with(text, layout, false)
}

/// N'(x): N(x) with every key path re-rendered from the stored (one per entry) key spellings — the recogniser of KF-C03-1
pub fn normalise_shared_keys(text: &str, layout: &Layout) -> String {
    normalise_with(text, layout, true)
}

fn normalise_with(text: &str, layout: &Layout, shared: bool) -> String {
    let b = text.as_bytes();
    let mut out: Vec<u8> = Vec::with_capacity(b.len() + 1);
    let mut i = if layout.has_bom { 3 } else { 0 };
    let in_ml = |pos: usize| layout.ml_spans.iter().any(|s| pos >= s.start && pos < s.end);
    let mut regions: Vec<(usize, usize, usize)> = Vec::new();
    if shared {
        for (pi, p) in layout.paths.iter().enumerate() {
            if p.stored.iter().all(|(a, _)| *a != usize::MAX) {
                regions.push((p.segs[0].pre.start, p.segs[p.segs.len() - 1].post.end, pi));
            }
        }
        regions.sort();
    }
    let mut ri = 0;
    while i < b.len() {
        while ri < regions.len() && regions[ri].0 < i {
            ri += 1;
        }
        if ri < regions.len() && regions[ri].0 == i && regions[ri].1 > i {
            out.extend_from_slice(render_path_shared(text, layout, regions[ri].2).as_bytes());
            i = regions[ri].1;
            ri += 1;
            continue;
        }
        if b[i] == b'\r' && i + 1 < b.len() && b[i + 1] == b'\n' && !in_ml(i) {
            i += 1;
            continue;
        }
        out.push(b[i]);
        i += 1;
    }
    if matches!(layout.last_line, Some(LastLine::Keyval) | Some(LastLine::Header)) && !out.ends_with(b"\n") {
        out.push(b'\n');
    }
    String::from_utf8(out).expect("normalisation keeps UTF-8")
}

/// keys sharing a dotted prefix are adjacent in the source (within every section / inline table)
pub fn dotted_adjacent(layout: &Layout) -> bool {
    let kv = &layout.keyvals;
    for (i, (scope, path)) in kv.iter().enumerate() {
        for l in 1..path.len() {
            let prefix = &path[..l];
            // all statements of the same scope with this prefix must form one contiguous block (in scope-local order)
            let same_scope: Vec<usize> = kv.iter().enumerate().filter(|(_, (s, _))| s == scope).map(|(j, _)| j).collect();
            let flags: Vec<bool> = same_scope.iter().map(|j| kv[*j].1.len() > l && kv[*j].1[..l] == *prefix).collect();
            let first = flags.iter().position(|f| *f).unwrap();
            let last = flags.iter().rposition(|f| *f).unwrap();
            if flags[first..=last].iter().any(|f| !*f) {
                return false;
            }
            let _ = i;
        }
    }
    true
}

fn comments_of(text: &str, layout: &Layout) -> Vec<String> {
    let mut v: Vec<String> = layout.comments.iter().map(|s| text[s.start..s.end].to_string()).collect();
    v.sort();
    v
}

pub fn c03_eval(bytes: &[u8], uni: &'static str, acc: &mut Acc) {
    let Ok(text) = std::str::from_utf8(bytes) else { return };
    let Verdict::Valid { tree, limits, layout } = ref_parse(text) else {
        acc.bump("not-valid-skipped");
        return;
    };
    if limits.any() {
        acc.bump("limit-skipped");
        return;
    }
    if !layout.statements.is_empty() || !layout.comments.is_empty() {
        acc.nontrivial(bytes);
    }
    let r = guarded(|| -> Result<(), (Option<&'static str>, String)> {
        let doc = text.parse::<DocumentMut>().map_err(|e| (None, format!("rejected (C01): {}", e.message())))?;
        let out = doc.to_string();
        // weak laws, always
        let Verdict::Valid { tree: tree2, layout: layout2, .. } = ref_parse(&out) else {
            return Err((None, format!("printed text is not valid TOML: {:?}", out)));
        };
        if tree2.canon_sorted() != tree.canon_sorted() {
            return Err((None, format!("printed text decodes differently: {:?} => {} (input decodes to {})", out, tree2.canon_sorted(), tree.canon_sorted())));
        }
        if comments_of(text, &layout) != comments_of(&out, &layout2) {
            return Err((None, format!("comments lost or altered: {:?} -> {:?}", comments_of(text, &layout), comments_of(&out, &layout2))));
        }
        let doc2 = out.parse::<DocumentMut>().map_err(|e| (None, format!("printed text rejected by the parser: {} / {:?}", e.message(), out)))?;
        let out2 = doc2.to_string();
        if out2 != out {
            return Err((None, format!("not a fixed point: {:?} -> {:?}", out, out2)));
        }
        // exact equality where promised
        if dotted_adjacent(&layout) {
            let n = normalise(text, &layout);
            if out != n {
                let class = if out == normalise_shared_keys(text, &layout) { Some("shared-path-key-spelling") } else { None };
                return Err((class, format!("printed text differs from the normalised input:\n      expected {:?}\n      printed  {:?}", n, out)));
            }
            Ok(())
        } else {
            Err((Some("interleaved"), String::new()))
        }
    });
    match r {
        Ok(Ok(())) => {
            acc.bump("exact-round-trip");
            acc.sample(|| format!("{:?}", text));
        }
        Ok(Err((Some("interleaved"), _))) => acc.bump("interleaved-dotted-keys: weak laws only"),
        Ok(Err((class, e))) => acc.viol(uni, text.to_string(), class, e),
        Err(p) => {
            acc.panics += 1;
            acc.viol(uni, text.to_string(), None, format!("panic: {}", p));
        }
    }
}

pub fn c03(tier: Tier) -> i32 {
    let mut rep = Report::new(
        "C03",
        tier,
        "model_checking",
        "every model-valid text of each universe is parsed and printed unedited; printed == N(input) (N = drop BOM, CRLF->LF outside multi-line strings, final newline) whenever keys sharing a dotted prefix are adjacent, and always: printed text valid (model), decodes equal, same multiset of comments, fixed point of parse->print; non-trivial = distinct valid documents with at least one statement or comment",
    );
    rep.assumptions = vec!["refmodel's token layout (multi-line string extents, comments, last-line kind) is correct; validated indirectly: N(x) is compared with the real output on millions of documents".into()];
    docu::run(&mut rep, tier, &["decor", "stmt", "tok", "ctx", "corpus", "num", "dt", "cp", "bom", "reopen"], &c03_eval);
    rep.finish()
}

pub fn replay(path: &str) -> i32 {
    let j = read_replay(path);
    let input = j["input"].as_str().unwrap_or("").to_string();
    let mut acc = Acc::default();
    c03_eval(input.as_bytes(), "replay", &mut acc);
    println!("input  : {:?}", input);
    if let Ok(d) = input.parse::<DocumentMut>() {
        println!("printed: {:?}", d.to_string());
    }
    if let Verdict::Valid { layout, .. } = ref_parse(&input) {
        println!("N(x)   : {:?}  (dotted keys adjacent: {})", normalise(&input, &layout), dotted_adjacent(&layout));
    }
    if acc.viols.is_empty() {
        println!("replay: property holds on this case");
        0
    } else {
        for v in &acc.viols {
            println!("replay: {}", v.detail);
        }
        println!("VIOLATION property=C03 replay={}", path);
        1
    }
}
