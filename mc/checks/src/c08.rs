//! C08 — edits change exactly what was asked and keep everything else verbatim.
//!
//! Explicit-state search over edit histories: state = (real DocumentMut, reference tree with markers);
//! transition = one public edit call on a path of the current document; after every transition
//!   (1) the printed text is valid TOML (specification model) and accepted by the real parser,
//!   (2) its decoded content equals the reference tree after the same edit (order among values and among tables),
//!   (3) every marked entry the edit did not touch keeps its source line byte-for-byte (key spelling, value
//!       spelling, trailing comment) and the comment line above it.
//! Start documents mark every entry with a trailing comment `# @<path>` (and some with a leading `# ^<path>` line).

use crate::common::*;
use rayon::prelude::*;
use refmodel::{ref_parse, Node, Origin, Val, Verdict};
use std::collections::{BTreeMap, BTreeSet, HashSet};
use std::fmt::Write;
use toml_edit::{Array, ArrayOfTables, DocumentMut, InlineTable, Item, Table, Value};

#[derive(Clone, Debug, PartialEq)]
pub struct N {
    pub mark: Option<String>,
    pub k: K,
}
#[derive(Clone, Debug, PartialEq)]
pub enum K {
    Leaf(String),
    Arr(Vec<N>),
    Inl(Vec<(String, N)>),
    /// (entries, 0 = defined by its own header / through the API, 1 = implicit super-table of headers, 2 = created by
    /// dotted keys); kinds 1 and 2 exist only through their entries
    Tab(Vec<(String, N)>, u8),
    Aot(Vec<N>),
}
impl N {
    fn is_value(&self) -> bool {
        matches!(self.k, K::Leaf(_) | K::Arr(_) | K::Inl(_))
    }
    fn leaf(canon: &str) -> N {
        N { mark: None, k: K::Leaf(canon.to_string()) }
    }
}

#[derive(Clone, Debug, PartialEq)]
pub enum Seg {
    Key(String),
    Idx(usize),
}
type Path = Vec<Seg>;

fn path_marker(p: &Path) -> String {
    let mut s = String::new();
    for seg in p {
        match seg {
            Seg::Key(k) => {
                if !s.is_empty() {
                    s.push('.');
                }
                s.push_str(k);
            }
            Seg::Idx(i) => {
                let _ = write!(s, "{}", i);
            }
        }
    }
    s
}

/// tables made by dotted keys INSIDE a value (`{ p.q = 1 }`) are kind 3: they live and die with the value - a
/// conversion of the enclosing inline table to a standard table and back leaves them dotted, whereas the dotted tables of
/// a standard section (kind 2) become plain inline tables when their section is turned into a value
fn mark_value_borne(n: &mut N, inside: bool) {
    let here = inside || matches!(n.k, K::Inl(_) | K::Arr(_));
    if inside {
        if let K::Tab(_, k) = &mut n.k {
            if *k == 2 {
                *k = 3;
            }
        }
    }
    match &mut n.k {
        K::Leaf(_) => {}
        K::Arr(a) | K::Aot(a) => a.iter_mut().for_each(|x| mark_value_borne(x, here)),
        K::Inl(e) | K::Tab(e, _) => e.iter_mut().for_each(|(_, v)| mark_value_borne(v, here)),
    }
}

/// Where a super-table that was first created implicitly (`[a.b]`) and later defined by its own header (`[a]`) sits
/// among its siblings is not constrained by the specification or the properties (today it moves to the position of
/// its header).  The reference tree takes the sibling order of the START document from the real one, so that edits
/// which turn such siblings into ordered values are compared on what the edit did, not on that initial choice.
fn align_order(n: &mut N, item: &Item) {
    match &mut n.k {
        K::Leaf(_) => {}
        K::Inl(e) | K::Tab(e, _) => {
            if let Some(t) = item.as_table_like() {
                let order: Vec<String> = t.iter().map(|(k, _)| k.to_string()).collect();
                e.sort_by_key(|(k, _)| order.iter().position(|o| o == k).unwrap_or(usize::MAX));
                for (k, v) in e.iter_mut() {
                    if let Some(child) = t.get(k) {
                        align_order(v, child);
                    }
                }
            }
        }
        K::Arr(a) => {
            if let Some(arr) = item.as_array() {
                for (x, v) in a.iter_mut().zip(arr.iter()) {
                    align_order(x, &Item::Value(v.clone()));
                }
            }
        }
        K::Aot(a) => {
            if let Some(aot) = item.as_array_of_tables() {
                for (x, t) in a.iter_mut().zip(aot.iter()) {
                    align_order(x, &Item::Table(t.clone()));
                }
            }
        }
    }
}

/// reference tree of a start document, with the markers its text carries
fn from_model(n: &Node, path: &mut Path, marks: &BTreeSet<String>) -> N {
    let m = path_marker(path);
    let mark = if marks.contains(&m) { Some(m) } else { None };
    let k = match &n.val {
        Val::Table(es) => {
            let kids: Vec<(String, N)> = es
                .iter()
                .map(|e| {
                    path.push(Seg::Key(e.key.clone()));
                    let c = from_model(&e.node, path, marks);
                    path.pop();
                    (e.key.clone(), c)
                })
                .collect();
            match n.origin {
                Origin::InlineTable => K::Inl(kids),
                Origin::DottedTable => K::Tab(kids, 2),
                Origin::ImplicitTable => K::Tab(kids, 1),
                _ => K::Tab(kids, 0),
            }
        }
        Val::Array(a) => {
            let kids: Vec<N> = a
                .iter()
                .enumerate()
                .map(|(i, x)| {
                    path.push(Seg::Idx(i));
                    let c = from_model(x, path, marks);
                    path.pop();
                    c
                })
                .collect();
            if n.origin == Origin::AotArray {
                K::Aot(kids)
            } else {
                K::Arr(kids)
            }
        }
        _ => K::Leaf(n.canon()),
    };
    N { mark, k }
}

// ---- normal form (values first, then tables) of the reference tree and of a decoded model tree (same as C06)
/// tables that exist only through their entries and arrays of tables have no spelling when they are empty: they
/// stay in the reference tree (a later conversion to a value makes them visible again) but are not compared
fn visible(n: &N) -> bool {
    match &n.k {
        K::Tab(e, k) if *k > 0 => e.iter().any(|(_, v)| visible(v)),
        K::Aot(a) => !a.is_empty(),
        _ => true,
    }
}

fn canon_n(n: &N, out: &mut String) {
    match &n.k {
        K::Leaf(c) => out.push_str(c),
        K::Arr(a) | K::Aot(a) => {
            out.push('[');
            for (i, x) in a.iter().enumerate() {
                if i > 0 {
                    out.push(',');
                }
                canon_n(x, out);
            }
            out.push(']');
        }
        K::Inl(e) | K::Tab(e, _) => {
            out.push('{');
            let mut first = true;
            // table-like siblings are printed by recorded position, which interleaves sections of different tables;
            // their order in the re-parsed text is therefore not an order of the tree: compare them as a set
            for pass in [true, false] {
                let mut items: Vec<&(String, N)> = e.iter().filter(|(_, v)| v.is_value() == pass).collect();
                if !pass {
                    items.sort_by(|a, b| a.0.cmp(&b.0));
                }
                for (k, v) in items.into_iter().map(|(k, v)| (k, v)) {
                    if visible(v) {
                        if !first {
                            out.push(',');
                        }
                        first = false;
                        let _ = write!(out, "{:?}:", k);
                        canon_n(v, out);
                    }
                }
            }
            out.push('}');
        }
    }
}
fn canon_node(n: &Node, out: &mut String) {
    match &n.val {
        Val::Table(es) => {
            out.push('{');
            let mut first = true;
            for pass in [true, false] {
                let mut items: Vec<&refmodel::Entry> = es.iter().filter(|e| matches!(e.node.origin, Origin::Scalar | Origin::InlineArray | Origin::InlineTable) == pass).collect();
                if !pass {
                    items.sort_by(|a, b| a.key.cmp(&b.key));
                }
                for e in items {
                    {
                        if !first {
                            out.push(',');
                        }
                        first = false;
                        let _ = write!(out, "{:?}:", e.key);
                        canon_node(&e.node, out);
                    }
                }
            }
            out.push('}');
        }
        Val::Array(a) => {
            out.push('[');
            for (i, x) in a.iter().enumerate() {
                if i > 0 {
                    out.push(',');
                }
                canon_node(x, out);
            }
            out.push(']');
        }
        _ => out.push_str(&n.canon()),
    }
}

fn marks_of(n: &N, out: &mut BTreeSet<String>) {
    if let Some(m) = &n.mark {
        out.insert(m.clone());
    }
    match &n.k {
        K::Leaf(_) => {}
        K::Arr(a) | K::Aot(a) => a.iter().for_each(|x| marks_of(x, out)),
        K::Inl(e) | K::Tab(e, _) => e.iter().for_each(|(_, v)| marks_of(v, out)),
    }
}

/// marker -> (its line, the `# ^marker` line directly above it if there is one)
fn marker_lines(text: &str) -> BTreeMap<String, (String, Option<String>)> {
    let lines: Vec<&str> = text.split('\n').collect();
    let mut out = BTreeMap::new();
    for (i, l) in lines.iter().enumerate() {
        if let Some(pos) = l.find("# @") {
            let m: String = l[pos + 3..].chars().take_while(|c| !c.is_whitespace()).collect();
            let above = if i > 0 && lines[i - 1].trim_start().starts_with(&format!("# ^{}", m)) { Some(lines[i - 1].to_string()) } else { None };
            out.insert(m, (l.to_string(), above));
        }
    }
    out
}

// ---- edit alphabet

#[derive(Clone, Debug, PartialEq)]
pub enum NewVal {
    Int(i64),
    Str,
    Arr,
    Inl,
    Tab,
    Aot,
}
impl NewVal {
    fn item(&self) -> Item {
        match self {
            NewVal::Int(i) => toml_edit::value(*i),
            NewVal::Str => toml_edit::value("n"),
            NewVal::Arr => toml_edit::value(Array::from_iter([8, 9])),
            NewVal::Inl => toml_edit::value(InlineTable::from_iter([("z", 1)])),
            NewVal::Tab => {
                let mut t = Table::new();
                t.insert("z", toml_edit::value(1));
                Item::Table(t)
            }
            NewVal::Aot => {
                let mut t = Table::new();
                t.insert("z", toml_edit::value(1));
                let mut a = ArrayOfTables::new();
                a.push(t);
                Item::ArrayOfTables(a)
            }
        }
    }
    fn node(&self, inside_value: bool) -> N {
        let z = vec![("z".to_string(), N::leaf("i1"))];
        match self {
            NewVal::Int(i) => N::leaf(&format!("i{}", i)),
            NewVal::Str => N::leaf("s\"n\""),
            NewVal::Arr => N { mark: None, k: K::Arr(vec![N::leaf("i8"), N::leaf("i9")]) },
            NewVal::Inl => N { mark: None, k: K::Inl(z) },
            NewVal::Tab => N { mark: None, k: if inside_value { K::Inl(z) } else { K::Tab(z, 0) } },
            NewVal::Aot => {
                if inside_value {
                    N { mark: None, k: K::Arr(vec![N { mark: None, k: K::Inl(z) }]) }
                } else {
                    N { mark: None, k: K::Aot(vec![N { mark: None, k: K::Tab(z, 0) }]) }
                }
            }
        }
    }
}

#[derive(Clone, Debug)]
pub enum Op {
    Insert(Path, String, NewVal),
    EntryOrInsert(Path, String, NewVal),
    IndexAssign(Path, String, NewVal),
    Remove(Path, String),
    /// `Extend<(K, V)>`: one existing key (overwritten in place) and one new key (appended), in that order and reversed
    Extend(Path, String, bool),
    SortValues(Path),
    Fmt(Path),
    ArrPush(Path, i64),
    ArrInsert(Path, usize, i64),
    ArrReplace(Path, usize, i64),
    ArrRemove(Path, usize),
    /// `Array::retain` keeping only the elements at even positions / nothing
    ArrRetainEven(Path),
    ArrRetainNone(Path),
    ArrClear(Path),
    /// `Array::set_trailing_comma`: a formatting switch - the content and every other line stay as they are
    ArrTrailingComma(Path, bool),
    /// a scalar entry of the array's parent table is removed and the SAME value object (with whatever decor it had
    /// on its `key = value # comment` line) is pushed / inserted at the front: both calls apply default formatting
    ArrPushMoved(Path, String),
    ArrInsertMoved(Path, String),
    AotPush(Path),
    /// `ArrayOfTables::extend` with three new tables
    AotExtend3(Path),
    AotRemove(Path, usize),
    /// `ArrayOfTables::retain` keeping the elements at even positions / `clear`
    AotRetainEven(Path),
    AotClear(Path),
    /// `Table::retain` / `InlineTable::retain` keeping the entries whose key has an even byte sum; `clear` through `dyn TableLike`
    TabRetainEven(Path),
    TabClear(Path),
    IntoInline(Path),
    IntoTable(Path),
    MakeValue(Path),
    IntoAot(Path),
    /// a group of dotted keys (`d.k = 1` / `d.m = 2`) is removed from one standard table and the same item inserted into
    /// another one - also one that so far only exists as the implicit parent of other headers
    MoveDotted(Path, String, Path),
}

fn get<'a>(n: &'a N, p: &[Seg]) -> &'a N {
    let mut cur = n;
    for s in p {
        cur = match (s, &cur.k) {
            (Seg::Key(k), K::Inl(e)) | (Seg::Key(k), K::Tab(e, _)) => &e.iter().find(|(kk, _)| kk == k).expect("model path").1,
            (Seg::Idx(i), K::Arr(a)) | (Seg::Idx(i), K::Aot(a)) => &a[*i],
            _ => panic!("bad model path"),
        };
    }
    cur
}
fn get_mut<'a>(n: &'a mut N, p: &[Seg]) -> &'a mut N {
    let mut cur = n;
    for s in p {
        cur = match (s, &mut cur.k) {
            (Seg::Key(k), K::Inl(e)) | (Seg::Key(k), K::Tab(e, _)) => &mut e.iter_mut().find(|(kk, _)| kk == k).expect("model path").1,
            (Seg::Idx(i), K::Arr(a)) | (Seg::Idx(i), K::Aot(a)) => &mut a[*i],
            _ => panic!("bad model path"),
        };
    }
    cur
}
/// is the node at `p` inside a value (array / inline table), where only values can live
fn inside_value(root: &N, p: &[Seg]) -> bool {
    let mut cur = root;
    if matches!(cur.k, K::Inl(_) | K::Arr(_) | K::Tab(_, 3)) {
        return true;
    }
    for s in p {
        cur = match (s, &cur.k) {
            (Seg::Key(k), K::Inl(e)) | (Seg::Key(k), K::Tab(e, _)) => &e.iter().find(|(kk, _)| kk == k).unwrap().1,
            (Seg::Idx(i), K::Arr(a)) | (Seg::Idx(i), K::Aot(a)) => &a[*i],
            _ => panic!(),
        };
        if matches!(cur.k, K::Inl(_) | K::Arr(_) | K::Tab(_, 3)) {
            return true;
        }
    }
    false
}

fn all_values(n: &N) -> bool {
    match &n.k {
        K::Leaf(_) => true,
        K::Arr(a) => a.iter().all(all_values),
        K::Inl(e) => e.iter().all(|(_, v)| all_values(v)),
        _ => false,
    }
}

fn key_parity(k: &str) -> bool {
    k.bytes().map(|b| b as usize).sum::<usize>() % 2 == 0
}

/// can be turned into a value as a whole: values, and tables / arrays of tables made of such
fn convertible(n: &N) -> bool {
    match &n.k {
        K::Leaf(_) => true,
        K::Arr(a) => a.iter().all(all_values),
        K::Inl(e) => e.iter().all(|(_, v)| all_values(v)),
        K::Tab(e, _) => e.iter().all(|(_, v)| convertible(v)),
        K::Aot(a) => a.iter().all(convertible),
    }
}

fn enumerate_ops(root: &N) -> Vec<Op> {
    let mut ops = Vec::new();
    fn rec(root: &N, n: &N, p: &mut Path, ops: &mut Vec<Op>) {
        match &n.k {
            K::Leaf(_) => {}
            K::Inl(e) | K::Tab(e, _) => {
                let is_inline = matches!(n.k, K::Inl(_)) || inside_value(root, p);
                let fresh = "new".to_string();
                if !e.iter().any(|(k, _)| *k == fresh) {
                    let vals: Vec<NewVal> = if is_inline { vec![NewVal::Int(7), NewVal::Arr, NewVal::Inl] } else { vec![NewVal::Int(7), NewVal::Str, NewVal::Arr, NewVal::Inl, NewVal::Tab, NewVal::Aot] };
                    for v in vals {
                        ops.push(Op::Insert(p.clone(), fresh.clone(), v.clone()));
                        if matches!(v, NewVal::Int(_) | NewVal::Tab) {
                            ops.push(Op::EntryOrInsert(p.clone(), fresh.clone(), v.clone()));
                            ops.push(Op::IndexAssign(p.clone(), fresh.clone(), v));
                        }
                    }
                }
                for (k, child) in e {
                    if child.is_value() && !e.iter().any(|(kk, _)| kk == "ext") {
                        ops.push(Op::Extend(p.clone(), k.clone(), false));
                        ops.push(Op::Extend(p.clone(), k.clone(), true));
                    }
                    ops.push(Op::Insert(p.clone(), k.clone(), NewVal::Int(7)));
                    ops.push(Op::IndexAssign(p.clone(), k.clone(), NewVal::Str));
                    ops.push(Op::Remove(p.clone(), k.clone()));
                    if !is_inline && !child.is_value() {
                        // replace a table by a value and vice versa
                        ops.push(Op::Insert(p.clone(), k.clone(), NewVal::Inl));
                    }
                    if !is_inline && child.is_value() {
                        ops.push(Op::Insert(p.clone(), k.clone(), NewVal::Tab));
                    }
                }
                fn sortable(v: &N) -> bool {
                    match &v.k {
                        K::Tab(ee, 2 | 3) => ee.iter().all(|(_, x)| sortable(x)),
                        _ => v.is_value(),
                    }
                }
                // move a scalar sibling into an array of scalars of the same table
                for (ka, arr) in e {
                    if let K::Arr(items) = &arr.k {
                        if items.iter().all(|x| matches!(x.k, K::Leaf(_))) {
                            for (ks, src) in e {
                                if matches!(src.k, K::Leaf(_)) {
                                    let mut ap = p.clone();
                                    ap.push(Seg::Key(ka.clone()));
                                    ops.push(Op::ArrPushMoved(ap.clone(), ks.clone()));
                                    ops.push(Op::ArrInsertMoved(ap, ks.clone()));
                                }
                            }
                        }
                    }
                }
                if e.iter().all(|(_, v)| sortable(v)) && e.len() >= 1 {
                    ops.push(Op::SortValues(p.clone()));
                }
                if !e.is_empty() {
                    ops.push(Op::Fmt(p.clone()));
                    ops.push(Op::TabRetainEven(p.clone()));
                    ops.push(Op::TabClear(p.clone()));
                }
                if !p.is_empty() {
                    match &n.k {
                        // (sub-tables and arrays of tables below it are converted along: `[t]` / `[t.u]` / `[[t.v]]` -> `t = { u = {..}, v = [{..}] }`)
                        K::Tab(_, 0) if e.iter().all(|(_, v)| convertible(v)) && !matches!(p.last(), Some(Seg::Idx(_))) => {
                            ops.push(Op::IntoInline(p.clone()));
                            ops.push(Op::MakeValue(p.clone()));
                        }
                        K::Inl(_) if !inside_value(root, &p[..p.len() - 1]) && !matches!(p.last(), Some(Seg::Idx(_))) => ops.push(Op::IntoTable(p.clone())),
                        _ => {}
                    }
                }
                for (k, child) in e {
                    p.push(Seg::Key(k.clone()));
                    rec(root, child, p, ops);
                    p.pop();
                }
            }
            K::Arr(a) => {
                if a.iter().all(|x| matches!(x.k, K::Leaf(_))) {
                    ops.push(Op::ArrPush(p.clone(), 5));
                    ops.push(Op::ArrInsert(p.clone(), 0, 5));
                    if !a.is_empty() {
                        ops.push(Op::ArrInsert(p.clone(), a.len(), 6));
                    }
                    for i in 0..a.len() {
                        ops.push(Op::ArrReplace(p.clone(), i, 5));
                        ops.push(Op::ArrRemove(p.clone(), i));
                    }
                    ops.push(Op::ArrTrailingComma(p.clone(), true));
                    ops.push(Op::ArrTrailingComma(p.clone(), false));
                    if !a.is_empty() {
                        ops.push(Op::Fmt(p.clone()));
                        ops.push(Op::ArrRetainEven(p.clone()));
                        ops.push(Op::ArrRetainNone(p.clone()));
                        ops.push(Op::ArrClear(p.clone()));
                    }
                }
                if !a.is_empty() && a.iter().all(|x| matches!(x.k, K::Inl(_))) && !inside_value(root, &p[..p.len().saturating_sub(1)]) && !matches!(p.last(), Some(Seg::Idx(_))) {
                    ops.push(Op::IntoAot(p.clone()));
                }
                for (i, child) in a.iter().enumerate() {
                    p.push(Seg::Idx(i));
                    rec(root, child, p, ops);
                    p.pop();
                }
            }
            K::Aot(a) => {
                ops.push(Op::AotPush(p.clone()));
                ops.push(Op::AotExtend3(p.clone()));
                for i in 0..a.len() {
                    ops.push(Op::AotRemove(p.clone(), i));
                }
                if !a.is_empty() {
                    ops.push(Op::AotRetainEven(p.clone()));
                    ops.push(Op::AotClear(p.clone()));
                }
                if a.iter().all(convertible) {
                    ops.push(Op::MakeValue(p.clone()));
                }
                for (i, child) in a.iter().enumerate() {
                    p.push(Seg::Idx(i));
                    rec(root, child, p, ops);
                    p.pop();
                }
            }
        }
    }
    fn all_values_tab(n: &N) -> bool {
        match &n.k {
            K::Tab(e, _) => e.iter().all(|(_, v)| all_values(v)),
            _ => false,
        }
    }
    rec(root, root, &mut vec![], &mut ops);
    // pairs of standard tables: move a dotted group from one to the other
    fn tables(root: &N, n: &N, p: &mut Path, out: &mut Vec<Path>) {
        match &n.k {
            K::Tab(e, kind) => {
                if (*kind == 0 || *kind == 1) && !inside_value(root, p) {
                    out.push(p.clone());
                }
                if *kind <= 1 {
                    for (k, c) in e {
                        p.push(Seg::Key(k.clone()));
                        tables(root, c, p, out);
                        p.pop();
                    }
                }
            }
            K::Aot(a) => {
                for (i, c) in a.iter().enumerate() {
                    p.push(Seg::Idx(i));
                    tables(root, c, p, out);
                    p.pop();
                }
            }
            _ => {}
        }
    }
    let mut tabs = Vec::new();
    tables(root, root, &mut vec![], &mut tabs);
    for from in &tabs {
        let K::Tab(e, _) = &get(root, from).k else { continue };
        for (k, c) in e {
            if !matches!(c.k, K::Tab(_, 2)) {
                continue;
            }
            for to in &tabs {
                if to == from {
                    continue;
                }
                let K::Tab(te, _) = &get(root, to).k else { continue };
                if te.iter().any(|(kk, _)| kk == k) {
                    continue;
                }
                ops.push(Op::MoveDotted(from.clone(), k.clone(), to.clone()));
            }
        }
    }
    ops
}

/// a table becomes a value (inline form) recursively
fn inline_of(n: &N) -> N {
    match &n.k {
        // (a table that exists through dotted keys stays dotted inside the value: `p.q = 1` remains `p.q = 1`)
        K::Tab(e, 3) => N { mark: n.mark.clone(), k: K::Tab(e.iter().map(|(k, v)| (k.clone(), inline_of(v))).collect(), 3) },
        K::Tab(e, _) | K::Inl(e) => N { mark: n.mark.clone(), k: K::Inl(e.iter().map(|(k, v)| (k.clone(), inline_of(v))).collect()) },
        K::Aot(a) | K::Arr(a) => N { mark: n.mark.clone(), k: K::Arr(a.iter().map(inline_of).collect()) },
        K::Leaf(_) => n.clone(),
    }
}

fn put(entries: &mut Vec<(String, N)>, k: &str, v: N) {
    match entries.iter().position(|(kk, _)| kk == k) {
        Some(i) => entries[i].1 = v,
        None => entries.push((k.to_string(), v)),
    }
}

/// apply to the reference tree; returns the markers the edit is allowed to change
fn apply_model(root: &mut N, op: &Op) -> BTreeSet<String> {
    let before_owned = root.clone();
    let before = &before_owned;
    let mut touched = BTreeSet::new();
    let sub = |n: &N, t: &mut BTreeSet<String>| marks_of(n, t);
    match op {
        Op::Insert(p, k, v) | Op::IndexAssign(p, k, v) => {
            let inv = inside_value(root, p);
            let t = get_mut(root, p);
            let (K::Inl(e) | K::Tab(e, _)) = &mut t.k else { panic!() };
            if let Some((_, old)) = e.iter().find(|(kk, _)| kk == k) {
                sub(old, &mut touched);
            }
            put(e, k, v.node(inv));
        }
        Op::EntryOrInsert(p, k, v) => {
            let inv = inside_value(root, p);
            let t = get_mut(root, p);
            let (K::Inl(e) | K::Tab(e, _)) = &mut t.k else { panic!() };
            if !e.iter().any(|(kk, _)| kk == k) {
                e.push((k.clone(), v.node(inv)));
            }
        }
        Op::Extend(p, k, new_first) => {
            let inv = inside_value(root, p);
            let t = get_mut(root, p);
            let (K::Inl(e) | K::Tab(e, _)) = &mut t.k else { panic!() };
            if let Some((_, old)) = e.iter().find(|(kk, _)| kk == k) {
                sub(old, &mut touched);
            }
            if *new_first {
                put(e, "ext", NewVal::Int(8).node(inv));
                put(e, k, NewVal::Int(7).node(inv));
            } else {
                put(e, k, NewVal::Int(7).node(inv));
                put(e, "ext", NewVal::Int(8).node(inv));
            }
        }
        Op::Remove(p, k) => {
            let t = get_mut(root, p);
            let (K::Inl(e) | K::Tab(e, _)) = &mut t.k else { panic!() };
            if let Some(i) = e.iter().position(|(kk, _)| kk == k) {
                sub(&e[i].1, &mut touched);
                e.remove(i);
            }
        }
        Op::SortValues(p) => {
            let t = get_mut(root, p);
            fn sort_rec(n: &mut N) {
                let inline_ctx = matches!(n.k, K::Inl(_) | K::Tab(_, 3));
                if let K::Inl(e) | K::Tab(e, _) = &mut n.k {
                    e.sort_by(|a, b| a.0.cmp(&b.0));
                    for (_, v) in e.iter_mut() {
                        // (sort_values follows the tables that dotted keys created: they are part of the same section - a
                        // standard table follows its dotted standard tables, an inline table its dotted inline tables)
                        if (inline_ctx && matches!(v.k, K::Tab(_, 3))) || (!inline_ctx && matches!(v.k, K::Tab(_, 2))) {
                            sort_rec(v);
                        }
                    }
                }
            }
            sort_rec(t);
            // an inline table is one token: its own line changes
            if let Some(m) = &t.mark {
                if matches!(t.k, K::Inl(_)) {
                    touched.insert(m.clone());
                }
            }
        }
        Op::Fmt(p) => {
            // decor of the direct entries may change: their lines are allowed to change, their content is not
            let t = get(root, p);
            if let Some(m) = &t.mark {
                touched.insert(m.clone());
            }
            match &t.k {
                K::Inl(e) | K::Tab(e, _) => {
                    for (_, v) in e {
                        if let Some(m) = &v.mark {
                            touched.insert(m.clone());
                        }
                        if v.is_value() {
                            sub(v, &mut touched);
                        }
                    }
                }
                K::Arr(a) => a.iter().for_each(|x| sub(x, &mut touched)),
                _ => {}
            }
        }
        Op::ArrPush(p, x) | Op::ArrInsert(p, _, x) => {
            let t = get_mut(root, p);
            if let Some(m) = &t.mark {
                touched.insert(m.clone());
            }
            let K::Arr(a) = &mut t.k else { panic!() };
            let n = N::leaf(&format!("i{}", x));
            match op {
                Op::ArrInsert(_, i, _) => a.insert(*i, n),
                _ => a.push(n),
            }
        }
        Op::ArrReplace(p, i, x) => {
            let t = get_mut(root, p);
            if let Some(m) = &t.mark {
                touched.insert(m.clone());
            }
            let K::Arr(a) = &mut t.k else { panic!() };
            sub(&a[*i], &mut touched);
            // the replaced element keeps its decor, i.e. its marker comment survives on its line (changed value)
            let mark = a[*i].mark.clone();
            a[*i] = N { mark, k: K::Leaf(format!("i{}", x)) };
        }
        Op::ArrRemove(p, i) => {
            let t = get_mut(root, p);
            if let Some(m) = &t.mark {
                touched.insert(m.clone());
            }
            let K::Arr(a) = &mut t.k else { panic!() };
            sub(&a[*i], &mut touched);
            a.remove(*i);
        }
        Op::ArrRetainEven(p) | Op::ArrRetainNone(p) | Op::ArrClear(p) => {
            let t = get_mut(root, p);
            if let Some(m) = &t.mark {
                touched.insert(m.clone());
            }
            let K::Arr(a) = &mut t.k else { panic!() };
            let keep_even = matches!(op, Op::ArrRetainEven(_));
            let mut i = 0;
            let old = std::mem::take(a);
            for x in old {
                if keep_even && i % 2 == 0 {
                    a.push(x);
                } else {
                    sub(&x, &mut touched);
                }
                i += 1;
            }
        }
        Op::ArrTrailingComma(p, _) => {
            let t = get(root, p);
            if let Some(m) = &t.mark {
                touched.insert(m.clone());
            }
            // (a comma after the last element moves that element's comment: its line may change, its value may not)
            if let K::Arr(a) = &t.k {
                if let Some(last) = a.last() {
                    sub(last, &mut touched);
                }
            }
        }
        Op::ArrPushMoved(p, k) | Op::ArrInsertMoved(p, k) => {
            let parent = get_mut(root, &p[..p.len() - 1]);
            let (K::Inl(e) | K::Tab(e, _)) = &mut parent.k else { panic!() };
            let i = e.iter().position(|(kk, _)| kk == k).expect("moved key");
            let (_, src) = e.remove(i);
            sub(&src, &mut touched);
            let K::Leaf(content) = src.k else { panic!() };
            let t = get_mut(root, p);
            if let Some(m) = &t.mark {
                touched.insert(m.clone());
            }
            let K::Arr(a) = &mut t.k else { panic!() };
            match op {
                Op::ArrInsertMoved(..) => a.insert(0, N::leaf(&content)),
                _ => a.push(N::leaf(&content)),
            }
        }
        Op::AotPush(p) => {
            let t = get_mut(root, p);
            let K::Aot(a) = &mut t.k else { panic!() };
            a.push(N { mark: None, k: K::Tab(vec![("z".to_string(), N::leaf("i1"))], 0) });
        }
        Op::AotExtend3(p) => {
            let t = get_mut(root, p);
            let K::Aot(a) = &mut t.k else { panic!() };
            for z in 1..=3 {
                a.push(N { mark: None, k: K::Tab(vec![("z".to_string(), N::leaf(&format!("i{}", z)))], 0) });
            }
        }
        Op::AotRemove(p, i) => {
            let t = get_mut(root, p);
            let K::Aot(a) = &mut t.k else { panic!() };
            sub(&a[*i], &mut touched);
            a.remove(*i);
        }
        Op::AotRetainEven(p) | Op::AotClear(p) => {
            let t = get_mut(root, p);
            let K::Aot(a) = &mut t.k else { panic!() };
            let keep_even = matches!(op, Op::AotRetainEven(_));
            let old = std::mem::take(a);
            for (i, x) in old.into_iter().enumerate() {
                if keep_even && i % 2 == 0 {
                    a.push(x);
                } else {
                    sub(&x, &mut touched);
                }
            }
        }
        Op::TabRetainEven(p) | Op::TabClear(p) => {
            let t = get_mut(root, p);
            if matches!(t.k, K::Inl(_)) {
                if let Some(m) = &t.mark {
                    touched.insert(m.clone());
                }
            }
            let (K::Inl(e) | K::Tab(e, _)) = &mut t.k else { panic!() };
            let keep_even = matches!(op, Op::TabRetainEven(_));
            let old = std::mem::take(e);
            for (k, x) in old.into_iter() {
                // (a predicate on the key, not on the position: where a re-opened implicit table sits among its siblings
                // is not constrained, so positions are not a stable way to name entries)
                if keep_even && key_parity(&k) {
                    e.push((k, x));
                } else {
                    sub(&x, &mut touched);
                }
            }
        }
        Op::IntoInline(p) | Op::MakeValue(p) => {
            let t = get_mut(root, p);
            sub(t, &mut touched);
            *t = inline_of(t);
        }
        Op::IntoTable(p) => {
            let t = get_mut(root, p);
            sub(t, &mut touched);
            if let K::Inl(e) = &t.k {
                t.k = K::Tab(e.clone(), 0);
            }
        }
        Op::MoveDotted(from, k, to) => {
            let f = get_mut(root, from);
            let K::Tab(e, _) = &mut f.k else { panic!() };
            let i = e.iter().position(|(kk, _)| kk == k).expect("moved key");
            let (_, src) = e.remove(i);
            sub(&src, &mut touched);
            let t = get_mut(root, to);
            let K::Tab(e, _) = &mut t.k else { panic!() };
            e.push((k.clone(), src));
        }
        Op::IntoAot(p) => {
            let t = get_mut(root, p);
            sub(t, &mut touched);
            if let K::Arr(a) = &t.k {
                t.k = K::Aot(a.iter().map(|x| match &x.k { K::Inl(e) => N { mark: x.mark.clone(), k: K::Tab(e.clone(), 0) }, _ => x.clone() }).collect());
            }
        }
    }
    // an edit inside an inline table or array rewrites the line(s) of the enclosing value: those markers may change
    let p: &Path = match op {
        Op::Insert(p, ..) | Op::EntryOrInsert(p, ..) | Op::IndexAssign(p, ..) | Op::Remove(p, ..) | Op::Extend(p, ..) | Op::SortValues(p) | Op::Fmt(p) | Op::ArrPush(p, ..) | Op::ArrInsert(p, ..) | Op::ArrReplace(p, ..) | Op::ArrRemove(p, ..) | Op::ArrRetainEven(p) | Op::ArrRetainNone(p) | Op::ArrClear(p) | Op::ArrTrailingComma(p, ..) | Op::ArrPushMoved(p, ..) | Op::ArrInsertMoved(p, ..) | Op::AotPush(p) | Op::AotExtend3(p) | Op::AotRemove(p, ..) | Op::AotRetainEven(p) | Op::AotClear(p) | Op::TabRetainEven(p) | Op::TabClear(p) | Op::IntoInline(p) | Op::IntoTable(p) | Op::MakeValue(p) | Op::IntoAot(p) | Op::MoveDotted(p, ..) => p,
    };
    let mut cur: &N = before;
    let mut chain: Vec<&N> = vec![cur];
    for s in p {
        let next = match (s, &cur.k) {
            (Seg::Key(k), K::Inl(e)) | (Seg::Key(k), K::Tab(e, _)) => e.iter().find(|(kk, _)| kk == k).map(|(_, v)| v),
            (Seg::Idx(i), K::Arr(a)) | (Seg::Idx(i), K::Aot(a)) => a.get(*i),
            _ => None,
        };
        match next {
            Some(n) => {
                cur = n;
                chain.push(n);
            }
            None => break,
        }
    }
    for n in chain {
        if matches!(n.k, K::Inl(_) | K::Arr(_)) {
            if let Some(m) = &n.mark {
                touched.insert(m.clone());
            }
        }
    }
    touched
}

fn nav<'a>(doc: &'a mut DocumentMut, p: &[Seg]) -> &'a mut Item {
    let mut cur: &mut Item = doc.as_item_mut();
    for s in p {
        cur = match s {
            Seg::Key(k) => cur.get_mut(k.as_str()).expect("real path (key)"),
            Seg::Idx(i) => cur.get_mut(*i).expect("real path (index)"),
        };
    }
    cur
}

fn apply_real(doc: &mut DocumentMut, op: &Op) {
    match op {
        Op::Insert(p, k, v) => {
            nav(doc, p).as_table_like_mut().expect("table-like").insert(k, v.item());
        }
        Op::EntryOrInsert(p, k, v) => {
            nav(doc, p).as_table_like_mut().expect("table-like").entry(k).or_insert(v.item());
        }
        Op::IndexAssign(p, k, v) => {
            let it = nav(doc, p);
            // inline tables only hold values
            let item = if it.is_inline_table() { v.item().into_value().map(Item::Value).unwrap() } else { v.item() };
            it[k.as_str()] = item;
        }
        Op::Extend(p, k, new_first) => {
            let it = nav(doc, p);
            let mut pairs: Vec<(String, i64)> = vec![(k.clone(), 7), ("ext".to_string(), 8)];
            if *new_first {
                pairs.reverse();
            }
            if let Some(t) = it.as_table_mut() {
                t.extend(pairs.into_iter().map(|(k, v)| (k, toml_edit::value(v))));
            } else {
                it.as_inline_table_mut().expect("inline table").extend(pairs.into_iter().map(|(k, v)| (k, Value::from(v))));
            }
        }
        Op::Remove(p, k) => {
            nav(doc, p).as_table_like_mut().expect("table-like").remove(k);
        }
        Op::SortValues(p) => nav(doc, p).as_table_like_mut().expect("table-like").sort_values(),
        Op::Fmt(p) => {
            let it = nav(doc, p);
            if let Some(a) = it.as_array_mut() {
                a.fmt();
            } else {
                it.as_table_like_mut().expect("table-like").fmt();
            }
        }
        Op::ArrPush(p, x) => nav(doc, p).as_array_mut().expect("array").push(*x),
        Op::ArrInsert(p, i, x) => nav(doc, p).as_array_mut().expect("array").insert(*i, *x),
        Op::ArrReplace(p, i, x) => {
            nav(doc, p).as_array_mut().expect("array").replace(*i, *x);
        }
        Op::ArrRemove(p, i) => {
            nav(doc, p).as_array_mut().expect("array").remove(*i);
        }
        Op::ArrRetainEven(p) => {
            let mut i = 0;
            nav(doc, p).as_array_mut().expect("array").retain(|_| {
                i += 1;
                (i - 1) % 2 == 0
            });
        }
        Op::ArrRetainNone(p) => nav(doc, p).as_array_mut().expect("array").retain(|_| false),
        Op::ArrClear(p) => nav(doc, p).as_array_mut().expect("array").clear(),
        Op::ArrTrailingComma(p, yes) => nav(doc, p).as_array_mut().expect("array").set_trailing_comma(*yes),
        Op::ArrPushMoved(p, k) | Op::ArrInsertMoved(p, k) => {
            let moved = nav(doc, &p[..p.len() - 1]).as_table_like_mut().expect("table-like").remove(k).expect("moved entry").into_value().expect("a value");
            let a = nav(doc, p).as_array_mut().expect("array");
            match op {
                Op::ArrInsertMoved(..) => a.insert(0, moved),
                _ => a.push(moved),
            }
        }
        Op::AotPush(p) => {
            let mut t = Table::new();
            t.insert("z", toml_edit::value(1));
            nav(doc, p).as_array_of_tables_mut().expect("aot").push(t);
        }
        Op::AotExtend3(p) => {
            let tabs = (1..=3).map(|z| {
                let mut t = Table::new();
                t.insert("z", toml_edit::value(z));
                t
            });
            nav(doc, p).as_array_of_tables_mut().expect("aot").extend(tabs);
        }
        Op::AotRemove(p, i) => nav(doc, p).as_array_of_tables_mut().expect("aot").remove(*i),
        Op::AotRetainEven(p) => {
            let mut i = 0;
            nav(doc, p).as_array_of_tables_mut().expect("aot").retain(|_| {
                i += 1;
                (i - 1) % 2 == 0
            });
        }
        Op::AotClear(p) => nav(doc, p).as_array_of_tables_mut().expect("aot").clear(),
        Op::TabRetainEven(p) => {
            let it = nav(doc, p);
            if let Some(t) = it.as_table_mut() {
                t.retain(|k, _| key_parity(k));
            } else {
                it.as_inline_table_mut().expect("inline table").retain(|k, _| key_parity(k));
            }
        }
        Op::TabClear(p) => nav(doc, p).as_table_like_mut().expect("table-like").clear(),
        Op::IntoInline(p) => {
            let it = nav(doc, p);
            let t = std::mem::take(it).into_table().expect("table");
            *it = Item::Value(Value::InlineTable(t.into_inline_table()));
        }
        Op::MakeValue(p) => nav(doc, p).make_value(),
        Op::IntoTable(p) => {
            let it = nav(doc, p);
            let t = std::mem::take(it).into_table().expect("inline table");
            *it = Item::Table(t);
        }
        Op::IntoAot(p) => {
            let it = nav(doc, p);
            let a = std::mem::take(it).into_array_of_tables().expect("array of inline tables");
            *it = Item::ArrayOfTables(a);
        }
        Op::MoveDotted(from, k, to) => {
            let moved = nav(doc, from).as_table_mut().expect("table").remove(k).expect("moved entry");
            nav(doc, to).as_table_mut().expect("table").insert(k, moved);
        }
    }
}

pub const START_DOCS: [&str; 13] = [
    "tc = [ 1, 2, ] # @tc\nml = [\n  1 # @ml0\n  , 2 # @ml1\n  ,\n] # @ml\ne = [] # @e\n",
    "opt.level.size = 1 # @opt.level.size\nopt.level.debug = 2 # @opt.level.debug\nopt.a = 3 # @opt.a\nb = 0 # @b\n[t] # @t\nz.y.x = 1 # @t.z.y.x\nz.y.a = 2 # @t.z.y.a\nz.b = 3 # @t.z.b\n",
    "# ^a\na = 1 # @a\nb = \"x\"   # @b\n# ^c\nc = [ 1, 2 ] # @c\nd = { x = 1, y = 2 } # @d\n",
    "top = 1 # @top\n\n[t] # @t\nx = 1 # @t.x\ny = 2 # @t.y\n\n  [t.sub] # @t.sub\n  z = 3 # @t.sub.z\n\n[u] # @u\n",
    "[[p]] # @p0\nn = 1 # @p0.n\n[[p.q]] # @p0.q0\nm = 1 # @p0.q0.m\n[[p]] # @p1\nn = 2 # @p1.n\n[other] # @other\nk = 1 # @other.k\n",
    "a.b = 1 # @a.b\na.c = 2 # @a.c\n[x.y] # @x.y\nk = 1 # @x.y.k\n",
    // (a comment after a comma belongs to the FOLLOWING element's decor; markers sit before the comma here)
    "arr = [\n  1 # @arr0\n  , 2 # @arr1\n  , 3 # @arr2\n] # @arr\nz = 1 # @z\n",
    "[a.b] # @a.b\nk = 1 # @a.b.k\n[a] # @a\nj = 2 # @a.j\n",
    "\"k 1\" = 0x10 # @k 1\n'k2' = 1_000 # @k2\nk3 = [ { i = 1 }, { i = 2 } ] # @k3\n",
    "v = 1 # @v\n[t] # @t\ninl = { a = [ 1, 2 ], b = { c = 3 } } # @t.inl\n# trailing comment\n",
    // a table that owns a nested array of tables and a sub-table (conversions have to take them along)
    "[t] # @t\nx = 1 # @t.x\n[[t.v]] # @t.v0\ni = 1 # @t.v0.i\n[[t.v]] # @t.v1\n[t.u] # @t.u\nw = 2 # @t.u.w\n",
    // inline tables with dotted keys that are not the last entry (conversions have to re-root the paths correctly)
    "i = { p.q = 1, r = 2, s.t.u = 3, v = 4 } # @i\nz = 0 # @z\n[h] # @h\nj = { a.b = 1, c = 2 } # @h.j\n",
    // headers out of tree order around an array of tables: a table visited early in the walk has a late position
    // (`x` is visited first - it was seen first - but its second sub-table has the LAST position of the document)
    "[x.a] # @x.a\nk = 1 # @x.a.k\n[[p]] # @p0\nn = 1 # @p0.n\n[[p]] # @p1\nn = 2 # @p1.n\n[x.b] # @x.b\nj = 3 # @x.b.j\n",
];

/// a wide document: 24 headers whose source order differs from the tree-walk order (ordering of the printed tables
/// goes through a sort keyed by the recorded positions, and new tables share a position with their predecessor)
pub fn wide_doc(n: usize) -> String {
    let mut s = String::from("name = 1 # @name\n");
    for i in 0..n {
        let _ = write!(s, "[[bin]] # @bin{}\nid = {} # @bin{}.id\n[dep.x{}] # @dep.x{}\nv = {} # @dep.x{}.v\n", i, i, i, i, i, i, i);
    }
    s
}

pub struct St {
    doc: DocumentMut,
    model: N,
    text: String,
    path: Vec<String>,
}

fn check_step(prev_text: &str, st_doc: &DocumentMut, model: &N, touched: &BTreeSet<String>) -> Result<String, (Option<&'static str>, String)> {
    let text = st_doc.to_string();
    // (1)
    let tree = match ref_parse(&text) {
        Verdict::Valid { tree, .. } => tree,
        Verdict::Invalid(r) => return Err((None, format!("printed text is not valid TOML ({} at byte {}): {:?}", r.rule, r.at, text))),
        Verdict::UndecidedU1 => return Ok(text),
    };
    let reparsed = text.parse::<DocumentMut>().map_err(|e| (None, format!("printed text rejected by the parser: {} / {:?}", e.message(), text)))?;
    if reparsed.to_string() != text {
        return Err((None, format!("printed text is not a fixed point: {:?} -> {:?}", text, reparsed.to_string())));
    }
    // (2)
    let mut got = String::new();
    canon_node(&tree, &mut got);
    let mut want = String::new();
    canon_n(model, &mut want);
    if got != want {
        return Err((None, format!("content differs from the reference tree after the same edit:\n      printed  {:?}\n      decoded  {}\n      expected {}", text, got, want)));
    }
    // (3)
    let before = marker_lines(prev_text);
    let after = marker_lines(&text);
    let mut alive = BTreeSet::new();
    marks_of(model, &mut alive);
    // markers of array elements: the element shares its line with neighbours / the array's opening, so only the
    // element's own fragment (value token, whitespace, comment) is compared
    let mut elems = BTreeSet::new();
    fn elem_marks(n: &N, out: &mut BTreeSet<String>) {
        match &n.k {
            K::Arr(a) => {
                for x in a {
                    if let Some(m) = &x.mark {
                        out.insert(m.clone());
                    }
                    elem_marks(x, out);
                }
            }
            K::Aot(a) => a.iter().for_each(|x| elem_marks(x, out)),
            K::Inl(e) | K::Tab(e, _) => e.iter().for_each(|(_, v)| elem_marks(v, out)),
            K::Leaf(_) => {}
        }
    }
    elem_marks(model, &mut elems);
    let elem_frag = |line: &str, m: &str| -> String {
        let upto = line.find(&format!("# @{}", m)).unwrap_or(line.len());
        let head = &line[..upto];
        let cut = head.rfind(|c| c == ',' || c == '[').map(|i| i + 1).unwrap_or(0);
        line[cut..].trim_start().to_string()
    };
    for m in &alive {
        if touched.contains(m) {
            continue;
        }
        let Some((old_line, old_above)) = before.get(m) else { continue };
        match after.get(m) {
            None => return Err((None, format!("the untouched entry marked @{} lost its line {:?}; printed {:?}", m, old_line, text))),
            Some((new_line, new_above)) => {
                if elems.contains(m) {
                    if elem_frag(new_line, m) != elem_frag(old_line, m) {
                        return Err((None, format!("the untouched array element marked @{} changed from {:?} to {:?}", m, elem_frag(old_line, m), elem_frag(new_line, m))));
                    }
                    continue;
                }
                if new_line != old_line {
                    return Err((None, format!("the untouched entry marked @{} changed from {:?} to {:?}", m, old_line, new_line)));
                }
                if old_above.is_some() && new_above != old_above {
                    return Err((None, format!("the comment above the untouched entry @{} changed from {:?} to {:?}", m, old_above, new_above)));
                }
            }
        }
    }
    Ok(text)
}

pub struct Res {
    pub states: u64,
    pub transitions: u64,
    pub depth: usize,
    pub viols: Vec<(String, Option<&'static str>, String)>,
    pub samples: Vec<String>,
}

pub fn search(start: &str, depth: usize) -> Result<Res, String> {
    let Verdict::Valid { tree, .. } = ref_parse(start) else { return Err(format!("start document invalid: {:?}", start)) };
    let marks: BTreeSet<String> = marker_lines(start).keys().cloned().collect();
    let mut model = from_model(&tree, &mut vec![], &marks);
    mark_value_borne(&mut model, false);
    let doc: DocumentMut = start.parse().map_err(|e: toml_edit::TomlError| e.to_string())?;
    align_order(&mut model, doc.as_item());
    let text0 = doc.to_string();
    // visited set: sharded, filled concurrently, so that duplicate successors are dropped where they are produced and
    // the states of the last level (never expanded) are not kept at all - memory stays proportional to one frontier
    let shards: Vec<std::sync::Mutex<HashSet<u64>>> = (0..256).map(|_| std::sync::Mutex::new(HashSet::new())).collect();
    let insert = |h: u64| shards[(h % 256) as usize].lock().unwrap().insert(h);
    insert(hash64(format!("{}|{:?}", text0, doc).as_bytes()));
    let mut frontier = vec![St { doc, model, text: text0, path: vec![] }];
    let mut res = Res { states: 1, transitions: 0, depth: 0, viols: vec![], samples: vec![] };
    for d in 0..depth {
        let last_level = d + 1 == depth;
        type Out = (Vec<St>, u64, Vec<(String, Option<&'static str>, String)>, Option<String>);
        let expanded: Vec<Out> = frontier
            .par_iter()
            .map(|st| {
                let mut out: Out = (Vec::new(), 0, Vec::new(), None);
                for op in enumerate_ops(&st.model) {
                    let mut path = st.path.clone();
                    path.push(format!("{:?}", op));
                    let r = guarded(|| {
                        let mut doc = st.doc.clone();
                        let mut model = st.model.clone();
                        apply_real(&mut doc, &op);
                        let touched = apply_model(&mut model, &op);
                        let r = check_step(&st.text, &doc, &model, &touched);
                        (doc, model, r)
                    });
                    out.1 += 1;
                    match r {
                        Err(p) => out.2.push((format!("start {:?} ; {}", start, path.join(" ; ")), None, format!("panic: {}", p))),
                        Ok((_, _, Err((c, e)))) => out.2.push((format!("start {:?} ; {}", start, path.join(" ; ")), c, e)),
                        Ok((doc, model, Ok(text))) => {
                            let h = hash64(format!("{}|{:?}", text, doc).as_bytes());
                            if insert(h) {
                                if last_level {
                                    if out.3.is_none() {
                                        out.3 = Some(format!("{:?} ; {} => {:?}", start, path.join(" ; "), text));
                                    }
                                } else {
                                    out.0.push(St { doc, model, text, path });
                                }
                            }
                        }
                    }
                }
                out
            })
            .collect();
        let mut next = Vec::new();
        for (sts, n, viols, sample) in expanded {
            res.transitions += n;
            // (bounded: the report keeps the first few hundred, unclassified first)
            if res.viols.len() < 5000 {
                res.viols.extend(viols);
            }
            if let Some(sm) = sample {
                if res.samples.len() < 2 {
                    res.samples.push(sm);
                }
            }
            next.extend(sts);
        }
        res.depth = d + 1;
        frontier = next;
        if frontier.is_empty() {
            break;
        }
    }
    res.states = shards.iter().map(|s| s.lock().unwrap().len() as u64).sum();
    Ok(res)
}

/// histories through a PLACEHOLDER: `&mut doc["t"]["x"]` without assigning leaves a hidden slot; later calls that fill or
/// drop it must not disturb the visible entries (their relative order, their text)
fn placeholder_histories(rep: &mut Report) {
    let t0 = std::time::Instant::now();
    let mut acc = Acc::default();
    let starts = [("inline table", "t = { a = 1, b = 2 , c = 3, d = 4 } # @t\nz = 0 # @z\n"), ("table", "[t] # @t\na = 1 # @a\nb = 2 # @b\nc = 3 # @c\nd = 4 # @d\n[u] # @u\nz = 0 # @z\n")];
    let finals = ["nothing", "entry(x).or_insert", "TableLike::entry(x).or_insert", "TableLike::insert(x)", "index assignment", "get_or_insert / entry_format", "remove(x)", "TableLike::get_mut(x) + entry(x).or_insert"];
    for (cname, start) in starts {
        for probes in 1..=2usize {
            for k in 0..=3usize {
                for (fi, fname) in finals.iter().enumerate() {
                    acc.evals += 1;
                    let label = format!("{}: {} probe(s) of a missing key, {} insert(s), then {}", cname, probes, k, fname);
                    acc.nontrivial(label.as_bytes());
                    let r = guarded(|| -> Result<(), String> {
                        let mut doc: DocumentMut = start.parse().map_err(|e: toml_edit::TomlError| e.message().to_string())?;
                        let _ = &mut doc["t"]["x"];
                        if probes == 2 {
                            let _ = &mut doc["t"]["w"];
                        }
                        for i in 0..k {
                            doc["t"].as_table_like_mut().ok_or("t is not table-like")?.insert(&format!("n{}", i), toml_edit::value(10 + i as i64));
                        }
                        let mut x_present = true;
                        match fi {
                            0 => x_present = false,
                            1 => {
                                if let Some(t) = doc["t"].as_inline_table_mut() {
                                    t.entry("x").or_insert(Value::from(9));
                                } else {
                                    doc["t"].as_table_mut().ok_or("t")?.entry("x").or_insert(toml_edit::value(9));
                                }
                            }
                            2 => {
                                doc["t"].as_table_like_mut().ok_or("t")?.entry("x").or_insert(toml_edit::value(9));
                            }
                            3 => {
                                doc["t"].as_table_like_mut().ok_or("t")?.insert("x", toml_edit::value(9));
                            }
                            4 => doc["t"]["x"] = toml_edit::value(9),
                            5 => {
                                if let Some(t) = doc["t"].as_inline_table_mut() {
                                    t.get_or_insert("x", 9);
                                } else {
                                    doc["t"].as_table_mut().ok_or("t")?.entry_format(&toml_edit::Key::new("x")).or_insert(toml_edit::value(9));
                                }
                            }
                            6 => {
                                let _ = doc["t"].as_table_like_mut().ok_or("t")?.remove("x");
                                x_present = false;
                            }
                            _ => {
                                let tl = doc["t"].as_table_like_mut().ok_or("t")?;
                                let _ = tl.get_mut("x");
                                tl.entry("x").or_insert(toml_edit::value(9));
                            }
                        }
                        let text = doc.to_string();
                        let back: DocumentMut = text.parse().map_err(|e: toml_edit::TomlError| format!("printed {:?} is not valid: {}", text, e.message()))?;
                        if !matches!(refmodel::ref_parse(&text), refmodel::Verdict::Valid { .. }) {
                            return Err(format!("printed {:?} is not valid TOML", text));
                        }
                        let keys = |d: &DocumentMut| -> Vec<String> { d["t"].as_table_like().map(|t| t.iter().map(|(k, _)| k.to_string()).collect()).unwrap_or_default() };
                        let mut want: Vec<String> = ["a", "b", "c", "d"].iter().map(|s| s.to_string()).collect();
                        for i in 0..k {
                            want.push(format!("n{}", i));
                        }
                        for (who, got) in [("in memory", keys(&doc)), ("printed and re-parsed", keys(&back))] {
                            let others: Vec<String> = got.iter().filter(|k| *k != "x").cloned().collect();
                            if others != want {
                                return Err(format!("{}: the entries other than x are [{}], the reference ordered map has [{}] (text {:?})", who, others.join(","), want.join(","), text));
                            }
                            if got.contains(&"x".to_string()) != x_present {
                                return Err(format!("{}: x present = {}, expected {} (text {:?})", who, !x_present, x_present, text));
                            }
                        }
                        if x_present && back["t"]["x"].as_integer() != Some(9) {
                            return Err(format!("x does not decode to 9 (text {:?})", text));
                        }
                        for line in start.lines().filter(|l| l.contains("# @") && !l.contains("# @t")) {
                            if !text.contains(line) {
                                return Err(format!("the untouched line {:?} changed: {:?}", line, text));
                            }
                        }
                        Ok(())
                    });
                    match r {
                        Ok(Ok(())) => acc.bump("placeholder-history-ok"),
                        Ok(Err(e)) => acc.viol("U-placeholder", label, None, e),
                        Err(p) => acc.viol("U-placeholder", label, None, format!("panic: {}", p)),
                    }
                }
            }
        }
    }
    let n = acc.evals;
    rep.absorb("U-placeholder", "inline table / standard table x 1-2 placeholders left by mutable indexing x 0-3 later inserts x 8 ways of filling, dropping or ignoring the placeholder: visible entries keep their order and text", n, true, t0, acc);
}

pub fn c08(tier: Tier) -> i32 {
    let mut rep = Report::new(
        "C08",
        tier,
        "model_checking",
        "explicit-state search over edit histories: 8 start documents (plus one wide 24-header document at depth 1-2) whose every entry carries a marker comment; from each, every history of <= d public edit calls (insert / replace / index assignment / entry().or_insert on every table-like node incl. inline, dotted, implicit tables and array-of-tables elements with 6 kinds of new item; remove; sort_values; fmt; array push / insert / replace / remove; array-of-tables push / remove; into_inline_table / into_table / make_value / into_array_of_tables) on every path of the current document; after every step: printed text valid (specification model) and a fixed point of the real parser, decoded content == reference tree after the same edit (order among values and among tables), every marked entry the edit did not touch keeps its line and the comment above it byte-for-byte; states deduplicated by printed text + Debug of the document",
    );
    rep.assumptions = vec![
        "'touched' is defined per call by the reference model: the entry operated on (with its subtree); for array element operations also the array's own line; for fmt the direct entries' lines (content still compared); for sort_values nothing".into(),
        "tables that exist only through their entries (dotted-key / implicit tables) are deleted by the model when their last entry is removed; escape hatches (raw decor setters, set_dotted / set_implicit / set_position) are not in the alphabet".into(),
    ];
    let depth = tier.pick(3, 4);
    let wides: Vec<String> = tier.pick(vec![16usize], vec![12, 16, 20, 22]).into_iter().map(wide_doc).collect();
    let mut docs: Vec<(&str, usize)> = START_DOCS.iter().map(|d| (*d, depth)).collect();
    for w in &wides {
        docs.push((w.as_str(), tier.pick(1, 2)));
    }
    // the same kinds of document with CR LF line endings (decor keeps the CR internally and drops it when printing)
    let crlf: Vec<String> = [2usize, 3, 6].iter().map(|i| START_DOCS[*i].replace('\n', "\r\n")).collect();
    for c in &crlf {
        docs.push((c.as_str(), tier.pick(2, 3)));
    }
    for (i, (start, depth)) in docs.iter().enumerate() {
        let (start, depth) = (*start, *depth);
        let t0 = std::time::Instant::now();
        match search(start, depth) {
            Err(e) => {
                println!("MACHINERY-ERROR {}", e);
                return 2;
            }
            Ok(res) => {
                let mut acc = Acc::default();
                acc.evals = res.transitions;
                acc.nontrivial_overflow = res.states;
                for s in &res.samples {
                    acc.sample(|| s.clone());
                }
                for (l, c, d) in &res.viols {
                    acc.viol("U-edit", l.clone(), *c, d.clone());
                }
                rep.states = Some(rep.states.unwrap_or(0) + res.states);
                rep.transitions = Some(rep.transitions.unwrap_or(0) + res.transitions);
                rep.traces_validated += res.transitions;
                rep.absorb(&format!("U-edit(doc {})", i), &format!("{} states, {} transitions, depth {}", res.states, res.transitions, res.depth), res.transitions, true, t0, acc);
            }
        }
    }
    placeholder_histories(&mut rep);
    rep.extra.insert("depth_bound".into(), serde_json::json!(depth));
    rep.exhaustive = true;
    rep.finish()
}

pub fn replay(path: &str) -> i32 {
    let j = read_replay(path);
    println!("history: {}", j["input"].as_str().unwrap_or(""));
    println!("detail : {}", j["detail"].as_str().unwrap_or(""));
    println!("replay: histories are regenerated by the search; re-run ./run.sh C08 quick");
    2
}
