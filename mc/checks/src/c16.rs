//! C16 — tables, arrays and maps obey ordered-container laws under any call sequence.
//!
//! Explicit-state search: a state is (real container, reference model); a transition is ONE real API call
//! applied to a clone of the real container and to the model; after every transition the call's return value
//! and a full observation of the container are compared with the model's.  The search runs breadth-first
//! with canonical-state deduplication until the reachable set closes (or a stated depth cap).

use crate::common::*;
use rayon::prelude::*;
use std::collections::HashSet;
use toml_edit::{Array, ArrayOfTables, InlineTable, Item, Key, Table, TableLike, Value};

pub trait Sys: Sync {
    type Real: Clone + Send + Sync;
    type Model: Clone + Send + Sync + std::fmt::Debug;
    type Op: Clone + Send + Sync + std::fmt::Debug;
    fn name(&self) -> &'static str;
    fn init(&self) -> Vec<(String, Self::Real, Self::Model)>;
    fn ops(&self, m: &Self::Model) -> Vec<Self::Op>;
    /// applies `op` to both; returns (return value as seen on the real side, on the model side)
    fn step(&self, r: &mut Self::Real, m: &mut Self::Model, op: &Self::Op) -> (String, String);
    /// full observation of the real container and of the model
    fn observe(&self, r: &Self::Real, m: &Self::Model) -> Vec<(String, String, String)>;
    fn canon(&self, r: &Self::Real, m: &Self::Model) -> String;
    /// recogniser for known findings
    fn classify(&self, _m_before: &Self::Model, _op: &Self::Op, _detail: &str) -> Option<&'static str> {
        None
    }
}

pub struct SearchResult {
    pub states: u64,
    pub transitions: u64,
    pub max_depth: usize,
    pub closed: bool,
    pub viols: Vec<(String, Option<&'static str>, String)>,
    pub samples: Vec<String>,
}

struct Node<S: Sys> {
    real: S::Real,
    model: S::Model,
    path: Vec<String>,
}

pub fn bfs<S: Sys>(sys: &S, depth_cap: usize, state_cap: usize) -> SearchResult {
    let mut seen: HashSet<u64> = HashSet::new();
    let mut frontier: Vec<Node<S>> = Vec::new();
    for (label, r, m) in sys.init() {
        let c = hash64(sys.canon(&r, &m).as_bytes());
        if seen.insert(c) {
            frontier.push(Node { real: r, model: m, path: vec![format!("start:{}", label)] });
        }
    }
    let mut transitions = 0u64;
    let mut viols = Vec::new();
    let mut samples = Vec::new();
    let mut depth = 0usize;
    let mut closed = false;
    while !frontier.is_empty() {
        if depth >= depth_cap || seen.len() >= state_cap {
            break;
        }
        // expand the whole frontier in parallel, merge deterministically (frontier order, op order)
        let expanded: Vec<Vec<(Option<Node<S>>, u64, Option<(String, Option<&'static str>, String)>)>> = frontier
            .par_iter()
            .map(|n| {
                let mut out = Vec::new();
                for op in sys.ops(&n.model) {
                    let mut r = n.real.clone();
                    let mut m = n.model.clone();
                    let mut path = n.path.clone();
                    path.push(format!("{:?}", op));
                    let res = guarded(|| {
                        let (rr, mr) = sys.step(&mut r, &mut m, &op);
                        let obs = sys.observe(&r, &m);
                        (rr, mr, obs)
                    });
                    match res {
                        Err(p) => {
                            let detail = format!("panic: {}", p);
                            out.push((None, 0, Some((path.join(" ; "), sys.classify(&n.model, &op, &detail), detail))));
                        }
                        Ok((rr, mr, obs)) => {
                            let mut bad: Option<String> = None;
                            if rr != mr {
                                bad = Some(format!("return value: real {} vs reference {}", rr, mr));
                            }
                            for (what, a, b) in &obs {
                                if a != b && bad.is_none() {
                                    bad = Some(format!("{}: real {} vs reference {}", what, a, b));
                                }
                            }
                            match bad {
                                Some(detail) => out.push((None, 0, Some((path.join(" ; "), sys.classify(&n.model, &op, &detail), detail)))),
                                None => {
                                    let c = hash64(sys.canon(&r, &m).as_bytes());
                                    out.push((Some(Node { real: r, model: m, path }), c, None));
                                }
                            }
                        }
                    }
                }
                out
            })
            .collect();
        let mut next = Vec::new();
        for group in expanded {
            for (node, c, viol) in group {
                transitions += 1;
                if let Some(v) = viol {
                    viols.push(v);
                    continue; // a non-conforming transition is recorded and not expanded further
                }
                let node = node.unwrap();
                if seen.insert(c) {
                    if samples.len() < 4 && node.path.len() >= 3 {
                        samples.push(node.path.join(" ; "));
                    }
                    next.push(node);
                }
            }
        }
        depth += 1;
        frontier = next;
        if frontier.is_empty() {
            closed = true;
        }
    }
    SearchResult { states: seen.len() as u64, transitions, max_depth: depth, closed, viols, samples }
}

// ================================================================================================
// reference model for the map-like containers

#[derive(Clone, Debug, PartialEq)]
pub enum MV {
    Int(i64),
    Tab,
    Inl,
    Aot,
    /// slot reserved by mutable indexing: invisible
    Hole,
}
impl MV {
    fn show(&self) -> String {
        match self {
            MV::Int(i) => i.to_string(),
            MV::Tab => "table".into(),
            MV::Inl => "inline".into(),
            MV::Aot => "aot".into(),
            MV::Hole => "-".into(),
        }
    }
    fn vis(&self) -> bool {
        !matches!(self, MV::Hole)
    }
}
pub type MapModel = Vec<(String, MV)>;

fn show_item(i: &Item) -> String {
    match i {
        Item::None => "-".into(),
        Item::Value(v) => show_value(v),
        Item::Table(_) => "table".into(),
        Item::ArrayOfTables(_) => "aot".into(),
    }
}
fn show_value(v: &Value) -> String {
    match v {
        Value::Integer(i) => i.value().to_string(),
        Value::InlineTable(_) => "inline".into(),
        other => format!("?{}", other.type_name()),
    }
}
fn opt(s: Option<String>) -> String {
    // absence and a placeholder are the same observation
    match s {
        Some(x) if x != "-" => x,
        _ => "none".into(),
    }
}
fn item_of(v: &MV) -> Item {
    match v {
        MV::Int(i) => toml_edit::value(*i),
        MV::Tab => Item::Table(Table::new()),
        MV::Inl => Item::Value(Value::InlineTable(InlineTable::new())),
        MV::Aot => {
            let mut a = ArrayOfTables::new();
            a.push(Table::new());
            Item::ArrayOfTables(a)
        }
        MV::Hole => Item::None,
    }
}
fn value_of(v: &MV) -> Value {
    match v {
        MV::Int(i) => Value::from(*i),
        MV::Inl => Value::InlineTable(InlineTable::new()),
        _ => unreachable!("not a value"),
    }
}

fn m_pos(m: &MapModel, k: &str) -> Option<usize> {
    m.iter().position(|(kk, _)| kk == k)
}
/// insert semantics of an ordered map: existing key keeps its position
fn m_put(m: &mut MapModel, k: &str, v: MV) -> Option<MV> {
    match m_pos(m, k) {
        Some(i) => Some(std::mem::replace(&mut m[i].1, v)),
        None => {
            m.push((k.to_string(), v));
            None
        }
    }
}
fn m_obs(m: &MapModel, keys: &[&str]) -> String {
    let vis: Vec<&(String, MV)> = m.iter().filter(|(_, v)| v.vis()).collect();
    format!(
        "len={} empty={} iter=[{}] get=[{}]",
        vis.len(),
        vis.is_empty(),
        vis.iter().map(|(k, v)| format!("{}={}", k, v.show())).collect::<Vec<_>>().join(","),
        keys.iter().map(|k| format!("{}:{}", k, opt(vis.iter().find(|(kk, _)| kk == k).map(|(_, v)| v.show())))).collect::<Vec<_>>().join(",")
    )
}

const KEYS: [&str; 3] = ["a", "b", "c"];

#[derive(Clone, Debug)]
pub enum MapOp {
    Insert(&'static str, MV),
    InsertFormatted(&'static str, MV),
    Remove(&'static str),
    RemoveEntry(&'static str),
    EntryOrInsert(&'static str, MV),
    /// `entry_format(&Key).or_insert_with(|| ..)`: the same law as `entry(k).or_insert(..)` through the other two calls
    EntryFormatOrInsertWith(&'static str, MV),
    /// `get_key_value_mut(k)`: writes an integer through the returned reference, decorates the key; returns the key seen
    GetKeyValueMutWrite(&'static str, i64),
    /// `key_mut(k)`: decorates the key (must not change what the entry is); returns the key seen
    KeyMutDecorate(&'static str),
    EntryOccupiedInsert(&'static str, MV),
    EntryOccupiedRemove(&'static str),
    GetOrInsert(&'static str, i64),
    IndexMut(&'static str),
    IndexAssign(&'static str, MV),
    GetMutWrite(&'static str, i64),
    RetainKeyNot(&'static str),
    RetainInts,
    /// stateful predicate: keeps the visible entries it is shown 1st, 3rd, ... and reports the order it saw them in
    RetainOdd,
    SortValues,
    SortValuesByRev,
    Clear,
    Extend(Vec<(&'static str, MV)>),
    IterMutWrite(i64),
    TlInsert(&'static str, MV),
    TlRemove(&'static str),
    TlEntryOrInsert(&'static str, MV),
    TlSortValues,
    TlClear,
    TlGetMutWrite(&'static str, i64),
    TlIterMutWrite(i64),
}

fn map_ops(values: &[MV], with_get_or_insert: bool) -> Vec<MapOp> {
    let mut v = Vec::new();
    for k in KEYS {
        for x in values {
            v.push(MapOp::Insert(k, x.clone()));
            v.push(MapOp::EntryOrInsert(k, x.clone()));
            v.push(MapOp::TlInsert(k, x.clone()));
        }
        // the remaining value-taking calls with one representative value each (the value domain is covered by Insert)
        v.push(MapOp::InsertFormatted(k, values[1].clone()));
        v.push(MapOp::EntryOccupiedInsert(k, values[0].clone()));
        v.push(MapOp::IndexAssign(k, values[1].clone()));
        v.push(MapOp::TlEntryOrInsert(k, values[0].clone()));
        v.push(MapOp::EntryFormatOrInsertWith(k, values[1].clone()));
        v.push(MapOp::GetKeyValueMutWrite(k, 1));
        v.push(MapOp::KeyMutDecorate(k));
        v.push(MapOp::Remove(k));
        v.push(MapOp::RemoveEntry(k));
        v.push(MapOp::EntryOccupiedRemove(k));
        v.push(MapOp::IndexMut(k));
        v.push(MapOp::TlRemove(k));
        v.push(MapOp::GetMutWrite(k, 2));
        v.push(MapOp::TlGetMutWrite(k, 1));
        if with_get_or_insert {
            v.push(MapOp::GetOrInsert(k, 1));
        }
    }
    v.push(MapOp::RetainKeyNot("a"));
    v.push(MapOp::RetainKeyNot("b"));
    v.push(MapOp::RetainInts);
    v.push(MapOp::RetainOdd);
    v.push(MapOp::SortValues);
    v.push(MapOp::SortValuesByRev);
    v.push(MapOp::Clear);
    v.push(MapOp::Extend(vec![("c", values[0].clone()), ("a", values[1].clone())]));
    v.push(MapOp::IterMutWrite(1));
    v.push(MapOp::TlSortValues);
    v.push(MapOp::TlClear);
    v.push(MapOp::TlIterMutWrite(2));
    v
}

/// the model side of every MapOp; returns the call's return value as text.
///
/// Placeholders (reserved slots made by mutable indexing) are invisible: the property says they do not count towards
/// length, emptiness, iteration, lookups or printing, and says nothing about WHERE a key lands that is inserted after
/// having been a placeholder (today a Table fills the slot in place, an InlineTable's own entry API releases it
/// first, `retain` / `sort_values_by` treat slots differently per container).  The reference model therefore keeps
/// a placeholder only as a flag on the key; when such a key becomes visible it is reported in `flex`, and
/// `reconcile` accepts whatever position the real container gave it - provided every other visible entry kept its
/// relative order.  A key that never was a placeholder must land where a plain ordered map puts it.
fn model_step(m: &mut MapModel, op: &MapOp, flex: &mut Vec<String>) -> String {
    let vis_show = |o: Option<MV>| opt(o.map(|v| v.show()));
    // a flagged key that becomes visible: drop the flag, append (tentatively), remember it as position-flexible
    fn put(m: &mut MapModel, k: &str, v: MV, flex: &mut Vec<String>) -> Option<MV> {
        match m_pos(m, k) {
            Some(i) if m[i].1.vis() => Some(std::mem::replace(&mut m[i].1, v)),
            Some(i) => {
                m.remove(i);
                m.push((k.to_string(), v));
                flex.push(k.to_string());
                None
            }
            None => {
                m.push((k.to_string(), v));
                None
            }
        }
    }
    let out = match op {
        MapOp::Insert(k, v) | MapOp::InsertFormatted(k, v) | MapOp::TlInsert(k, v) => vis_show(put(m, k, v.clone(), flex)),
        MapOp::IndexAssign(k, v) => {
            put(m, k, v.clone(), flex);
            String::new()
        }
        MapOp::Remove(k) | MapOp::TlRemove(k) => match m_pos(m, k) {
            Some(i) if m[i].1.vis() => m.remove(i).1.show(),
            _ => "none".into(),
        },
        MapOp::RemoveEntry(k) => match m_pos(m, k) {
            Some(i) if m[i].1.vis() => {
                let (kk, v) = m.remove(i);
                format!("{}={}", kk, v.show())
            }
            _ => "none".into(),
        },
        MapOp::GetKeyValueMutWrite(k, x) => match m_pos(m, k) {
            Some(i) if matches!(m[i].1, MV::Int(_)) => {
                m[i].1 = MV::Int(*x);
                format!("{}:written", k)
            }
            Some(i) if m[i].1.vis() => format!("{}:not-int", k),
            _ => "none".into(),
        },
        MapOp::KeyMutDecorate(k) => match m_pos(m, k) {
            Some(i) if m[i].1.vis() => k.to_string(),
            _ => "none".into(),
        },
        MapOp::EntryOrInsert(k, v) | MapOp::TlEntryOrInsert(k, v) | MapOp::EntryFormatOrInsertWith(k, v) => match m_pos(m, k) {
            Some(i) if m[i].1.vis() => m[i].1.show(),
            _ => {
                put(m, k, v.clone(), flex);
                v.show()
            }
        },
        MapOp::GetOrInsert(k, x) => match m_pos(m, k) {
            Some(i) if m[i].1.vis() => m[i].1.show(),
            _ => {
                put(m, k, MV::Int(*x), flex);
                x.to_string()
            }
        },
        MapOp::EntryOccupiedInsert(k, v) => match m_pos(m, k) {
            Some(i) if m[i].1.vis() => std::mem::replace(&mut m[i].1, v.clone()).show(),
            _ => "vacant".into(),
        },
        MapOp::EntryOccupiedRemove(k) => match m_pos(m, k) {
            Some(i) if m[i].1.vis() => m.remove(i).1.show(),
            _ => "vacant".into(),
        },
        MapOp::IndexMut(k) => {
            if m_pos(m, k).is_none() {
                m.push((k.to_string(), MV::Hole));
            }
            String::new()
        }
        MapOp::GetMutWrite(k, x) | MapOp::TlGetMutWrite(k, x) => match m_pos(m, k) {
            Some(i) if matches!(m[i].1, MV::Int(_)) => {
                m[i].1 = MV::Int(*x);
                "written".into()
            }
            Some(i) if m[i].1.vis() => "not-int".into(),
            _ => "none".into(),
        },
        MapOp::RetainKeyNot(k) => {
            m.retain(|(kk, v)| kk != k || !v.vis());
            String::new()
        }
        MapOp::RetainInts => {
            m.retain(|(_, v)| matches!(v, MV::Int(_)) || !v.vis());
            String::new()
        }
        MapOp::RetainOdd => {
            let mut seen: Vec<String> = Vec::new();
            m.retain(|(k, v)| {
                if !v.vis() {
                    return true;
                }
                seen.push(k.clone());
                seen.len() % 2 == 1
            });
            format!("visited {:?}", seen)
        }
        MapOp::SortValues | MapOp::TlSortValues => {
            m.sort_by(|a, b| a.0.cmp(&b.0));
            String::new()
        }
        MapOp::SortValuesByRev => {
            m.sort_by(|a, b| b.0.cmp(&a.0));
            String::new()
        }
        MapOp::Clear | MapOp::TlClear => {
            m.retain(|(_, v)| !v.vis());
            String::new()
        }
        MapOp::Extend(kvs) => {
            for (k, v) in kvs {
                put(m, k, v.clone(), flex);
            }
            String::new()
        }
        MapOp::IterMutWrite(x) | MapOp::TlIterMutWrite(x) => {
            for (_, v) in m.iter_mut() {
                if matches!(v, MV::Int(_)) {
                    *v = MV::Int(*x);
                }
            }
            String::new()
        }
    };
    // canonical form: visible entries in order, then the flags sorted by key
    let mut flags: Vec<(String, MV)> = m.iter().filter(|(_, v)| !v.vis()).cloned().collect();
    flags.sort_by(|a, b| a.0.cmp(&b.0));
    m.retain(|(_, v)| v.vis());
    m.extend(flags);
    out
}

/// see `model_step`: adopt the real position of keys that were placeholders, if nothing else moved
fn reconcile(m: &mut MapModel, real_keys: &[String], flex: &[String]) {
    if flex.is_empty() {
        return;
    }
    let vis: Vec<String> = m.iter().filter(|(_, v)| v.vis()).map(|(k, _)| k.clone()).collect();
    if vis == real_keys {
        return;
    }
    let strip = |v: &[String]| v.iter().filter(|k| !flex.contains(k)).cloned().collect::<Vec<_>>();
    if vis.len() != real_keys.len() || strip(&vis) != strip(real_keys) {
        return; // a genuine disagreement: the observation reports it
    }
    let mut new: MapModel = Vec::new();
    for k in real_keys {
        if let Some(i) = m_pos(m, k) {
            new.push(m[i].clone());
        }
    }
    new.extend(m.iter().filter(|(_, v)| !v.vis()).cloned());
    *m = new;
}

// ---- Table

pub struct TableSys {
    pub values: Vec<MV>,
}

fn table_obs(t: &Table) -> String {
    format!(
        "len={} empty={} iter=[{}] get=[{}]",
        t.len(),
        t.is_empty(),
        t.iter().map(|(k, v)| format!("{}={}", k, show_item(v))).collect::<Vec<_>>().join(","),
        KEYS.iter().map(|k| format!("{}:{}", k, opt(t.get(k).map(show_item)))).collect::<Vec<_>>().join(",")
    )
}
fn tablelike_obs(t: &dyn TableLike) -> String {
    // (get_key_value and contains_key must agree with get)
    for k in KEYS {
        let g = t.get(k).filter(|i| !i.is_none()).is_some();
        let c = t.contains_key(k);
        let kv = t.get_key_value(k).filter(|(_, i)| !i.is_none()).is_some();
        if g != c || g != kv {
            return format!("INCONSISTENT dyn TableLike view of {:?}: get={} contains_key={} get_key_value={}", k, g, c, kv);
        }
    }
    format!(
        "len={} empty={} iter=[{}] get=[{}]",
        t.len(),
        t.is_empty(),
        t.iter().map(|(k, v)| format!("{}={}", k, show_item(v))).collect::<Vec<_>>().join(","),
        KEYS.iter().map(|k| format!("{}:{}", k, opt(t.get(k).map(show_item)))).collect::<Vec<_>>().join(",")
    )
}

impl Sys for TableSys {
    type Real = Table;
    type Model = MapModel;
    type Op = MapOp;
    fn name(&self) -> &'static str {
        "Table"
    }
    fn init(&self) -> Vec<(String, Table, MapModel)> {
        let mut v = vec![("empty".to_string(), Table::new(), vec![])];
        let parsed: toml_edit::DocumentMut = "b = 1 # c\n\"a\" = 2\n[c]\n".parse().unwrap();
        v.push(("parsed `b = 1 # c / \"a\" = 2 / [c]`".to_string(), parsed.as_table().clone(), vec![("b".into(), MV::Int(1)), ("a".into(), MV::Int(2)), ("c".into(), MV::Tab)]));
        v
    }
    fn ops(&self, _m: &MapModel) -> Vec<MapOp> {
        map_ops(&self.values, false)
    }
    fn step(&self, t: &mut Table, m: &mut MapModel, op: &MapOp) -> (String, String) {
        let mut flex = Vec::new();
        let mr = model_step(m, op, &mut flex);
        let rr = match op {
            MapOp::Insert(k, v) => opt(t.insert(k, item_of(v)).as_ref().map(show_item)),
            MapOp::InsertFormatted(k, v) => opt(t.insert_formatted(&Key::new(*k), item_of(v)).as_ref().map(show_item)),
            MapOp::TlInsert(k, v) => {
                let tl: &mut dyn TableLike = t;
                opt(tl.insert(k, item_of(v)).as_ref().map(show_item))
            }
            MapOp::IndexAssign(k, v) => {
                t[*k] = item_of(v);
                String::new()
            }
            MapOp::Remove(k) => opt(t.remove(k).as_ref().map(show_item)),
            MapOp::TlRemove(k) => {
                let tl: &mut dyn TableLike = t;
                opt(tl.remove(k).as_ref().map(show_item))
            }
            MapOp::RemoveEntry(k) => match t.remove_entry(k) {
                Some((kk, v)) if !v.is_none() => format!("{}={}", kk.get(), show_item(&v)),
                _ => "none".into(),
            },
            MapOp::EntryOrInsert(k, v) => show_item(t.entry(k).or_insert(item_of(v))),
            MapOp::TlEntryOrInsert(k, v) => {
                let tl: &mut dyn TableLike = t;
                show_item(tl.entry(k).or_insert(item_of(v)))
            }
            MapOp::EntryFormatOrInsertWith(k, v) => show_item(t.entry_format(&Key::new(*k)).or_insert_with(|| item_of(v))),
            MapOp::GetKeyValueMutWrite(k, x) => match t.get_key_value_mut(k) {
                Some((mut key, item)) if !item.is_none() => {
                    // (the decor is touched but left as it is: a changed decor would only multiply the states)
                    let _ = key.leaf_decor_mut().prefix().is_some();
                    let seen = key.get().to_string();
                    if item.is_integer() {
                        *item = toml_edit::value(*x);
                        format!("{}:written", seen)
                    } else {
                        format!("{}:not-int", seen)
                    }
                }
                _ => "none".into(),
            },
            MapOp::KeyMutDecorate(k) => {
                // (whether the formatting accessor answers for a placeholder's key is left open; asked for entries only)
                if t.contains_key(k) {
                    match t.key_mut(k) {
                        Some(mut key) => {
                            let _ = key.leaf_decor_mut().suffix().is_some();
                            key.get().to_string()
                        }
                        None => "MISSING-KEY-OF-A-PRESENT-ENTRY".into(),
                    }
                } else {
                    "none".into()
                }
            }
            MapOp::GetOrInsert(..) => unreachable!(),
            MapOp::EntryOccupiedInsert(k, v) => match t.entry(k) {
                toml_edit::Entry::Occupied(mut e) if !e.get().is_none() => show_item(&e.insert(item_of(v))),
                _ => "vacant".into(),
            },
            MapOp::EntryOccupiedRemove(k) => match t.entry(k) {
                toml_edit::Entry::Occupied(e) if !e.get().is_none() => show_item(&e.remove()),
                _ => "vacant".into(),
            },
            MapOp::IndexMut(k) => {
                let _ = &mut t[*k];
                String::new()
            }
            MapOp::GetMutWrite(k, x) => match t.get_mut(k) {
                Some(i) if i.is_integer() => {
                    *i = toml_edit::value(*x);
                    "written".into()
                }
                Some(_) => "not-int".into(),
                None => "none".into(),
            },
            MapOp::RetainKeyNot(k) => {
                t.retain(|kk, _| kk != *k);
                String::new()
            }
            MapOp::RetainInts => {
                t.retain(|_, v| v.is_integer());
                String::new()
            }
            MapOp::RetainOdd => {
                let mut seen: Vec<String> = Vec::new();
                t.retain(|k, v| {
                    // (a placeholder may or may not be offered to the predicate; it is not an entry either way)
                    if v.is_none() {
                        return true;
                    }
                    seen.push(k.to_string());
                    seen.len() % 2 == 1
                });
                format!("visited {:?}", seen)
            }
            MapOp::SortValues => {
                t.sort_values();
                String::new()
            }
            MapOp::TlSortValues => {
                let tl: &mut dyn TableLike = t;
                tl.sort_values();
                String::new()
            }
            MapOp::SortValuesByRev => {
                t.sort_values_by(|k1, _, k2, _| k2.get().cmp(k1.get()));
                String::new()
            }
            MapOp::Clear => {
                t.clear();
                String::new()
            }
            MapOp::TlClear => {
                let tl: &mut dyn TableLike = t;
                tl.clear();
                String::new()
            }
            MapOp::Extend(kvs) => {
                t.extend(kvs.iter().map(|(k, v)| (*k, item_of(v))));
                String::new()
            }
            MapOp::TlGetMutWrite(k, x) => {
                let tl: &mut dyn TableLike = t;
                match tl.get_mut(k) {
                    Some(i) if i.is_integer() => {
                        *i = toml_edit::value(*x);
                        "written".into()
                    }
                    Some(_) => "not-int".into(),
                    None => "none".into(),
                }
            }
            MapOp::TlIterMutWrite(x) => {
                let tl: &mut dyn TableLike = t;
                for (_, v) in tl.iter_mut() {
                    if v.is_integer() {
                        *v = toml_edit::value(*x);
                    }
                }
                String::new()
            }
            MapOp::IterMutWrite(x) => {
                for (_, v) in t.iter_mut() {
                    if v.is_integer() {
                        *v = toml_edit::value(*x);
                    }
                }
                String::new()
            }
        };
        reconcile(m, &t.iter().map(|(k, _)| k.to_string()).collect::<Vec<_>>(), &flex);
        (rr, mr)
    }
    fn observe(&self, t: &Table, m: &MapModel) -> Vec<(String, String, String)> {
        let want = m_obs(m, &KEYS);
        let mut v = vec![("inherent view".to_string(), table_obs(t), want.clone()), ("dyn TableLike view".to_string(), tablelike_obs(t), want)];
        // contains_* and get_key_value agree with the model
        for k in KEYS {
            let mv = m.iter().find(|(kk, _)| kk == k).map(|(_, v)| v.clone()).filter(|v| v.vis());
            let real = format!("{}/{}/{}/{}/{}", t.contains_key(k), t.contains_value(k), t.contains_table(k), t.contains_array_of_tables(k), t.get_key_value(k).map(|(kk, _)| kk.get().to_string()).unwrap_or_default());
            let want = format!("{}/{}/{}/{}/{}", mv.is_some(), matches!(mv, Some(MV::Int(_)) | Some(MV::Inl)), matches!(mv, Some(MV::Tab)), matches!(mv, Some(MV::Aot)), if mv.is_some() { k } else { "" });
            v.push((format!("contains_key/value/table/aot + get_key_value({})", k), real, want));
        }
        // clone-into_iter yields the visible entries in order
        let it: Vec<String> = t.clone().into_iter().filter(|(_, v)| !v.is_none()).map(|(k, v)| format!("{}={}", k, show_item(&v))).collect();
        let mi: Vec<String> = m.iter().filter(|(_, v)| v.vis()).map(|(k, v)| format!("{}={}", k, v.show())).collect();
        v.push(("into_iter".to_string(), it.join(","), mi.join(",")));
        // printed output: a document whose root is this table decodes to the visible entries
        let mut doc = toml_edit::DocumentMut::new();
        *doc.as_table_mut() = t.clone();
        let text = doc.to_string();
        let printed = match text.parse::<toml_edit::DocumentMut>() {
            Ok(d) => {
                let mut e: Vec<String> = d.as_table().iter().map(|(k, v)| format!("{}={}", k, show_item(v))).collect();
                e.sort();
                e.join(",")
            }
            Err(e) => format!("UNPARSABLE {:?}: {}", text, e.message()),
        };
        // an empty array of tables / empty implicit table has no spelling: only entries with a spelling are expected
        let mut want: Vec<String> = m.iter().filter(|(_, v)| v.vis()).map(|(k, v)| format!("{}={}", k, v.show())).collect();
        want.sort();
        v.push(("printed document".to_string(), printed, want.join(",")));
        v
    }
    fn canon(&self, t: &Table, m: &MapModel) -> String {
        format!("{:?}|{:?}", t, m)
    }
}

// ---- InlineTable

pub struct InlineSys {
    pub values: Vec<MV>,
}

fn inline_obs(t: &InlineTable) -> String {
    format!(
        "len={} empty={} iter=[{}] get=[{}]",
        t.len(),
        t.is_empty(),
        t.iter().map(|(k, v)| format!("{}={}", k, show_value(v))).collect::<Vec<_>>().join(","),
        KEYS.iter().map(|k| format!("{}:{}", k, opt(t.get(k).map(show_value)))).collect::<Vec<_>>().join(",")
    )
}

impl Sys for InlineSys {
    type Real = Item; // an Item holding the inline table, so that mutable indexing is available
    type Model = MapModel;
    type Op = MapOp;
    fn name(&self) -> &'static str {
        "InlineTable"
    }
    fn init(&self) -> Vec<(String, Item, MapModel)> {
        let mut v = vec![("empty".to_string(), Item::Value(Value::InlineTable(InlineTable::new())), vec![])];
        let parsed: Value = "{ b = 1, \"a\" = 2 , c = {} }".parse().unwrap();
        v.push(("parsed `{ b = 1, \"a\" = 2 , c = {} }`".to_string(), Item::Value(parsed), vec![("b".into(), MV::Int(1)), ("a".into(), MV::Int(2)), ("c".into(), MV::Inl)]));
        v
    }
    fn ops(&self, _m: &MapModel) -> Vec<MapOp> {
        map_ops(&self.values, true)
    }
    fn step(&self, item: &mut Item, m: &mut MapModel, op: &MapOp) -> (String, String) {
        let mut flex = Vec::new();
        let mr = model_step(m, op, &mut flex);
        fn it(i: &mut Item) -> &mut InlineTable {
            i.as_inline_table_mut().unwrap()
        }
        let rr = match op {
            MapOp::Insert(k, v) => opt(it(item).insert(*k, value_of(v)).as_ref().map(show_value)),
            MapOp::InsertFormatted(k, v) => opt(it(item).insert_formatted(&Key::new(*k), value_of(v)).as_ref().map(show_value)),
            MapOp::TlInsert(k, v) => {
                let tl: &mut dyn TableLike = it(item);
                opt(tl.insert(k, Item::Value(value_of(v))).as_ref().map(show_item))
            }
            MapOp::IndexAssign(k, v) => {
                item[*k] = Item::Value(value_of(v));
                String::new()
            }
            MapOp::Remove(k) => opt(it(item).remove(k).as_ref().map(show_value)),
            MapOp::TlRemove(k) => {
                let tl: &mut dyn TableLike = it(item);
                opt(tl.remove(k).as_ref().map(show_item))
            }
            MapOp::RemoveEntry(k) => match it(item).remove_entry(k) {
                Some((kk, v)) => format!("{}={}", kk.get(), show_value(&v)),
                None => "none".into(),
            },
            MapOp::EntryOrInsert(k, v) => show_value(it(item).entry(*k).or_insert(value_of(v))),
            MapOp::TlEntryOrInsert(k, v) => {
                let tl: &mut dyn TableLike = it(item);
                show_item(tl.entry(k).or_insert(Item::Value(value_of(v))))
            }
            MapOp::EntryFormatOrInsertWith(k, v) => show_value(it(item).entry_format(&Key::new(*k)).or_insert_with(|| value_of(v))),
            MapOp::GetKeyValueMutWrite(k, x) => match it(item).get_key_value_mut(k) {
                Some((mut key, entry)) if !entry.is_none() => {
                    // (the decor is touched but left as it is: a changed decor would only multiply the states)
                    let _ = key.leaf_decor_mut().prefix().is_some();
                    let seen = key.get().to_string();
                    if entry.is_integer() {
                        *entry = toml_edit::value(*x);
                        format!("{}:written", seen)
                    } else {
                        format!("{}:not-int", seen)
                    }
                }
                _ => "none".into(),
            },
            MapOp::KeyMutDecorate(k) => {
                if it(item).contains_key(k) {
                    match it(item).key_mut(k) {
                        Some(mut key) => {
                            let _ = key.leaf_decor_mut().suffix().is_some();
                            key.get().to_string()
                        }
                        None => "MISSING-KEY-OF-A-PRESENT-ENTRY".into(),
                    }
                } else {
                    "none".into()
                }
            }
            MapOp::GetOrInsert(k, x) => show_value(it(item).get_or_insert(*k, *x)),
            MapOp::EntryOccupiedInsert(k, v) => match it(item).entry(*k) {
                toml_edit::InlineEntry::Occupied(mut e) => show_value(&e.insert(value_of(v))),
                _ => "vacant".into(),
            },
            MapOp::EntryOccupiedRemove(k) => match it(item).entry(*k) {
                toml_edit::InlineEntry::Occupied(e) => show_value(&e.remove()),
                _ => "vacant".into(),
            },
            MapOp::IndexMut(k) => {
                let _ = &mut item[*k];
                String::new()
            }
            MapOp::GetMutWrite(k, x) => match it(item).get_mut(k) {
                Some(v) if v.is_integer() => {
                    *v = Value::from(*x);
                    "written".into()
                }
                Some(_) => "not-int".into(),
                None => "none".into(),
            },
            MapOp::RetainKeyNot(k) => {
                it(item).retain(|kk, _| kk != *k);
                String::new()
            }
            MapOp::RetainInts => {
                it(item).retain(|_, v| v.is_integer());
                String::new()
            }
            MapOp::RetainOdd => {
                let mut seen: Vec<String> = Vec::new();
                it(item).retain(|k, _| {
                    seen.push(k.to_string());
                    seen.len() % 2 == 1
                });
                format!("visited {:?}", seen)
            }
            MapOp::SortValues => {
                it(item).sort_values();
                String::new()
            }
            MapOp::TlSortValues => {
                let tl: &mut dyn TableLike = it(item);
                tl.sort_values();
                String::new()
            }
            MapOp::SortValuesByRev => {
                it(item).sort_values_by(|k1, _, k2, _| k2.get().cmp(k1.get()));
                String::new()
            }
            MapOp::Clear => {
                it(item).clear();
                String::new()
            }
            MapOp::TlClear => {
                let tl: &mut dyn TableLike = it(item);
                tl.clear();
                String::new()
            }
            MapOp::Extend(kvs) => {
                it(item).extend(kvs.iter().map(|(k, v)| (*k, value_of(v))));
                String::new()
            }
            MapOp::TlGetMutWrite(k, x) => {
                let tl: &mut dyn TableLike = it(item);
                match tl.get_mut(k) {
                    Some(i) if i.is_integer() => {
                        *i = toml_edit::value(*x);
                        "written".into()
                    }
                    Some(_) => "not-int".into(),
                    None => "none".into(),
                }
            }
            MapOp::TlIterMutWrite(x) => {
                let tl: &mut dyn TableLike = it(item);
                for (_, v) in tl.iter_mut() {
                    if v.is_integer() {
                        *v = toml_edit::value(*x);
                    }
                }
                String::new()
            }
            MapOp::IterMutWrite(x) => {
                for (_, v) in it(item).iter_mut() {
                    if v.is_integer() {
                        *v = Value::from(*x);
                    }
                }
                String::new()
            }
        };
        reconcile(m, &it(item).iter().map(|(k, _)| k.to_string()).collect::<Vec<_>>(), &flex);
        (rr, mr)
    }
    fn observe(&self, item: &Item, m: &MapModel) -> Vec<(String, String, String)> {
        let t = item.as_inline_table().unwrap();
        let want = m_obs(m, &KEYS);
        let mut v = vec![("inherent view".to_string(), inline_obs(t), want.clone()), ("dyn TableLike view".to_string(), tablelike_obs(t), want)];
        for k in KEYS {
            let mv = m.iter().find(|(kk, _)| kk == k).map(|(_, v)| v.clone()).filter(|v| v.vis());
            let real = format!("{}/{}", t.contains_key(k), t.get_key_value(k).filter(|(_, i)| !i.is_none()).map(|(kk, _)| kk.get().to_string()).unwrap_or_default());
            let want = format!("{}/{}", mv.is_some(), if mv.is_some() { k } else { "" });
            v.push((format!("contains_key + get_key_value({})", k), real, want));
        }
        let it: Vec<String> = t.clone().into_iter().map(|(k, v)| format!("{}={}", k, show_value(&v))).collect();
        let mi: Vec<String> = m.iter().filter(|(_, v)| v.vis()).map(|(k, v)| format!("{}={}", k, v.show())).collect();
        v.push(("into_iter".to_string(), it.join(","), mi.join(",")));
        let text = t.to_string();
        let printed = match text.parse::<Value>() {
            Ok(Value::InlineTable(p)) => p.iter().map(|(k, v)| format!("{}={}", k, show_value(v))).collect::<Vec<_>>().join(","),
            Ok(_) => format!("NOT-AN-INLINE-TABLE {:?}", text),
            Err(e) => format!("UNPARSABLE {:?}: {}", text, e.message()),
        };
        v.push(("printed value".to_string(), printed, mi.join(",")));
        v
    }
    fn canon(&self, t: &Item, m: &MapModel) -> String {
        format!("{:?}|{:?}", t, m)
    }
    fn classify(&self, m: &MapModel, op: &MapOp, _detail: &str) -> Option<&'static str> {
        // placeholder handling of the entry-style calls (D13 / D14)
        let hole = |k: &str| matches!(m.iter().find(|(kk, _)| kk == k), Some((_, MV::Hole)));
        match op {
            MapOp::GetOrInsert(k, _) if hole(k) => Some("inline-get_or_insert-on-placeholder"),
            MapOp::EntryOrInsert(k, _) | MapOp::EntryOccupiedInsert(k, _) | MapOp::EntryOccupiedRemove(k) if hole(k) => Some("inline-entry-on-placeholder"),
            _ => None,
        }
    }
}

// ---- Array

#[derive(Clone, Debug)]
pub enum ArrOp {
    Push(i64),
    PushFormatted(i64),
    Insert(usize, i64),
    InsertFormatted(usize, i64),
    Replace(usize, i64),
    ReplaceFormatted(usize, i64),
    Remove(usize),
    RetainNot(i64),
    /// a STATEFUL predicate (keeps the elements it is shown 1st, 3rd, ...): elements must be visited once, in order
    RetainOdd,
    SortBy,
    SortByKeyRev,
    Clear,
    Extend(Vec<i64>),
    GetMutWrite(usize, i64),
    IterMutWrite(i64),
    IndexMutWrite(usize, i64),
}

pub struct ArraySys {
    pub max_len: usize,
}

impl Sys for ArraySys {
    type Real = Item;
    type Model = Vec<i64>;
    type Op = ArrOp;
    fn name(&self) -> &'static str {
        "Array"
    }
    fn init(&self) -> Vec<(String, Item, Vec<i64>)> {
        let mut v = vec![("empty".to_string(), Item::Value(Value::Array(Array::new())), vec![])];
        let parsed: Value = "[ 3 , # c\n 1, ]".parse().unwrap();
        v.push(("parsed `[ 3 , # c / 1, ]`".to_string(), Item::Value(parsed), vec![3, 1]));
        v
    }
    fn ops(&self, m: &Vec<i64>) -> Vec<ArrOp> {
        let mut v = Vec::new();
        let n = m.len();
        if n < self.max_len {
            for x in [1, 2, 3] {
                v.push(ArrOp::Push(x));
                for i in 0..=n {
                    v.push(ArrOp::Insert(i, x));
                }
            }
            v.push(ArrOp::PushFormatted(2));
            for i in 0..=n {
                v.push(ArrOp::InsertFormatted(i, 3));
            }
            if n + 2 <= self.max_len {
                v.push(ArrOp::Extend(vec![2, 1]));
            }
        }
        for i in 0..n {
            v.push(ArrOp::Replace(i, 2));
            v.push(ArrOp::Replace(i, 3));
            v.push(ArrOp::ReplaceFormatted(i, 1));
            v.push(ArrOp::Remove(i));
            v.push(ArrOp::GetMutWrite(i, 1));
            v.push(ArrOp::IndexMutWrite(i, 3));
        }
        v.push(ArrOp::RetainNot(1));
        v.push(ArrOp::RetainNot(3));
        v.push(ArrOp::RetainOdd);
        v.push(ArrOp::SortBy);
        v.push(ArrOp::SortByKeyRev);
        v.push(ArrOp::Clear);
        v.push(ArrOp::IterMutWrite(2));
        v
    }
    fn step(&self, item: &mut Item, m: &mut Vec<i64>, op: &ArrOp) -> (String, String) {
        fn a(i: &mut Item) -> &mut Array {
            i.as_array_mut().unwrap()
        }
        let sv = |v: &Value| v.as_integer().map(|x| x.to_string()).unwrap_or_else(|| format!("?{}", v.type_name()));
        match op {
            ArrOp::Push(x) => {
                a(item).push(*x);
                m.push(*x);
                (String::new(), String::new())
            }
            ArrOp::PushFormatted(x) => {
                a(item).push_formatted(Value::from(*x));
                m.push(*x);
                (String::new(), String::new())
            }
            ArrOp::Insert(i, x) => {
                a(item).insert(*i, *x);
                m.insert(*i, *x);
                (String::new(), String::new())
            }
            ArrOp::InsertFormatted(i, x) => {
                a(item).insert_formatted(*i, Value::from(*x));
                m.insert(*i, *x);
                (String::new(), String::new())
            }
            ArrOp::Replace(i, x) => {
                let r = sv(&a(item).replace(*i, *x));
                let old = std::mem::replace(&mut m[*i], *x);
                (r, old.to_string())
            }
            ArrOp::ReplaceFormatted(i, x) => {
                let r = sv(&a(item).replace_formatted(*i, Value::from(*x)));
                let old = std::mem::replace(&mut m[*i], *x);
                (r, old.to_string())
            }
            ArrOp::Remove(i) => {
                let r = sv(&a(item).remove(*i));
                (r, m.remove(*i).to_string())
            }
            ArrOp::RetainNot(x) => {
                a(item).retain(|v| v.as_integer() != Some(*x));
                m.retain(|v| v != x);
                (String::new(), String::new())
            }
            ArrOp::RetainOdd => {
                let mut seen: Vec<i64> = Vec::new();
                a(item).retain(|v| {
                    seen.push(v.as_integer().unwrap_or(-1));
                    seen.len() % 2 == 1
                });
                let mut mseen: Vec<i64> = Vec::new();
                m.retain(|v| {
                    mseen.push(*v);
                    mseen.len() % 2 == 1
                });
                (format!("visited {:?}", seen), format!("visited {:?}", mseen))
            }
            ArrOp::SortBy => {
                a(item).sort_by(|p, q| p.as_integer().cmp(&q.as_integer()));
                m.sort();
                (String::new(), String::new())
            }
            ArrOp::SortByKeyRev => {
                a(item).sort_by_key(|v| std::cmp::Reverse(v.as_integer()));
                m.sort_by_key(|v| std::cmp::Reverse(*v));
                (String::new(), String::new())
            }
            ArrOp::Clear => {
                a(item).clear();
                m.clear();
                (String::new(), String::new())
            }
            ArrOp::Extend(xs) => {
                a(item).extend(xs.iter().copied());
                m.extend(xs.iter().copied());
                (String::new(), String::new())
            }
            ArrOp::GetMutWrite(i, x) => {
                let r = match a(item).get_mut(*i) {
                    Some(v) => {
                        *v = Value::from(*x);
                        "written"
                    }
                    None => "none",
                };
                m[*i] = *x;
                (r.to_string(), "written".to_string())
            }
            ArrOp::IndexMutWrite(i, x) => {
                item[*i] = toml_edit::value(*x);
                m[*i] = *x;
                (String::new(), String::new())
            }
            ArrOp::IterMutWrite(x) => {
                for v in a(item).iter_mut() {
                    *v = Value::from(*x);
                }
                for v in m.iter_mut() {
                    *v = *x;
                }
                (String::new(), String::new())
            }
        }
    }
    fn observe(&self, item: &Item, m: &Vec<i64>) -> Vec<(String, String, String)> {
        let a = item.as_array().unwrap();
        let sv = |v: &Value| v.as_integer().map(|x| x.to_string()).unwrap_or_else(|| format!("?{}", v.type_name()));
        let real = format!(
            "len={} empty={} iter=[{}] get=[{}] oob={}",
            a.len(),
            a.is_empty(),
            a.iter().map(sv).collect::<Vec<_>>().join(","),
            (0..m.len()).map(|i| opt(a.get(i).map(sv))).collect::<Vec<_>>().join(","),
            a.get(m.len()).is_none()
        );
        let want = format!("len={} empty={} iter=[{}] get=[{}] oob=true", m.len(), m.is_empty(), m.iter().map(|x| x.to_string()).collect::<Vec<_>>().join(","), m.iter().map(|x| x.to_string()).collect::<Vec<_>>().join(","));
        let text = a.to_string();
        let printed = match text.parse::<Value>() {
            Ok(Value::Array(p)) => p.iter().map(sv).collect::<Vec<_>>().join(","),
            Ok(_) => format!("NOT-AN-ARRAY {:?}", text),
            Err(e) => format!("UNPARSABLE {:?}: {}", text, e.message()),
        };
        let via_index: Vec<String> = (0..m.len()).map(|i| item.get(i).and_then(|x| x.as_integer()).map(|x| x.to_string()).unwrap_or("none".into())).collect();
        let into: Vec<String> = a.clone().into_iter().map(|v| sv(&v)).collect();
        vec![
            ("observation".to_string(), real, want),
            ("printed value".to_string(), printed, m.iter().map(|x| x.to_string()).collect::<Vec<_>>().join(",")),
            ("item[i]".to_string(), via_index.join(","), m.iter().map(|x| x.to_string()).collect::<Vec<_>>().join(",")),
            ("into_iter".to_string(), into.join(","), m.iter().map(|x| x.to_string()).collect::<Vec<_>>().join(",")),
        ]
    }
    fn canon(&self, t: &Item, m: &Vec<i64>) -> String {
        format!("{:?}|{:?}", t, m)
    }
}

// ---- ArrayOfTables

#[derive(Clone, Debug)]
pub enum AotOp {
    Push(i64),
    Remove(usize),
    RetainNot(i64),
    RetainOdd,
    Clear,
    Extend(Vec<i64>),
    GetMutWrite(usize, i64),
    IterMutWrite(i64),
}

pub struct AotSys {
    pub max_len: usize,
}

fn tab(id: i64) -> Table {
    let mut t = Table::new();
    t.insert("id", toml_edit::value(id));
    t
}
fn tid(t: &Table) -> String {
    t.get("id").and_then(|i| i.as_integer()).map(|x| x.to_string()).unwrap_or("?".into())
}

impl Sys for AotSys {
    type Real = Item;
    type Model = Vec<i64>;
    type Op = AotOp;
    fn name(&self) -> &'static str {
        "ArrayOfTables"
    }
    fn init(&self) -> Vec<(String, Item, Vec<i64>)> {
        let mut v = vec![("empty".to_string(), Item::ArrayOfTables(ArrayOfTables::new()), vec![])];
        let d: toml_edit::DocumentMut = "[[t]]\nid = 3 # c\n[[t]]\nid = 1\n".parse().unwrap();
        v.push(("parsed `[[t]] id = 3 / [[t]] id = 1`".to_string(), d["t"].clone(), vec![3, 1]));
        v
    }
    fn ops(&self, m: &Vec<i64>) -> Vec<AotOp> {
        let mut v = Vec::new();
        let n = m.len();
        if n < self.max_len {
            for x in [1, 2, 3] {
                v.push(AotOp::Push(x));
            }
            if n + 2 <= self.max_len {
                v.push(AotOp::Extend(vec![2, 1]));
            }
        }
        for i in 0..n {
            v.push(AotOp::Remove(i));
            v.push(AotOp::GetMutWrite(i, 2));
        }
        v.push(AotOp::RetainNot(1));
        v.push(AotOp::RetainNot(3));
        v.push(AotOp::RetainOdd);
        v.push(AotOp::Clear);
        v.push(AotOp::IterMutWrite(3));
        v
    }
    fn step(&self, item: &mut Item, m: &mut Vec<i64>, op: &AotOp) -> (String, String) {
        fn a(i: &mut Item) -> &mut ArrayOfTables {
            i.as_array_of_tables_mut().unwrap()
        }
        match op {
            AotOp::Push(x) => {
                a(item).push(tab(*x));
                m.push(*x);
            }
            AotOp::Remove(i) => {
                a(item).remove(*i);
                m.remove(*i);
            }
            AotOp::RetainNot(x) => {
                a(item).retain(|t| tid(t) != x.to_string());
                m.retain(|v| v != x);
            }
            AotOp::RetainOdd => {
                let mut seen: Vec<String> = Vec::new();
                a(item).retain(|t| {
                    seen.push(tid(t));
                    seen.len() % 2 == 1
                });
                let mut mseen: Vec<String> = Vec::new();
                m.retain(|v| {
                    mseen.push(v.to_string());
                    mseen.len() % 2 == 1
                });
                return (format!("visited {:?}", seen), format!("visited {:?}", mseen));
            }
            AotOp::Clear => {
                a(item).clear();
                m.clear();
            }
            AotOp::Extend(xs) => {
                a(item).extend(xs.iter().map(|x| tab(*x)));
                m.extend(xs.iter().copied());
            }
            AotOp::GetMutWrite(i, x) => {
                if let Some(t) = a(item).get_mut(*i) {
                    t["id"] = toml_edit::value(*x);
                }
                m[*i] = *x;
            }
            AotOp::IterMutWrite(x) => {
                for t in a(item).iter_mut() {
                    t["id"] = toml_edit::value(*x);
                }
                for v in m.iter_mut() {
                    *v = *x;
                }
            }
        }
        (String::new(), String::new())
    }
    fn observe(&self, item: &Item, m: &Vec<i64>) -> Vec<(String, String, String)> {
        let a = item.as_array_of_tables().unwrap();
        let real = format!("len={} empty={} iter=[{}] get=[{}] oob={}", a.len(), a.is_empty(), a.iter().map(tid).collect::<Vec<_>>().join(","), (0..m.len()).map(|i| opt(a.get(i).map(tid))).collect::<Vec<_>>().join(","), a.get(m.len()).is_none());
        let ms = m.iter().map(|x| x.to_string()).collect::<Vec<_>>().join(",");
        let want = format!("len={} empty={} iter=[{}] get=[{}] oob=true", m.len(), m.is_empty(), ms, ms);
        // printed inside a document
        let mut doc = toml_edit::DocumentMut::new();
        doc.insert("t", item.clone());
        let text = doc.to_string();
        let printed = match text.parse::<toml_edit::DocumentMut>() {
            Ok(d) => match d.get("t") {
                Some(Item::ArrayOfTables(p)) => p.iter().map(tid).collect::<Vec<_>>().join(","),
                None => String::new(),
                Some(other) => format!("NOT-AN-ARRAY-OF-TABLES {}", other.type_name()),
            },
            Err(e) => format!("UNPARSABLE {:?}: {}", text, e.message()),
        };
        let into_array: Vec<String> = a.clone().into_array().iter().map(|v| v.as_inline_table().and_then(|t| t.get("id")).and_then(|x| x.as_integer()).map(|x| x.to_string()).unwrap_or("?".into())).collect();
        let into: Vec<String> = a.clone().into_iter().map(|t| tid(&t)).collect();
        vec![("observation".to_string(), real, want), ("printed document".to_string(), printed, ms.clone()), ("into_array".to_string(), into_array.join(","), ms.clone()), ("into_iter".to_string(), into.join(","), ms)]
    }
    fn canon(&self, t: &Item, m: &Vec<i64>) -> String {
        format!("{:?}|{:?}", t, m)
    }
}

// ---- toml::Map (configuration compiled in: BTreeMap unless the `preserve_order` feature is on)

#[derive(Clone, Debug)]
pub enum TmOp {
    Insert(&'static str, i64),
    Remove(&'static str),
    RemoveEntry(&'static str),
    EntryOrInsert(&'static str, i64),
    EntryOccupiedInsert(&'static str, i64),
    EntryOccupiedRemove(&'static str),
    GetMutWrite(&'static str, i64),
    RetainKeyNot(&'static str),
    RetainValueNot(i64),
    RetainOdd,
    Clear,
    Extend(Vec<(&'static str, i64)>),
    IterMutWrite(i64),
}

pub struct TomlMapSys {
    pub preserve_order: bool,
}

impl TomlMapSys {
    fn norm(&self, m: &mut Vec<(String, i64)>) {
        if !self.preserve_order {
            m.sort_by(|a, b| a.0.cmp(&b.0));
        }
    }
}

impl Sys for TomlMapSys {
    type Real = toml::map::Map<String, toml::Value>;
    type Model = Vec<(String, i64)>;
    type Op = TmOp;
    fn name(&self) -> &'static str {
        "toml::Map"
    }
    fn init(&self) -> Vec<(String, Self::Real, Self::Model)> {
        let mut v = vec![("empty".to_string(), toml::map::Map::new(), vec![])];
        let parsed: toml::Table = "b = 1\nc = 3\na = 2\n".parse().unwrap();
        let mut m = vec![("b".to_string(), 1), ("c".to_string(), 3), ("a".to_string(), 2)];
        self.norm(&mut m);
        v.push(("parsed `b = 1 / c = 3 / a = 2`".to_string(), parsed, m));
        v
    }
    fn ops(&self, _m: &Self::Model) -> Vec<TmOp> {
        let mut v = Vec::new();
        for k in KEYS {
            for x in [1, 2] {
                v.push(TmOp::Insert(k, x));
                v.push(TmOp::EntryOrInsert(k, x));
            }
            v.push(TmOp::EntryOccupiedInsert(k, 3));
            v.push(TmOp::Remove(k));
            v.push(TmOp::RemoveEntry(k));
            v.push(TmOp::EntryOccupiedRemove(k));
            v.push(TmOp::GetMutWrite(k, 3));
        }
        v.push(TmOp::RetainKeyNot("b"));
        v.push(TmOp::RetainValueNot(1));
        v.push(TmOp::RetainOdd);
        v.push(TmOp::Clear);
        v.push(TmOp::Extend(vec![("c", 1), ("a", 2)]));
        v.push(TmOp::IterMutWrite(1));
        v
    }
    fn step(&self, r: &mut Self::Real, m: &mut Self::Model, op: &TmOp) -> (String, String) {
        let iv = |v: &toml::Value| v.as_integer().map(|x| x.to_string()).unwrap_or("?".into());
        let pos = |m: &Self::Model, k: &str| m.iter().position(|(kk, _)| kk == k);
        let out = match op {
            TmOp::Insert(k, x) => {
                let rr = opt(r.insert(k.to_string(), toml::Value::Integer(*x)).as_ref().map(iv));
                let mr = match pos(m, k) {
                    Some(i) => Some(std::mem::replace(&mut m[i].1, *x)),
                    None => {
                        m.push((k.to_string(), *x));
                        None
                    }
                };
                (rr, opt(mr.map(|x| x.to_string())))
            }
            TmOp::Remove(k) => (opt(r.remove(*k).as_ref().map(iv)), opt(pos(m, k).map(|i| m.remove(i).1.to_string()))),
            TmOp::RemoveEntry(k) => {
                // (toml::Map has no remove_entry: get_key_value followed by remove)
                let rr = opt(r.get_key_value(*k).map(|(kk, v)| format!("{}={}", kk, iv(v))));
                r.remove(*k);
                (rr, opt(pos(m, k).map(|i| m.remove(i)).map(|(kk, v)| format!("{}={}", kk, v))))
            }
            TmOp::EntryOrInsert(k, x) => {
                let rr = iv(r.entry(k.to_string()).or_insert(toml::Value::Integer(*x)));
                let mr = match pos(m, k) {
                    Some(i) => m[i].1,
                    None => {
                        m.push((k.to_string(), *x));
                        *x
                    }
                };
                (rr, mr.to_string())
            }
            TmOp::EntryOccupiedInsert(k, x) => {
                let rr = match r.entry(k.to_string()) {
                    toml::map::Entry::Occupied(mut e) => iv(&e.insert(toml::Value::Integer(*x))),
                    _ => "vacant".into(),
                };
                let mr = match pos(m, k) {
                    Some(i) => std::mem::replace(&mut m[i].1, *x).to_string(),
                    None => "vacant".into(),
                };
                (rr, mr)
            }
            TmOp::EntryOccupiedRemove(k) => {
                let rr = match r.entry(k.to_string()) {
                    toml::map::Entry::Occupied(e) => iv(&e.remove()),
                    _ => "vacant".into(),
                };
                let mr = match pos(m, k) {
                    Some(i) => m.remove(i).1.to_string(),
                    None => "vacant".into(),
                };
                (rr, mr)
            }
            TmOp::GetMutWrite(k, x) => {
                let rr = match r.get_mut(*k) {
                    Some(v) => {
                        *v = toml::Value::Integer(*x);
                        "written"
                    }
                    None => "none",
                };
                let mr = match pos(m, k) {
                    Some(i) => {
                        m[i].1 = *x;
                        "written"
                    }
                    None => "none",
                };
                (rr.to_string(), mr.to_string())
            }
            TmOp::RetainKeyNot(k) => {
                r.retain(|kk, _| kk != *k);
                m.retain(|(kk, _)| kk != k);
                (String::new(), String::new())
            }
            TmOp::RetainValueNot(x) => {
                r.retain(|_, v| v.as_integer() != Some(*x));
                m.retain(|(_, v)| v != x);
                (String::new(), String::new())
            }
            TmOp::RetainOdd => {
                let mut seen: Vec<String> = Vec::new();
                r.retain(|k, _| {
                    seen.push(k.to_string());
                    seen.len() % 2 == 1
                });
                let mut mseen: Vec<String> = Vec::new();
                m.retain(|(k, _)| {
                    mseen.push(k.clone());
                    mseen.len() % 2 == 1
                });
                (format!("visited {:?}", seen), format!("visited {:?}", mseen))
            }
            TmOp::Clear => {
                r.clear();
                m.clear();
                (String::new(), String::new())
            }
            TmOp::Extend(kvs) => {
                r.extend(kvs.iter().map(|(k, v)| (k.to_string(), toml::Value::Integer(*v))));
                for (k, v) in kvs {
                    match pos(m, k) {
                        Some(i) => m[i].1 = *v,
                        None => m.push((k.to_string(), *v)),
                    }
                }
                (String::new(), String::new())
            }
            TmOp::IterMutWrite(x) => {
                for (_, v) in r.iter_mut() {
                    *v = toml::Value::Integer(*x);
                }
                for (_, v) in m.iter_mut() {
                    *v = *x;
                }
                (String::new(), String::new())
            }
        };
        self.norm(m);
        out
    }
    fn observe(&self, r: &Self::Real, m: &Self::Model) -> Vec<(String, String, String)> {
        let iv = |v: &toml::Value| v.as_integer().map(|x| x.to_string()).unwrap_or("?".into());
        let real = format!(
            "len={} empty={} iter=[{}] keys=[{}] values=[{}] get=[{}]",
            r.len(),
            r.is_empty(),
            r.iter().map(|(k, v)| format!("{}={}", k, iv(v))).collect::<Vec<_>>().join(","),
            r.keys().cloned().collect::<Vec<_>>().join(","),
            r.values().map(iv).collect::<Vec<_>>().join(","),
            KEYS.iter().map(|k| format!("{}:{}/{}", k, opt(r.get(*k).map(iv)), r.contains_key(*k))).collect::<Vec<_>>().join(",")
        );
        let want = format!(
            "len={} empty={} iter=[{}] keys=[{}] values=[{}] get=[{}]",
            m.len(),
            m.is_empty(),
            m.iter().map(|(k, v)| format!("{}={}", k, v)).collect::<Vec<_>>().join(","),
            m.iter().map(|(k, _)| k.clone()).collect::<Vec<_>>().join(","),
            m.iter().map(|(_, v)| v.to_string()).collect::<Vec<_>>().join(","),
            KEYS.iter().map(|k| { let g = m.iter().find(|(kk, _)| kk == k).map(|(_, v)| v.to_string()); format!("{}:{}/{}", k, opt(g.clone()), g.is_some()) }).collect::<Vec<_>>().join(",")
        );
        let into: Vec<String> = r.clone().into_iter().map(|(k, v)| format!("{}={}", k, iv(&v))).collect();
        // the iterators are double-ended: back-to-front and mixed-end traversal must be the same sequence reversed
        let rev = {
            let mut c = r.clone();
            let a: Vec<String> = r.iter().rev().map(|(k, v)| format!("{}={}", k, iv(v))).collect();
            let b: Vec<String> = r.keys().rev().cloned().collect();
            let cc: Vec<String> = r.values().rev().map(iv).collect();
            let d: Vec<String> = c.iter_mut().rev().map(|(k, v)| format!("{}={}", k, iv(v))).collect();
            let e: Vec<String> = r.clone().into_iter().rev().map(|(k, v)| format!("{}={}", k, iv(&v))).collect();
            let mut it = r.iter();
            let mut ends = Vec::new();
            loop {
                match it.next() {
                    Some((k, _)) => ends.push(format!("f:{}", k)),
                    None => break,
                }
                match it.next_back() {
                    Some((k, _)) => ends.push(format!("b:{}", k)),
                    None => break,
                }
            }
            format!("iter.rev=[{}] keys.rev=[{}] values.rev=[{}] iter_mut.rev=[{}] into_iter.rev=[{}] ends=[{}] len={}", a.join(","), b.join(","), cc.join(","), d.join(","), e.join(","), ends.join(","), r.iter().len())
        };
        let rev_want = {
            let a: Vec<String> = m.iter().rev().map(|(k, v)| format!("{}={}", k, v)).collect();
            let b: Vec<String> = m.iter().rev().map(|(k, _)| k.clone()).collect();
            let cc: Vec<String> = m.iter().rev().map(|(_, v)| v.to_string()).collect();
            let mut ends = Vec::new();
            let (mut lo, mut hi) = (0usize, m.len());
            loop {
                if lo < hi {
                    ends.push(format!("f:{}", m[lo].0));
                    lo += 1;
                } else {
                    break;
                }
                if lo < hi {
                    hi -= 1;
                    ends.push(format!("b:{}", m[hi].0));
                } else {
                    break;
                }
            }
            format!("iter.rev=[{}] keys.rev=[{}] values.rev=[{}] iter_mut.rev=[{}] into_iter.rev=[{}] ends=[{}] len={}", a.join(","), b.join(","), cc.join(","), a.join(","), a.join(","), ends.join(","), m.len())
        };
        let printed = {
            let text = toml::to_string(r).unwrap_or_else(|e| format!("SER-ERROR {}", e));
            match text.parse::<toml::Table>() {
                Ok(t) => t.iter().map(|(k, v)| format!("{}={}", k, iv(v))).collect::<Vec<_>>().join(","),
                Err(e) => format!("UNPARSABLE {:?}: {}", text, e.message()),
            }
        };
        let mi = m.iter().map(|(k, v)| format!("{}={}", k, v)).collect::<Vec<_>>().join(",");
        vec![("observation".to_string(), real, want), ("into_iter".to_string(), into.join(","), mi.clone()), ("double-ended iteration".to_string(), rev, rev_want), ("printed and re-parsed".to_string(), printed, mi)]
    }
    fn canon(&self, r: &Self::Real, m: &Self::Model) -> String {
        format!("{:?}|{:?}", r.iter().collect::<Vec<_>>(), m)
    }
}


// ================================================================================================
// sort family: wide containers (stability needs > 20 elements and tied keys) and dotted children (recursion)

#[derive(Clone, Debug)]
enum SN {
    Leaf(i64),
    Dot(Vec<(String, SN)>),
}

fn sn_insert(t: &mut Vec<(String, SN)>, path: &[&str], v: i64) {
    if path.len() == 1 {
        t.push((path[0].to_string(), SN::Leaf(v)));
        return;
    }
    if let Some((_, SN::Dot(c))) = t.iter_mut().find(|(k, _)| k == path[0]) {
        sn_insert(c, &path[1..], v);
        return;
    }
    let mut c = Vec::new();
    sn_insert(&mut c, &path[1..], v);
    t.push((path[0].to_string(), SN::Dot(c)));
}

fn sn_val(n: &SN) -> Option<i64> {
    match n {
        SN::Leaf(v) => Some(*v),
        SN::Dot(_) => None,
    }
}

/// the comparators of the family, over (key, integer value if the entry is a scalar)
fn sort_cmp(which: usize, k1: &str, v1: Option<i64>, k2: &str, v2: Option<i64>) -> std::cmp::Ordering {
    match which {
        0 => k1.cmp(k2),
        1 => k2.cmp(k1),
        2 => k1.len().cmp(&k2.len()),
        _ => v1.map(|v| v % 2).cmp(&v2.map(|v| v % 2)),
    }
}
const SORT_CMP_NAMES: [&str; 4] = ["sort_values()", "sort_values_by(reverse key order)", "sort_values_by(key length: all tie)", "sort_values_by(value mod 2, tables first)"];

fn sn_sort(t: &mut Vec<(String, SN)>, which: usize) {
    t.sort_by(|a, b| sort_cmp(which, &a.0, sn_val(&a.1), &b.0, sn_val(&b.1)));
    for (_, c) in t.iter_mut() {
        if let SN::Dot(c) = c {
            sn_sort(c, which);
        }
    }
}

fn sn_flat(t: &[(String, SN)], prefix: &str, out: &mut Vec<String>) {
    for (k, n) in t {
        let p = if prefix.is_empty() { k.clone() } else { format!("{}.{}", prefix, k) };
        match n {
            SN::Leaf(v) => out.push(format!("{}={}", p, v)),
            SN::Dot(c) => sn_flat(c, &p, out),
        }
    }
}

fn flat_real(vals: Vec<(Vec<&Key>, &Value)>) -> Vec<String> {
    vals.into_iter().map(|(ks, v)| format!("{}={}", ks.iter().map(|k| k.get()).collect::<Vec<_>>().join("."), v.as_integer().map(|x| x.to_string()).unwrap_or_else(|| "?".into()))).collect()
}

const SORT_PATHS: [&[&str]; 7] = [&["a"], &["c"], &["b", "x"], &["b", "y"], &["b", "z"], &["b", "m", "p"], &["b", "m", "q"]];

fn permutations(n: usize) -> Vec<Vec<usize>> {
    fn rec(cur: &mut Vec<usize>, used: &mut Vec<bool>, n: usize, out: &mut Vec<Vec<usize>>) {
        if cur.len() == n {
            out.push(cur.clone());
            return;
        }
        for i in 0..n {
            if !used[i] {
                used[i] = true;
                cur.push(i);
                rec(cur, used, n, out);
                cur.pop();
                used[i] = false;
            }
        }
    }
    let mut out = Vec::new();
    rec(&mut Vec::new(), &mut vec![false; n], n, &mut out);
    out
}

/// one dotted-children case: the paths in the given order as a document (standard root table) or as one inline table
fn sort_dotted_case(perm: &[usize], inline: bool, which: usize) -> Result<(), String> {
    let mut model: Vec<(String, SN)> = Vec::new();
    let mut parts: Vec<String> = Vec::new();
    for &i in perm {
        sn_insert(&mut model, SORT_PATHS[i], i as i64);
        parts.push(format!("{} = {}", SORT_PATHS[i].join("."), i));
    }
    sn_sort(&mut model, which);
    let mut want = Vec::new();
    sn_flat(&model, "", &mut want);
    let (got, printed) = if inline {
        let mut v: Value = format!("{{ {} }}", parts.join(", ")).parse().map_err(|e: toml_edit::TomlError| format!("start value rejected: {}", e.message()))?;
        let t = v.as_inline_table_mut().ok_or("not an inline table")?;
        match which {
            0 => t.sort_values(),
            w => t.sort_values_by(|k1, v1, k2, v2| sort_cmp(w, k1.get(), v1.as_integer(), k2.get(), v2.as_integer())),
        }
        let got = flat_real(t.get_values());
        let text = v.to_string();
        let back: Value = text.parse().map_err(|e: toml_edit::TomlError| format!("printed {:?} does not re-parse: {}", text, e.message()))?;
        (got, flat_real(back.as_inline_table().ok_or("not an inline table")?.get_values()))
    } else {
        let mut d: toml_edit::DocumentMut = (parts.join("\n") + "\n").parse().map_err(|e: toml_edit::TomlError| format!("start document rejected: {}", e.message()))?;
        let t = d.as_table_mut();
        match which {
            0 => t.sort_values(),
            w => t.sort_values_by(|k1, v1, k2, v2| sort_cmp(w, k1.get(), v1.as_integer(), k2.get(), v2.as_integer())),
        }
        let got = flat_real(t.get_values());
        let text = d.to_string();
        let back: toml_edit::DocumentMut = text.parse().map_err(|e: toml_edit::TomlError| format!("printed {:?} does not re-parse: {}", text, e.message()))?;
        (got, flat_real(back.as_table().get_values()))
    };
    if got != want {
        return Err(format!("get_values() after the sort = [{}], reference ordered tree (same comparator at every dotted level) = [{}]", got.join(", "), want.join(", ")));
    }
    if printed != want {
        return Err(format!("printed and re-parsed order = [{}], reference = [{}]", printed.join(", "), want.join(", ")));
    }
    Ok(())
}

/// wide sequences: n distinct values, rotated by r, forwards or backwards
fn wide_values(n: usize, r: usize, rev: bool) -> Vec<i64> {
    let mut v: Vec<i64> = (0..n).map(|i| ((i + r) % n.max(1)) as i64).collect();
    if rev {
        v.reverse();
    }
    v
}

fn sort_wide_case(kind: usize, n: usize, r: usize, rev: bool, k: i64, op: usize) -> Result<(), String> {
    let vals = wide_values(n, r, rev);
    let show = |v: &[i64]| v.iter().map(|x| x.to_string()).collect::<Vec<_>>().join(",");
    match kind {
        0 => {
            // Array
            let mut a: Array = vals.iter().copied().collect();
            let mut m = vals.clone();
            match op {
                0 => {
                    a.sort_by(|p, q| (p.as_integer().unwrap_or(0) % k).cmp(&(q.as_integer().unwrap_or(0) % k)));
                    m.sort_by(|p, q| (p % k).cmp(&(q % k)));
                }
                1 => {
                    a.sort_by_key(|v| v.as_integer().unwrap_or(0) % k);
                    m.sort_by_key(|v| v % k);
                }
                _ => {
                    a.sort_by_key(|v| std::cmp::Reverse(v.as_integer().unwrap_or(0) % k));
                    m.sort_by_key(|v| std::cmp::Reverse(v % k));
                }
            }
            let got: Vec<i64> = a.iter().map(|v| v.as_integer().unwrap_or(-1)).collect();
            if got != m {
                return Err(format!("Array of {} elements: after the sort [{}], reference Vec (stable) [{}]", n, show(&got), show(&m)));
            }
        }
        _ => {
            // Table (1) / InlineTable (2): keys k00.., comparator on the values only
            let mut m: Vec<(String, i64)> = vals.iter().enumerate().map(|(i, v)| (format!("k{:02}", i), *v)).collect();
            let got: Vec<String> = if kind == 1 {
                let mut t = Table::new();
                for (key, v) in &m {
                    t.insert(key, toml_edit::value(*v));
                }
                match op {
                    0 => t.sort_values_by(|_, v1, _, v2| (v1.as_integer().unwrap_or(0) % k).cmp(&(v2.as_integer().unwrap_or(0) % k))),
                    1 => t.sort_values_by(|_, v1, _, v2| (v2.as_integer().unwrap_or(0) % k).cmp(&(v1.as_integer().unwrap_or(0) % k))),
                    _ => {
                        let tl: &mut dyn TableLike = &mut t;
                        tl.sort_values();
                    }
                }
                t.iter().map(|(key, _)| key.to_string()).collect()
            } else {
                let mut t = InlineTable::new();
                for (key, v) in &m {
                    t.insert(key, Value::from(*v));
                }
                match op {
                    0 => t.sort_values_by(|_, v1, _, v2| (v1.as_integer().unwrap_or(0) % k).cmp(&(v2.as_integer().unwrap_or(0) % k))),
                    1 => t.sort_values_by(|_, v1, _, v2| (v2.as_integer().unwrap_or(0) % k).cmp(&(v1.as_integer().unwrap_or(0) % k))),
                    _ => {
                        let tl: &mut dyn TableLike = &mut t;
                        tl.sort_values();
                    }
                }
                t.iter().map(|(key, _)| key.to_string()).collect()
            };
            match op {
                0 => m.sort_by(|a, b| (a.1 % k).cmp(&(b.1 % k))),
                1 => m.sort_by(|a, b| (b.1 % k).cmp(&(a.1 % k))),
                _ => m.sort_by(|a, b| a.0.cmp(&b.0)),
            }
            let want: Vec<String> = m.iter().map(|(key, _)| key.clone()).collect();
            if got != want {
                return Err(format!("{} of {} entries: key order after the sort [{}], reference Vec (stable) [{}]", if kind == 1 { "Table" } else { "InlineTable" }, n, got.join(","), want.join(",")));
            }
        }
    }
    Ok(())
}


/// borrowed iteration, owning iteration and printing must agree on which slots of an array / array of tables hold an
/// element, whatever was written into the slots through mutable indexing (nothing, or an item of the wrong kind)
fn slot_family(rep: &mut Report) {
    let t0 = std::time::Instant::now();
    let mut cases: Vec<(bool, usize, Vec<u8>)> = Vec::new();
    for aot in [false, true] {
        for n in 1..=4usize {
            for code in 1..3usize.pow(n as u32) {
                let states: Vec<u8> = (0..n).map(|i| ((code / 3usize.pow(i as u32)) % 3) as u8).collect();
                cases.push((aot, n, states));
            }
        }
    }
    let acc = cases
        .par_iter()
        .fold(Acc::default, |mut acc, (aot, n, states)| {
            acc.evals += 1;
            let label = format!("{} of {} elements, slots {:?} (0 = kept, 1 = vacated with mem::take, 2 = overwritten with an item of the wrong kind)", if *aot { "array of tables" } else { "array" }, n, states);
            acc.nontrivial(label.as_bytes());
            let r = guarded(|| -> Result<(), String> {
                let want: Vec<String> = (0..*n).filter(|i| states[*i] == 0).map(|i| (i + 1).to_string()).collect();
                let text: String = if *aot { (1..=*n).map(|v| format!("[[t]]\nid = {}\n", v)).collect() } else { format!("t = [{}]\n", (1..=*n).map(|v| v.to_string()).collect::<Vec<_>>().join(", ")) };
                let mut doc: toml_edit::DocumentMut = text.parse().map_err(|e: toml_edit::TomlError| e.to_string())?;
                for (i, st) in states.iter().enumerate() {
                    match st {
                        1 => {
                            let _ = std::mem::take(&mut doc["t"][i]);
                        }
                        2 => {
                            doc["t"][i] = if *aot { toml_edit::value(99) } else { Item::Table(tab(99)) };
                        }
                        _ => {}
                    }
                }
                let (borrowed, owned): (Vec<String>, Vec<String>) = if *aot {
                    let a = doc["t"].as_array_of_tables().ok_or("not an array of tables any more")?;
                    (a.iter().map(tid).collect(), a.clone().into_iter().map(|t| tid(&t)).collect())
                } else {
                    let a = doc["t"].as_array().ok_or("not an array any more")?;
                    let sv = |v: &Value| v.as_integer().map(|x| x.to_string()).unwrap_or_else(|| format!("?{}", v.type_name()));
                    (a.iter().map(sv).collect(), a.clone().into_iter().map(|v| sv(&v)).collect())
                };
                if borrowed != want {
                    return Err(format!("iter() yields [{}], the untouched elements are [{}]", borrowed.join(","), want.join(",")));
                }
                if owned != want {
                    return Err(format!("into_iter() yields [{}] but iter() yields [{}]", owned.join(","), borrowed.join(",")));
                }
                let printed = doc.to_string();
                let back: toml_edit::DocumentMut = printed.parse().map_err(|e: toml_edit::TomlError| format!("printed text {:?} does not parse: {}", printed, e.message()))?;
                let shown: Vec<String> = match back.get("t") {
                    None => Vec::new(),
                    Some(Item::ArrayOfTables(a)) => a.iter().map(tid).collect(),
                    Some(Item::Value(Value::Array(a))) => a.iter().map(|v| v.as_integer().map(|x| x.to_string()).unwrap_or_else(|| "?".into())).collect(),
                    Some(o) => return Err(format!("printed text {:?} turns `t` into a {}", printed, o.type_name())),
                };
                if shown != want {
                    return Err(format!("printed text {:?} shows [{}], iteration yields [{}]", printed, shown.join(","), want.join(",")));
                }
                Ok(())
            });
            match r {
                Ok(Ok(())) => {
                    acc.bump("slot-views-agree");
                    acc.sample(|| label.clone());
                }
                Ok(Err(e)) => acc.viol("U-slots", label, None, e),
                Err(p) => acc.viol("U-slots", label, None, format!("panic: {}", p)),
            }
            acc
        })
        .reduce(Acc::default, Acc::merge);
    let n = cases.len() as u64;
    rep.transitions = Some(rep.transitions.unwrap_or(0) + n);
    rep.traces_validated += n;
    rep.absorb("U-slots", "arrays and arrays of tables of 1-4 elements x every assignment of {kept, vacated, overwritten with the wrong kind of item} to the slots: iter(), into_iter() and the printed text must show the same elements", n, true, t0, acc);
}

/// (c) a sort must not reach into what it does not own: non-dotted inline tables, arrays of inline tables, sub-tables and
/// arrays of tables below the sorted container keep their own entry order ("doesn't affect subtables or subarrays")
fn sort_depth_case(perm: &[usize], inline: bool, which: usize) -> Result<(), String> {
    const VALS: [&str; 4] = ["v = { z = 1, a = 2, m = { y = 1, b = 2 } }", "w = [{ z = 1, a = 2 }, { y = 1, b = 2 }]", "s = 0", "d.z = { q = 1, c = 2 }"];
    let parts: Vec<&str> = perm.iter().map(|i| VALS[*i]).collect();
    fn keys_of(t: &dyn TableLike) -> String {
        t.iter().map(|(k, _)| k.to_string()).collect::<Vec<_>>().join(",")
    }
    fn inner(t: &dyn TableLike) -> Result<String, String> {
        let mut out = Vec::new();
        let v = t.get("v").and_then(|i| i.as_inline_table()).ok_or("v lost")?;
        out.push(format!("v:{}", keys_of(v)));
        out.push(format!("v.m:{}", keys_of(v.get("m").and_then(|m| m.as_inline_table()).ok_or("v.m lost")?)));
        let w = t.get("w").and_then(|i| i.as_array()).ok_or("w lost")?;
        for (i, e) in w.iter().enumerate() {
            out.push(format!("w[{}]:{}", i, keys_of(e.as_inline_table().ok_or("w element lost")?)));
        }
        let dz = t.get("d").and_then(|d| d.as_table_like()).and_then(|d| d.get("z")).and_then(|z| z.as_inline_table()).ok_or("d.z lost")?;
        out.push(format!("d.z:{}", keys_of(dz)));
        if let Some(tt) = t.get("t").and_then(|i| i.as_table()) {
            out.push(format!("t:{}", keys_of(tt)));
            out.push(format!("t.i:{}", keys_of(tt.get("i").and_then(|m| m.as_inline_table()).ok_or("t.i lost")?)));
        }
        if let Some(u) = t.get("u").and_then(|i| i.as_array_of_tables()) {
            for (i, e) in u.iter().enumerate() {
                out.push(format!("u[{}]:{}", i, keys_of(e)));
            }
        }
        Ok(out.join(" "))
    }
    let cmp = |w: usize, k1: &str, k2: &str| match w {
        1 => k2.cmp(k1),
        2 => k1.len().cmp(&k2.len()).then(k1.cmp(k2)),
        _ => k1.cmp(k2),
    };
    let (before, after, top) = if inline {
        let mut v: Value = format!("{{ {} }}", parts.join(", ")).parse().map_err(|e: toml_edit::TomlError| format!("start value rejected: {}", e.message()))?;
        let t = v.as_inline_table_mut().ok_or("not an inline table")?;
        let before = inner(t)?;
        match which {
            0 => t.sort_values(),
            3 => {
                let tl: &mut dyn TableLike = t;
                tl.sort_values();
            }
            w => t.sort_values_by(|k1, _, k2, _| cmp(w, k1.get(), k2.get())),
        }
        (before, inner(t)?, keys_of(t))
    } else {
        let text = format!("{}\n[t]\nz = 1\na = 2\ni = {{ y = 1, b = 2 }}\n[[u]]\nz = 1\na = 2\n[[u]]\ny = 1\nb = 2\n", parts.join("\n"));
        let mut d: toml_edit::DocumentMut = text.parse().map_err(|e: toml_edit::TomlError| format!("start document rejected: {}", e.message()))?;
        let t = d.as_table_mut();
        let before = inner(t)?;
        match which {
            0 => t.sort_values(),
            3 => {
                let tl: &mut dyn TableLike = t;
                tl.sort_values();
            }
            w => t.sort_values_by(|k1, _, k2, _| cmp(w, k1.get(), k2.get())),
        }
        (before, inner(t)?, keys_of(t))
    };
    if before != after {
        return Err(format!("the sort reordered entries of a container it does not own: before [{}], after [{}]", before, after));
    }
    let mut want: Vec<&str> = top.split(',').collect();
    let got = want.clone();
    want.sort_by(|a, b| cmp(if which == 3 { 0 } else { which }, a, b));
    if got != want {
        return Err(format!("top-level order after the sort [{}], reference [{}]", got.join(","), want.join(",")));
    }
    Ok(())
}

fn sort_family(rep: &mut Report, tier: Tier) {
    // (c) what a sort must leave alone
    {
        let t0 = std::time::Instant::now();
        let perms = permutations(4);
        let cases: Vec<(usize, bool, usize)> = (0..perms.len()).flat_map(|p| [false, true].into_iter().flat_map(move |inl| (0..4).map(move |w| (p, inl, w)))).collect();
        let mut acc = Acc::default();
        for (p, inl, w) in &cases {
            acc.evals += 1;
            let label = format!("{} holding an inline table, an array of inline tables, a scalar and a dotted table (order {:?}){}, then {}", if *inl { "inline table" } else { "root table" }, perms[*p], if *inl { "" } else { ", a sub-table and an array of tables" }, ["sort_values", "sort_values_by(reversed keys)", "sort_values_by(key length, key)", "dyn TableLike::sort_values"][*w]);
            acc.nontrivial(label.as_bytes());
            match guarded(|| sort_depth_case(&perms[*p], *inl, *w)) {
                Ok(Ok(())) => acc.bump("sort-agrees"),
                Ok(Err(e)) => acc.viol("U-sort", label, None, e),
                Err(p) => acc.viol("U-sort", label, None, format!("panic: {}", p)),
            }
        }
        let n = cases.len() as u64;
        rep.transitions = Some(rep.transitions.unwrap_or(0) + n);
        rep.traces_validated += n;
        rep.absorb("U-sort(depth)", "root table / inline table holding a non-dotted inline table (nested twice), an array of inline tables, a scalar, a dotted table with an inline-table leaf (every order), a sub-table and an array of tables x 4 sort calls: the children's own entry order must not change", n, true, t0, acc);
    }
    // (a) dotted children
    let t0 = std::time::Instant::now();
    // every non-empty subset of the paths in every order (a parent with ONE entry that is a dotted table matters too)
    let mut perms: Vec<Vec<usize>> = Vec::new();
    for mask in 1u32..(1 << SORT_PATHS.len()) {
        let members: Vec<usize> = (0..SORT_PATHS.len()).filter(|i| mask & (1 << i) != 0).collect();
        for p in permutations(members.len()) {
            perms.push(p.iter().map(|i| members[*i]).collect());
        }
    }
    let cases: Vec<(usize, bool, usize)> = (0..perms.len()).flat_map(|p| [false, true].into_iter().flat_map(move |inl| (0..4).map(move |w| (p, inl, w)))).collect();
    let acc = cases
        .par_iter()
        .fold(Acc::default, |mut acc, (p, inl, w)| {
            acc.evals += 1;
            let label = format!("{} built from `{}`, then {}", if *inl { "inline table" } else { "root table" }, perms[*p].iter().map(|i| SORT_PATHS[*i].join(".")).collect::<Vec<_>>().join(" ; "), SORT_CMP_NAMES[*w]);
            acc.nontrivial(label.as_bytes());
            match guarded(|| sort_dotted_case(&perms[*p], *inl, *w)) {
                Ok(Ok(())) => {
                    acc.bump("sort-agrees");
                    acc.sample(|| label.clone());
                }
                Ok(Err(e)) => acc.viol("U-sort", label, None, e),
                Err(p) => acc.viol("U-sort", label, None, format!("panic: {}", p)),
            }
            acc
        })
        .reduce(Acc::default, Acc::merge);
    let n = cases.len() as u64;
    rep.transitions = Some(rep.transitions.unwrap_or(0) + n);
    rep.traces_validated += n;
    rep.absorb("U-sort(dotted)", &format!("every non-empty subset of the 7 paths a, c, b.x, b.y, b.z, b.m.p, b.m.q in every order ({} sequences) x root table / inline table x 4 comparators", perms.len()), n, true, t0, acc);

    // (b) wide containers
    let t0 = std::time::Instant::now();
    let nmax = tier.pick(40usize, 72usize);
    let mut cases: Vec<(usize, usize, usize, bool, i64, usize)> = Vec::new();
    for kind in 0..3 {
        for n in 0..=nmax {
            for r in 0..n.max(1) {
                for rev in [false, true] {
                    for k in [2i64, 3, 5] {
                        for op in 0..3 {
                            cases.push((kind, n, r, rev, k, op));
                        }
                    }
                }
            }
        }
    }
    let acc = cases
        .par_iter()
        .fold(Acc::default, |mut acc, c| {
            acc.evals += 1;
            let label = format!("{} with {} entries (values 0..n rotated by {}{}), op {} with key = value mod {}", ["Array", "Table", "InlineTable"][c.0], c.1, c.2, if c.3 { ", reversed" } else { "" }, [["sort_by", "sort_by_key", "sort_by_key(Reverse)"], ["sort_values_by", "sort_values_by(reversed)", "dyn TableLike::sort_values"], ["sort_values_by", "sort_values_by(reversed)", "dyn TableLike::sort_values"]][c.0][c.5], c.4);
            acc.nontrivial(label.as_bytes());
            match guarded(|| sort_wide_case(c.0, c.1, c.2, c.3, c.4, c.5)) {
                Ok(Ok(())) => {
                    acc.bump("sort-agrees");
                    acc.sample(|| label.clone());
                }
                Ok(Err(e)) => acc.viol("U-sort", label, None, e),
                Err(p) => acc.viol("U-sort", label, None, format!("panic: {}", p)),
            }
            acc
        })
        .reduce(Acc::default, Acc::merge);
    let n = cases.len() as u64;
    rep.transitions = Some(rep.transitions.unwrap_or(0) + n);
    rep.traces_validated += n;
    rep.absorb("U-sort(wide)", &format!("Array / Table / InlineTable with 0..={} entries, every rotation forwards and backwards, tie-producing keys (value mod 2, 3, 5), 3 sort calls each", nmax), n, true, t0, acc);
}

// ================================================================================================

fn run_sys<S: Sys>(rep: &mut Report, sys: &S, depth_cap: usize, state_cap: usize) {
    let t0 = std::time::Instant::now();
    let res = bfs(sys, depth_cap, state_cap);
    let mut acc = Acc::default();
    acc.evals = res.transitions;
    // every reached state is a distinct non-trivial case by construction (canonical-state deduplication)
    acc.nontrivial_overflow = res.states;
    for s in &res.samples {
        acc.sample(|| format!("{}: {}", sys.name(), s));
    }
    for (path, class, detail) in &res.viols {
        acc.viol("U-hist", format!("{}: {}", sys.name(), path), *class, detail.clone());
    }
    let name = format!("U-hist({})", sys.name());
    let params = format!("explicit-state BFS: {} states, {} transitions, depth {}, closed={}", res.states, res.transitions, res.max_depth, res.closed);
    rep.states = Some(rep.states.unwrap_or(0) + res.states);
    rep.transitions = Some(rep.transitions.unwrap_or(0) + res.transitions);
    rep.traces_validated += res.transitions;
    rep.extra.insert(format!("search_{}", sys.name()), serde_json::json!({"states": res.states, "transitions": res.transitions, "max_depth": res.max_depth, "closed": res.closed}));
    rep.absorb(&name, &params, res.transitions, res.closed || depth_cap < usize::MAX, t0, acc);
    if !res.closed {
        rep.caps.push(format!("{}: search stopped at depth {} / {} states before closure", sys.name(), res.max_depth, res.states));
    }
}

/// whether toml::Map keeps insertion order in this build (decided by observation, not by a cfg of this crate)
fn preserve_order_build() -> bool {
    let mut m = toml::map::Map::new();
    m.insert("b".to_string(), toml::Value::Integer(1));
    m.insert("a".to_string(), toml::Value::Integer(1));
    m.keys().next().map(|k| k == "b").unwrap_or(false)
}

pub fn c16(tier: Tier) -> i32 {
    let mut rep = Report::new(
        "C16",
        tier,
        "model_checking",
        "explicit-state breadth-first search per container: state = (real container, reference ordered map / vector), transition = one real API call (keys {a,b,c}, values {1,2,sub-table / inline table}) applied to both; after every transition the return value and a full observation (len, is_empty, iteration order, get / contains / get_key_value for every key, into_iter, printed and re-parsed text, the dyn TableLike view) are compared; states are deduplicated by the Debug form of the real object plus the model; runs until the reachable set closes (quick: depth cap)",
    );
    rep.assumptions = vec![
        "Item::None read as 'absent', which is how the library spells absence; placeholders reserve their slot but are invisible".into(),
        "only precondition-respecting calls (index < len) are in the alphabet; array lengths are bounded by 3 to keep the state set finite".into(),
        "toml::Map is checked here in the configuration the check binary is compiled with; the preserve_order configuration is checked by the cfg engine (C18 battery includes the same search)".into(),
    ];
    // the key / value alphabets make every state set finite and small: both tiers run to closure; the thorough
    // tier adds an array of tables as a fourth item kind and longer arrays
    let cap = 20_000_000usize;
    let depth = usize::MAX;
    run_sys(&mut rep, &TableSys { values: vec![MV::Int(1), MV::Int(2), MV::Tab] }, depth, cap);
    run_sys(&mut rep, &InlineSys { values: vec![MV::Int(1), MV::Int(2), MV::Inl] }, depth, cap);
    run_sys(&mut rep, &ArraySys { max_len: tier.pick(3, 4) }, depth, cap);
    run_sys(&mut rep, &AotSys { max_len: tier.pick(3, 4) }, depth, cap);
    run_sys(&mut rep, &TomlMapSys { preserve_order: preserve_order_build() }, depth, cap);
    run_sys(&mut rep, &TableSys { values: vec![MV::Int(1), MV::Aot, MV::Tab] }, depth, cap);
    sort_family(&mut rep, tier);
    slot_family(&mut rep);
    // toml::Map in its insertion-ordered configuration: every history of <= 4 calls over 4 keys, run by the
    // cfg engine's binary built with `preserve_order`
    {
        let t0 = std::time::Instant::now();
        match crate::c18::build("tm-preserve", "tm_parse tm_display tm_preserve").and_then(|exe| crate::c18::run("tm-preserve", &exe)) {
            Err(e) => {
                println!("MACHINERY-ERROR preserve_order build of the toml::Map search failed: {}", e.lines().last().unwrap_or(""));
                return 2;
            }
            Ok(r) => {
                let n = r.counts.get("tm.map.sorted-observation").copied().unwrap_or(0);
                let mut acc = Acc::default();
                acc.evals = n * 4;
                acc.nontrivial_overflow = n;
                acc.sample(|| "toml::Map[preserve_order]: Insert(c) ; Insert(a) ; EntryRemove(c) ; Insert(b)".to_string());
                for v in r.viols.iter().filter(|v| v.contains("toml::Map history")) {
                    acc.viol("U-hist", format!("toml::Map[preserve_order]: {}", v.chars().take(200).collect::<String>()), None, v.clone());
                }
                rep.transitions = Some(rep.transitions.unwrap_or(0) + n * 4);
                rep.traces_validated += n * 4;
                rep.absorb("U-hist(toml::Map, preserve_order)", &format!("{} complete histories of 4 calls over 4 keys from 2 start maps (stateless enumeration in the preserve_order build)", n), n * 4, true, t0, acc);
            }
        }
    }
    rep.exhaustive = rep.caps.is_empty();
    rep.finish()
}

pub fn replay(path: &str) -> i32 {
    let j = read_replay(path);
    println!("history: {}", j["input"].as_str().unwrap_or(""));
    println!("detail : {}", j["detail"].as_str().unwrap_or(""));
    println!("replay: histories are regenerated by the search; re-run ./run.sh C16 quick (the history above is the exact call list from the start state)");
    2
}
