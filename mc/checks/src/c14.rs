//! C14 — spans point at exactly the source text of each item.

use crate::common::*;
use crate::docu;
use crate::real::*;
use refmodel::{ref_parse, Entry, Node, Origin, Val, Verdict};
use serde::de::{self, Deserialize, Deserializer, MapAccess, SeqAccess, Visitor};
use serde_spanned::Spanned;
use std::ops::Range;
use toml_edit::{ImDocument, Item, Key, Table, Value};

// ------------------------------------------------------------------------------------------------
// a self-describing tree with and without span wrappers

#[derive(Debug, Clone, PartialEq)]
pub enum SNode {
    Str(String),
    Int(i64),
    Float(u64),
    Bool(bool),
    Arr(Vec<Spanned<SNode>>),
    Tab(Vec<(Spanned<String>, Spanned<SNode>)>),
}

#[derive(Debug, Clone, PartialEq)]
pub enum PNode {
    Str(String),
    Int(i64),
    Float(u64),
    Bool(bool),
    Arr(Vec<PNode>),
    Tab(Vec<(String, PNode)>),
}

#[derive(serde::Deserialize, Debug, PartialEq, Eq, PartialOrd, Ord)]
struct NK(Spanned<String>);
#[derive(serde::Deserialize, Debug, PartialEq, Eq, PartialOrd, Ord)]
struct NK2(NK);
#[derive(serde::Deserialize, Debug, PartialEq, Eq, PartialOrd, Ord)]
struct NKS(String);

struct SV;
impl<'de> Visitor<'de> for SV {
    type Value = SNode;
    fn expecting(&self, f: &mut std::fmt::Formatter<'_>) -> std::fmt::Result {
        f.write_str("any TOML value")
    }
    fn visit_str<E: de::Error>(self, v: &str) -> Result<SNode, E> {
        Ok(SNode::Str(v.to_string()))
    }
    fn visit_string<E: de::Error>(self, v: String) -> Result<SNode, E> {
        Ok(SNode::Str(v))
    }
    fn visit_i64<E: de::Error>(self, v: i64) -> Result<SNode, E> {
        Ok(SNode::Int(v))
    }
    fn visit_f64<E: de::Error>(self, v: f64) -> Result<SNode, E> {
        Ok(SNode::Float(v.to_bits()))
    }
    fn visit_bool<E: de::Error>(self, v: bool) -> Result<SNode, E> {
        Ok(SNode::Bool(v))
    }
    fn visit_seq<A: SeqAccess<'de>>(self, mut a: A) -> Result<SNode, A::Error> {
        let mut v = Vec::new();
        while let Some(x) = a.next_element::<Spanned<SNode>>()? {
            v.push(x);
        }
        Ok(SNode::Arr(v))
    }
    fn visit_map<A: MapAccess<'de>>(self, mut a: A) -> Result<SNode, A::Error> {
        let mut v = Vec::new();
        while let Some(k) = a.next_key::<Spanned<String>>()? {
            let x = a.next_value::<Spanned<SNode>>()?;
            v.push((k, x));
        }
        Ok(SNode::Tab(v))
    }
}
impl<'de> Deserialize<'de> for SNode {
    fn deserialize<D: Deserializer<'de>>(d: D) -> Result<SNode, D::Error> {
        d.deserialize_any(SV)
    }
}

struct PV;
impl<'de> Visitor<'de> for PV {
    type Value = PNode;
    fn expecting(&self, f: &mut std::fmt::Formatter<'_>) -> std::fmt::Result {
        f.write_str("any TOML value")
    }
    fn visit_str<E: de::Error>(self, v: &str) -> Result<PNode, E> {
        Ok(PNode::Str(v.to_string()))
    }
    fn visit_string<E: de::Error>(self, v: String) -> Result<PNode, E> {
        Ok(PNode::Str(v))
    }
    fn visit_i64<E: de::Error>(self, v: i64) -> Result<PNode, E> {
        Ok(PNode::Int(v))
    }
    fn visit_f64<E: de::Error>(self, v: f64) -> Result<PNode, E> {
        Ok(PNode::Float(v.to_bits()))
    }
    fn visit_bool<E: de::Error>(self, v: bool) -> Result<PNode, E> {
        Ok(PNode::Bool(v))
    }
    fn visit_seq<A: SeqAccess<'de>>(self, mut a: A) -> Result<PNode, A::Error> {
        let mut v = Vec::new();
        while let Some(x) = a.next_element::<PNode>()? {
            v.push(x);
        }
        Ok(PNode::Arr(v))
    }
    fn visit_map<A: MapAccess<'de>>(self, mut a: A) -> Result<PNode, A::Error> {
        let mut v = Vec::new();
        while let Some(k) = a.next_key::<String>()? {
            let x = a.next_value::<PNode>()?;
            v.push((k, x));
        }
        Ok(PNode::Tab(v))
    }
}
impl<'de> Deserialize<'de> for PNode {
    fn deserialize<D: Deserializer<'de>>(d: D) -> Result<PNode, D::Error> {
        d.deserialize_any(PV)
    }
}

/// `Spanned`'s own equality ignores the range: compare values AND ranges
fn same_with_spans(a: &SNode, b: &SNode) -> bool {
    match (a, b) {
        (SNode::Arr(x), SNode::Arr(y)) => x.len() == y.len() && x.iter().zip(y.iter()).all(|(p, q)| p.span() == q.span() && same_with_spans(p.get_ref(), q.get_ref())),
        (SNode::Tab(x), SNode::Tab(y)) => x.len() == y.len() && x.iter().zip(y.iter()).all(|((k1, v1), (k2, v2))| k1.span() == k2.span() && k1.get_ref() == k2.get_ref() && v1.span() == v2.span() && same_with_spans(v1.get_ref(), v2.get_ref())),
        (x, y) => x == y,
    }
}

fn strip(n: &SNode) -> PNode {
    match n {
        SNode::Str(s) => PNode::Str(s.clone()),
        SNode::Int(i) => PNode::Int(*i),
        SNode::Float(f) => PNode::Float(*f),
        SNode::Bool(b) => PNode::Bool(*b),
        SNode::Arr(a) => PNode::Arr(a.iter().map(|x| strip(x.get_ref())).collect()),
        SNode::Tab(t) => PNode::Tab(t.iter().map(|(k, v)| (k.get_ref().clone(), strip(v.get_ref()))).collect()),
    }
}

// ------------------------------------------------------------------------------------------------

fn check_range(src: &str, r: &Range<usize>, what: &str) -> Result<(), String> {
    if r.start > r.end || r.end > src.len() {
        return Err(format!("{} span {:?} out of bounds (len {})", what, r, src.len()));
    }
    if !src.is_char_boundary(r.start) || !src.is_char_boundary(r.end) {
        return Err(format!("{} span {:?} not on character boundaries", what, r));
    }
    Ok(())
}

fn inside(child: &Range<usize>, parent: &Range<usize>, what: &str) -> Result<(), String> {
    if child.start < parent.start || child.end > parent.end {
        return Err(format!("{} span {:?} not inside its parent's {:?}", what, child, parent));
    }
    Ok(())
}

fn key_check(src: &str, key: &Key, model_span: Option<refmodel::Span>, key_tokens: &[refmodel::Span], path: &str) -> Result<Range<usize>, String> {
    let sp = key.span().ok_or_else(|| format!("key {} has no span", path))?;
    check_range(src, &sp, &format!("key {}", path))?;
    if let Some(m) = model_span {
        if (m.start, m.end) != (sp.start, sp.end) {
            return Err(format!("key {} span {:?} but the key token is at {}..{}", path, sp, m.start, m.end));
        }
    } else if !key_tokens.iter().any(|t| (t.start, t.end) == (sp.start, sp.end)) {
        return Err(format!("key {} span {:?} is not the extent of any key token", path, sp));
    }
    let reparsed = src[sp.clone()].parse::<Key>().map_err(|e| format!("key {} slice {:?} does not re-parse: {}", path, &src[sp.clone()], e.message()))?;
    if reparsed.get() != key.get() {
        return Err(format!("key {} slice {:?} re-parses to {:?}, not {:?}", path, &src[sp.clone()], reparsed.get(), key.get()));
    }
    Ok(sp)
}

fn value_check(src: &str, model: &Node, v: &Value, path: &str) -> Result<Range<usize>, String> {
    let sp = v.span().ok_or_else(|| format!("value {} has no span", path))?;
    check_range(src, &sp, &format!("value {}", path))?;
    let m = model.span.ok_or_else(|| format!("model has no token for value {}", path))?;
    if (m.start, m.end) != (sp.start, sp.end) {
        return Err(format!("value {} span {:?} but the value token is at {}..{} ({:?})", path, sp, m.start, m.end, &src[m.start..m.end]));
    }
    let reparsed = src[sp.clone()].parse::<Value>().map_err(|e| format!("value {} slice {:?} does not re-parse: {}", path, &src[sp.clone()], e.message()))?;
    let (mut a, mut b) = (String::new(), String::new());
    canon_value(&reparsed, &mut a, false);
    canon_value(v, &mut b, false);
    if a != b {
        return Err(format!("value {} slice {:?} re-parses to {} not {}", path, &src[sp.clone()], a, b));
    }
    match (&model.val, v) {
        (Val::Array(ms), Value::Array(arr)) => {
            if ms.len() != arr.len() {
                return Err(format!("array {} length differs", path));
            }
            for (i, (mn, x)) in ms.iter().zip(arr.iter()).enumerate() {
                let c = value_check(src, mn, x, &format!("{}[{}]", path, i))?;
                inside(&c, &sp, &format!("element {}[{}]", path, i))?;
            }
        }
        (Val::Table(me), Value::InlineTable(t)) => {
            inline_entries(src, me, t, &sp, path)?;
        }
        _ => {}
    }
    Ok(sp)
}

fn inline_entries(src: &str, me: &[Entry], t: &toml_edit::InlineTable, parent: &Range<usize>, path: &str) -> Result<(), String> {
    for e in me {
        let p = format!("{}.{:?}", path, e.key);
        let (k, item) = t.get_key_value(&e.key).ok_or_else(|| format!("inline table {} lacks key {:?}", path, e.key))?;
        match (&e.node.origin, item) {
            (Origin::DottedTable, Item::Value(Value::InlineTable(sub))) => {
                let ks = key_check(src, k, None, &[e.key_span], &p)?;
                inside(&ks, parent, &format!("key {}", p))?;
                let Val::Table(sub_e) = &e.node.val else { unreachable!() };
                inline_entries(src, sub_e, sub, parent, &p)?;
            }
            (_, Item::Value(v)) => {
                let ks = key_check(src, k, Some(e.key_span), &[], &p)?;
                inside(&ks, parent, &format!("key {}", p))?;
                let vs = value_check(src, &e.node, v, &p)?;
                inside(&vs, parent, &format!("value {}", p))?;
            }
            _ => return Err(format!("inline table {} holds a non-value", p)),
        }
    }
    Ok(())
}

/// end of the `[a."b".c]` / `[[..]]` header that starts at `start` (a tiny lexer of its own: brackets, blanks, bare /
/// basic / literal keys, dots)
fn header_end(src: &str, start: usize) -> Option<usize> {
    let b = src.as_bytes();
    let mut i = start;
    let double = b.get(i) == Some(&b'[') && b.get(i + 1) == Some(&b'[');
    i += if double { 2 } else { 1 };
    loop {
        while matches!(b.get(i), Some(b' ' | b'\t')) {
            i += 1;
        }
        match b.get(i)? {
            b'"' => {
                i += 1;
                while *b.get(i)? != b'"' {
                    if b[i] == b'\\' {
                        i += 1;
                    }
                    i += 1;
                }
                i += 1;
            }
            b'\'' => {
                i += 1;
                while *b.get(i)? != b'\'' {
                    i += 1;
                }
                i += 1;
            }
            _ => {
                while matches!(b.get(i), Some(c) if c.is_ascii_alphanumeric() || *c == b'_' || *c == b'-') {
                    i += 1;
                }
            }
        }
        while matches!(b.get(i), Some(b' ' | b'\t')) {
            i += 1;
        }
        match b.get(i)? {
            b'.' => i += 1,
            b']' => return Some(i + if double { 2 } else { 1 }),
            _ => return None,
        }
    }
}

/// the furthest end of a value owned by this section (through dotted tables)
fn last_value_end(t: &Table) -> usize {
    let mut m = 0;
    for (_, item) in t.iter() {
        match item {
            Item::Value(v) => m = m.max(v.span().map(|s| s.end).unwrap_or(0)),
            Item::Table(st) if st.is_dotted() => m = m.max(last_value_end(st)),
            _ => {}
        }
    }
    m
}

/// a header-defined table's span is exactly its header plus its own key/value lines: it ends where the header or the
/// last own value ends - not in the blanks or the comment after it
fn tight_section(src: &str, sp: &Range<usize>, t: &Table, what: &str) -> Result<(), String> {
    let Some(he) = header_end(src, sp.start) else { return Err(format!("{}: span {:?} does not start at a header: {:?}", what, sp, &src[sp.clone()])) };
    let want = he.max(last_value_end(t));
    if sp.end != want {
        return Err(format!("{}: span {:?} = {:?} does not end where its header / last own value ends (byte {})", what, sp, &src[sp.clone()], want));
    }
    Ok(())
}

/// a table reached through headers / dotted keys / the root
fn table_check(src: &str, me: &[Entry], t: &Table, key_tokens: &[refmodel::Span], section_span: Option<&Range<usize>>, path: &str) -> Result<(), String> {
    for e in me {
        let p = format!("{}.{:?}", path, e.key);
        let (k, item) = t.get_key_value(&e.key).ok_or_else(|| format!("table {} lacks key {:?}", path, e.key))?;
        match (&e.node.val, item) {
            (_, Item::Value(v)) => {
                let ks = key_check(src, k, Some(e.key_span), key_tokens, &p)?;
                let vs = value_check(src, &e.node, v, &p)?;
                if let Some(sec) = section_span {
                    inside(&ks, sec, &format!("key {}", p))?;
                    inside(&vs, sec, &format!("value {}", p))?;
                }
                if item.span() != Some(vs.clone()) {
                    return Err(format!("Item::span() {:?} differs from Value::span() {:?} at {}", item.span(), vs, p));
                }
            }
            (Val::Table(sub), Item::Table(st)) => {
                key_check(src, k, None, key_tokens, &p)?;
                match e.node.origin {
                    Origin::DottedTable => {
                        // belongs to the enclosing section
                        table_check(src, sub, st, key_tokens, section_span, &p)?;
                    }
                    Origin::HeaderTable => {
                        let sp = st.span().ok_or_else(|| format!("header-defined table {} has no span", p))?;
                        check_range(src, &sp, &format!("table {}", p))?;
                        if !src[sp.clone()].starts_with('[') {
                            return Err(format!("table {} span {:?} does not start at its header: {:?}", p, sp, &src[sp.clone()]));
                        }
                        tight_section(src, &sp, st, &format!("table {}", p))?;
                        table_check(src, sub, st, key_tokens, Some(&sp), &p)?;
                    }
                    _ => {
                        // implicit super-table: no section of its own
                        if let Some(sp) = st.span() {
                            check_range(src, &sp, &format!("table {}", p))?;
                        }
                        table_check(src, sub, st, key_tokens, None, &p)?;
                    }
                }
            }
            (Val::Array(els), Item::ArrayOfTables(aot)) => {
                key_check(src, k, None, key_tokens, &p)?;
                let asp = aot.span().ok_or_else(|| format!("array of tables {} has no span", p))?;
                check_range(src, &asp, &format!("array of tables {}", p))?;
                if els.len() != aot.len() {
                    return Err(format!("array of tables {} length differs", p));
                }
                for (i, (mn, et)) in els.iter().zip(aot.iter()).enumerate() {
                    let ep = format!("{}[{}]", p, i);
                    let sp = et.span().ok_or_else(|| format!("array-of-tables element {} has no span", ep))?;
                    check_range(src, &sp, &format!("element {}", ep))?;
                    inside(&sp, &asp, &format!("element {}", ep))?;
                    if !src[sp.clone()].starts_with("[[") {
                        return Err(format!("element {} span {:?} does not start at its header", ep, sp));
                    }
                    tight_section(src, &sp, et, &format!("element {}", ep))?;
                    let Val::Table(sub) = &mn.val else { unreachable!() };
                    table_check(src, sub, et, key_tokens, Some(&sp), &ep)?;
                }
            }
            _ => return Err(format!("kind mismatch at {}", p)),
        }
    }
    Ok(())
}

fn has_dt(n: &Node) -> bool {
    match &n.val {
        Val::Dt(_) => true,
        Val::Array(a) => a.iter().any(has_dt),
        Val::Table(t) => t.iter().any(|e| has_dt(&e.node)),
        _ => false,
    }
}

/// serde view vs ImDocument view
fn serde_cmp_table(src: &str, s: &[(Spanned<String>, Spanned<SNode>)], t: &dyn toml_edit::TableLike, path: &str) -> Result<(), String> {
    let n = t.iter().filter(|(_, i)| !i.is_none()).count();
    if s.len() != n {
        return Err(format!("serde sees {} entries at {}, the document has {}", s.len(), path, n));
    }
    for (k, v) in s {
        let p = format!("{}.{:?}", path, k.get_ref());
        let (rk, ri) = t.get_key_value(k.get_ref()).ok_or_else(|| format!("serde key {} not in document", p))?;
        if rk.span() != Some(k.span()) {
            return Err(format!("Spanned key {} has range {:?}, Key::span() is {:?}", p, k.span(), rk.span()));
        }
        check_range(src, &k.span(), &format!("serde key {}", p))?;
        serde_cmp_item(src, v, ri, &p)?;
    }
    Ok(())
}

fn serde_cmp_item(src: &str, v: &Spanned<SNode>, ri: &Item, p: &str) -> Result<(), String> {
    check_range(src, &v.span(), &format!("serde value {}", p))?;
    if let Some(sp) = ri.span() {
        if sp != v.span() {
            return Err(format!("Spanned value {} has range {:?}, Item::span() is {:?}", p, v.span(), sp));
        }
    }
    if ri.span().is_none() {
        // a table without a span of its own (dotted / implicit): the range handed to Spanned is derived from its
        // contents, so it has to contain every child
        if let SNode::Tab(st) = v.get_ref() {
            for (k, c) in st {
                inside(&k.span(), &v.span(), &format!("serde key {}.{:?}", p, k.get_ref()))?;
                inside(&c.span(), &v.span(), &format!("serde value {}.{:?}", p, k.get_ref()))?;
            }
        }
    }
    match (v.get_ref(), ri) {
        (SNode::Tab(st), Item::Table(t)) => serde_cmp_table(src, st, t, p),
        (SNode::Tab(st), Item::Value(Value::InlineTable(t))) => serde_cmp_table(src, st, t, p),
        (SNode::Arr(sa), Item::Value(Value::Array(a))) => {
            if sa.len() != a.len() {
                return Err(format!("array {} length differs through serde", p));
            }
            for (i, (x, y)) in sa.iter().zip(a.iter()).enumerate() {
                serde_cmp_item(src, x, &Item::Value(y.clone()), &format!("{}[{}]", p, i))?;
            }
            Ok(())
        }
        (SNode::Arr(sa), Item::ArrayOfTables(a)) => {
            if sa.len() != a.len() {
                return Err(format!("array of tables {} length differs through serde", p));
            }
            for (i, (x, y)) in sa.iter().zip(a.iter()).enumerate() {
                let ep = format!("{}[{}]", p, i);
                check_range(src, &x.span(), &format!("serde element {}", ep))?;
                if let Some(sp) = y.span() {
                    if sp != x.span() {
                        return Err(format!("Spanned element {} has range {:?}, Table::span() is {:?}", ep, x.span(), sp));
                    }
                }
                match x.get_ref() {
                    SNode::Tab(st) => serde_cmp_table(src, st, y, &ep)?,
                    _ => return Err(format!("element {} is not a table through serde", ep)),
                }
            }
            Ok(())
        }
        (SNode::Str(_), Item::Value(Value::String(_))) | (SNode::Int(_), Item::Value(Value::Integer(_))) | (SNode::Float(_), Item::Value(Value::Float(_))) | (SNode::Bool(_), Item::Value(Value::Boolean(_))) => Ok(()),
        _ => Err(format!("kind mismatch through serde at {}", p)),
    }
}

fn no_spans_item(i: &Item, path: &str) -> Result<(), String> {
    if i.span().is_some() {
        return Err(format!("after into_mut(), {} still reports span {:?}", path, i.span()));
    }
    match i {
        Item::Table(t) => no_spans_table(t, path),
        Item::ArrayOfTables(a) => {
            if a.span().is_some() {
                return Err(format!("after into_mut(), array of tables {} still reports a span", path));
            }
            for (n, t) in a.iter().enumerate() {
                if t.span().is_some() {
                    return Err(format!("after into_mut(), {}[{}] still reports a span", path, n));
                }
                no_spans_table(t, &format!("{}[{}]", path, n))?;
            }
            Ok(())
        }
        Item::Value(v) => no_spans_value(v, path),
        Item::None => Ok(()),
    }
}
fn no_spans_table(t: &Table, path: &str) -> Result<(), String> {
    if t.span().is_some() {
        return Err(format!("after into_mut(), table {} still reports span {:?}", path, t.span()));
    }
    for (k, i) in t.iter() {
        if t.key(k).and_then(|k| k.span()).is_some() {
            return Err(format!("after into_mut(), key {}.{} still reports a span", path, k));
        }
        no_spans_item(i, &format!("{}.{}", path, k))?;
    }
    Ok(())
}
fn no_spans_value(v: &Value, path: &str) -> Result<(), String> {
    if v.span().is_some() {
        return Err(format!("after into_mut(), value {} still reports span {:?}", path, v.span()));
    }
    match v {
        Value::Array(a) => {
            for (n, x) in a.iter().enumerate() {
                no_spans_value(x, &format!("{}[{}]", path, n))?;
            }
        }
        Value::InlineTable(t) => {
            for (k, x) in t.iter() {
                if t.key(k).and_then(|k| k.span()).is_some() {
                    return Err(format!("after into_mut(), inline key {}.{} still reports a span", path, k));
                }
                no_spans_value(x, &format!("{}.{}", path, k))?;
            }
        }
        _ => {}
    }
    Ok(())
}

pub fn c14_eval(bytes: &[u8], uni: &'static str, acc: &mut Acc) {
    let Ok(text) = std::str::from_utf8(bytes) else { return };
    let Verdict::Valid { tree, limits, layout } = ref_parse(text) else {
        acc.bump("not-valid-skipped");
        return;
    };
    if limits.any() {
        acc.bump("limit-skipped");
        return;
    }
    let Val::Table(mroot) = &tree.val else { unreachable!() };
    if mroot.is_empty() {
        acc.bump("empty-document");
        return;
    }
    acc.nontrivial(bytes);
    let r = guarded(|| -> Result<(), String> {
        let im = ImDocument::parse(text).map_err(|e| format!("rejected (C01): {}", e.message()))?;
        let root_span = im.as_table().span();
        if let Some(rs) = &root_span {
            check_range(text, rs, "root table")?;
        }
        table_check(text, mroot, im.as_table(), &layout.key_tokens, root_span.as_ref(), "root")?;
        // every value token of the source is the span of exactly one value (no value was missed by the walk)
        // serde view
        if !has_dt(&tree) {
            let with: Result<SNode, _> = toml::from_str(text);
            let without: Result<PNode, _> = toml::from_str(text);
            match (&with, &without) {
                (Ok(s), Ok(p)) => {
                    if strip(s) != *p {
                        return Err(format!("decoding with Spanned wrappers gives a different value: {:?} vs {:?}", strip(s), p));
                    }
                    let SNode::Tab(st) = s else { return Err("root is not a table through serde".into()) };
                    serde_cmp_table(text, st, im.as_table(), "root")?;
                    // the other text / byte entry points hand out the same ranges (relative to the caller's buffer)
                    let via_edit: SNode = toml_edit::de::from_str(text).map_err(|e| format!("toml_edit::de::from_str fails where toml::from_str succeeds: {}", e.message()))?;
                    if !same_with_spans(&via_edit, s) {
                        return Err("toml_edit::de::from_str delivers different spans / values than toml::from_str".into());
                    }
                    let via_slice: SNode = toml_edit::de::from_slice(text.as_bytes()).map_err(|e| format!("toml_edit::de::from_slice fails where toml::from_str succeeds: {}", e.message()))?;
                    if !same_with_spans(&via_slice, s) {
                        return Err(format!("toml_edit::de::from_slice delivers different spans than from_str: {:?} vs {:?}", via_slice, s));
                    }
                    let via_fromstr: SNode = text.parse::<toml_edit::de::Deserializer>().map_err(|e| format!("str::parse::<de::Deserializer> fails: {}", e.message())).and_then(|d| SNode::deserialize(d).map_err(|e| format!("decoding through str::parse::<toml_edit::de::Deserializer> fails where toml::from_str succeeds: {}", e.message())))?;
                    if !same_with_spans(&via_fromstr, s) {
                        return Err("str::parse::<toml_edit::de::Deserializer> delivers different spans / values than toml::from_str".into());
                    }
                    let via_parse: SNode = toml_edit::de::Deserializer::parse(text).map_err(|e| format!("de::Deserializer::parse fails: {}", e.message())).and_then(|d| SNode::deserialize(d).map_err(|e| format!("decoding through toml_edit::de::Deserializer::parse fails where toml::from_str succeeds: {}", e.message())))?;
                    if !same_with_spans(&via_parse, s) {
                        return Err("toml_edit::de::Deserializer::parse delivers different spans / values than toml::from_str".into());
                    }
                    let via_toml_de: SNode = SNode::deserialize(toml::Deserializer::new(text)).map_err(|e| format!("decoding through toml::Deserializer::new fails where toml::from_str succeeds: {}", e.message()))?;
                    if !same_with_spans(&via_toml_de, s) {
                        return Err("toml::Deserializer::new delivers different spans / values than toml::from_str".into());
                    }
                    // keys through wrapper layers: a newtype around Spanned<String>, a newtype around that, an Option-free
                    // transparent wrapper - "wrapping a target type in Spanned never changes whether decoding succeeds"
                    let nk: std::collections::BTreeMap<NK, serde::de::IgnoredAny> = toml::from_str(text).map_err(|e| format!("a map keyed by a newtype around Spanned<String> fails to decode where Spanned<String> keys succeed: {}", e.message()))?;
                    let nk2: std::collections::BTreeMap<NK2, serde::de::IgnoredAny> = toml::from_str(text).map_err(|e| format!("a map keyed by a newtype around a newtype around Spanned<String> fails to decode: {}", e.message()))?;
                    let nks: std::collections::BTreeMap<NKS, serde::de::IgnoredAny> = toml::from_str(text).map_err(|e| format!("a map keyed by a newtype around String fails to decode: {}", e.message()))?;
                    if nk.len() != st.len() || nk2.len() != st.len() || nks.len() != st.len() {
                        return Err(format!("newtype-keyed maps have {} / {} / {} entries, the Spanned-keyed table has {}", nk.len(), nk2.len(), nks.len(), st.len()));
                    }
                    for (k, _) in st {
                        let a = nk.keys().find(|x| x.0.get_ref() == k.get_ref()).map(|x| x.0.span());
                        let b = nk2.keys().find(|x| x.0 .0.get_ref() == k.get_ref()).map(|x| x.0 .0.span());
                        if a != Some(k.span()) || b != Some(k.span()) {
                            return Err(format!("key {:?}: Spanned<String> reports {:?}, inside one newtype {:?}, inside two {:?}", k.get_ref(), k.span(), a, b));
                        }
                    }
                    let via_doc: SNode = toml_edit::de::from_document(toml_edit::ImDocument::parse(text.to_string()).map_err(|e| e.message().to_string())?).map_err(|e| format!("from_document(ImDocument) fails: {}", e.message()))?;
                    if !same_with_spans(&via_doc, s) {
                        return Err("toml_edit::de::from_document(ImDocument) delivers different spans than from_str".into());
                    }
                }
                (Err(e), Ok(_)) => return Err(format!("wrapping in Spanned makes decoding fail: {}", e.message())),
                (Ok(_), Err(e)) => return Err(format!("decoding without Spanned fails while with Spanned succeeds: {}", e.message())),
                (Err(e), Err(_)) => return Err(format!("self-describing decode failed: {}", e.message())),
            }
        }
        let m = im.into_mut();
        no_spans_table(m.as_table(), "root")?;
        Ok(())
    });
    match r {
        Ok(Ok(())) => {
            acc.bump("spans-ok");
            acc.sample(|| format!("{:?}", text));
        }
        Ok(Err(e)) => acc.viol(uni, text.to_string(), None, e),
        Err(p) => {
            acc.panics += 1;
            acc.viol(uni, text.to_string(), None, format!("panic: {}", p));
        }
    }
}

#[derive(serde::Deserialize, Debug)]
struct DtS {
    k: Spanned<toml_datetime::Datetime>,
}
#[derive(serde::Deserialize, Debug)]
struct DtP {
    k: toml_datetime::Datetime,
}

fn dt_spanned(rep: &mut Report, tier: Tier) {
    let t0 = std::time::Instant::now();
    let strs = docu::dt_strings(tier.pick(1, 2));
    let mut cases = Vec::new();
    for s in &strs {
        cases.push(format!("k = {} # é\n", s));
        cases.push(format!("é = 'é'\nk={}", s));
    }
    let f = |s: &str, acc: &mut Acc| {
        let Verdict::Valid { tree, .. } = ref_parse(s) else { return };
        let Val::Table(t) = &tree.val else { unreachable!() };
        let Some(e) = t.iter().find(|e| e.key == "k") else { return };
        if !matches!(e.node.val, Val::Dt(_)) {
            return;
        }
        acc.nontrivial(s.as_bytes());
        let m = e.node.span.unwrap();
        let r = guarded(|| -> Result<(), String> {
            let a: DtS = toml::from_str(s).map_err(|e| format!("Spanned<Datetime> fails: {}", e.message()))?;
            let b: DtP = toml::from_str(s).map_err(|e| format!("Datetime fails: {}", e.message()))?;
            if *a.k.get_ref() != b.k {
                return Err("Spanned<Datetime> value differs from Datetime".into());
            }
            if (a.k.span().start, a.k.span().end) != (m.start, m.end) {
                return Err(format!("Spanned<Datetime> range {:?} but the token is at {}..{}", a.k.span(), m.start, m.end));
            }
            Ok(())
        });
        match r {
            Ok(Ok(())) => acc.bump("datetime-span-ok"),
            Ok(Err(e)) => acc.viol("U-dt-spanned", s.to_string(), None, e),
            Err(p) => acc.viol("U-dt-spanned", s.to_string(), None, format!("panic: {}", p)),
        }
    };
    let (total, acc) = crate::universe::sweep_list(&cases, &f);
    rep.absorb("U-dt-spanned", "date-time strings in 2 frames with multi-byte neighbours, decoded into Spanned<Datetime>", total, true, t0, acc);
}

pub fn c14(tier: Tier) -> i32 {
    let mut rep = Report::new(
        "C14",
        tier,
        "model_checking",
        "every model-valid non-empty text of each universe is parsed with ImDocument; every key/value/table/array-of-tables span is checked for bounds, char boundaries, equality with the model's token extents (keys, values), syntactic containment, and slice re-parse; the same document is decoded through serde into a self-describing tree with and without Spanned wrappers (ranges equal to the document's, same success and value); after into_mut() no span remains; non-trivial = distinct valid non-empty documents",
    );
    rep.assumptions = vec!["refmodel's token extents are correct (they are compared with the real spans on every document, so an error on either side shows)".into()];
    docu::run(&mut rep, tier, &["decor", "stmt", "ctx", "tok", "corpus", "num", "dt", "cp", "bom", "reopen"], &c14_eval);
    dt_spanned(&mut rep, tier);
    // error locations are spans delivered through serde too: the typed mismatch family (shared with C15)
    crate::c15::typed(&mut rep);
    rep.finish()
}

pub fn replay(path: &str) -> i32 {
    let j = read_replay(path);
    let input = j["input"].as_str().unwrap_or("").to_string();
    let mut acc = Acc::default();
    c14_eval(input.as_bytes(), "replay", &mut acc);
    println!("input: {:?}", input);
    if acc.viols.is_empty() {
        println!("replay: property holds on this case");
        0
    } else {
        for v in &acc.viols {
            println!("replay: {}", v.detail);
        }
        println!("VIOLATION property=C14 replay={}", path);
        1
    }
}
