//! C07 — serde serialization never loses data: it round-trips or returns an error.
//! C13 — every decoding and encoding route gives the same answer.
//! C17 — serialization is deterministic, canonical and insensitive to map order.

use crate::common::*;
use crate::fam::*;
use refmodel::{ref_parse, Verdict};

fn valid(text: &str) -> Result<(), String> {
    match ref_parse(text) {
        Verdict::Valid { .. } => Ok(()),
        Verdict::Invalid(r) => Err(format!("not valid TOML: {} at byte {}", r.rule, r.at)),
        Verdict::UndecidedU1 => Ok(()),
    }
}

fn documented_unsupported_message(m: &str) -> bool {
    m.contains("unsupported") || m.contains("map key was not a string") || m.contains("out-of-range") || m.contains("too large") || m.contains("u64") || m.contains("invalid")
}

type Ser<T> = (&'static str, fn(&T) -> Result<String, String>);

fn serializers<T: Fam>() -> Vec<Ser<T>> {
    vec![
        ("toml::to_string", |v| toml::to_string(v).map_err(|e| e.to_string())),
        ("toml::to_string_pretty", |v| toml::to_string_pretty(v).map_err(|e| e.to_string())),
        ("toml_edit::ser::to_string", |v| toml_edit::ser::to_string(v).map_err(|e| e.to_string())),
        ("toml_edit::ser::to_string_pretty", |v| toml_edit::ser::to_string_pretty(v).map_err(|e| e.to_string())),
        ("toml_edit::ser::to_document", |v| toml_edit::ser::to_document(v).map(|d| d.to_string()).map_err(|e| e.to_string())),
        ("toml::Table::try_from", |v| toml::Table::try_from(v).map(|t| t.to_string()).map_err(|e| e.to_string())),
    ]
}

pub struct C07;
impl Check for C07 {
    fn check<T: Fam>(&self, v: &T, acc: &mut Acc) {
        let label = format!("{:?}", v);
        acc.nontrivial(label.as_bytes());
        for (name, ser) in serializers::<T>() {
            let r = guarded(|| -> Result<&'static str, (Option<&'static str>, String)> {
                match ser(v) {
                    Err(e) => {
                        if !v.unsupported() {
                            return Err((None, format!("{} fails on a supported value: {}", name, e)));
                        }
                        // the shape is known (from the type) to be one of the documented unsupported ones; the wording of
                        // the error is the library's business and only tallied
                        Ok(if documented_unsupported_message(&e) { "error-on-unsupported-shape" } else { "error-on-unsupported-shape (other wording)" })
                    }
                    Ok(text) => {
                        valid(&text).map_err(|e| (None, format!("{} output {:?} is {}", name, text, e)))?;
                        let back: T = toml::from_str(&text).map_err(|e| {
                            let class = if name == "toml::Table::try_from" && v.has_datetime() { Some("datetime-through-toml-value") } else { None };
                            (class, format!("{} output {:?} does not decode (toml::from_str): {}", name, text, e.message()))
                        })?;
                        if back != *v {
                            let class = if name == "toml::Table::try_from" && v.has_datetime() { Some("datetime-through-toml-value") } else { None };
                            return Err((class, format!("{} output {:?} decodes to {:?}", name, text, back)));
                        }
                        let back2: T = toml_edit::de::from_str(&text).map_err(|e| (None, format!("{} output {:?} does not decode (toml_edit::de::from_str): {}", name, text, e.message())))?;
                        if back2 != *v {
                            return Err((None, format!("{} output {:?} decodes (toml_edit::de) to {:?}", name, text, back2)));
                        }
                        Ok("round-trip")
                    }
                }
            });
            match r {
                Ok(Ok(k)) => {
                    acc.bump(k);
                    if k == "round-trip" {
                        acc.sample(|| label.clone());
                    }
                }
                Ok(Err((class, e))) => acc.viol("U-serde", format!("{}: {}", T::NAME, label), class, e),
                Err(p) => acc.viol("U-serde", format!("{}: {}", T::NAME, label), None, format!("panic in {}: {}", name, p)),
            }
        }
    }
}

fn absorb_family(rep: &mut Report, acc: Acc, sizes: Vec<(String, usize)>, t0: std::time::Instant) {
    let n: usize = sizes.iter().map(|(_, n)| n).sum();
    rep.extra.insert("family".into(), serde_json::json!(sizes.iter().map(|(k, n)| format!("{}: {} values", k, n)).collect::<Vec<_>>()));
    rep.absorb("U-serde", &format!("{} root types, every value over the small leaf domains", sizes.len()), n as u64, true, t0, acc);
}

pub fn c07(tier: Tier) -> i32 {
    let mut rep = Report::new(
        "C07",
        tier,
        "model_checking",
        "every value of a family of 14 derive(Serialize, Deserialize) root types (enums of all four variant kinds inside sequences inside maps, optional tables, arrays of tables, mixed arrays, unit-variant keys, every integer width, floats, chars, date-times, tuples, newtypes, and the documented unsupported shapes) is serialized by six serializers; Ok(text) must be valid TOML (specification model) and decode (toml::from_str and toml_edit::de::from_str) to an equal value; Err is allowed only on the documented unsupported shapes; non-trivial = every distinct value",
    );
    rep.assumptions = vec!["NaNs compare equal regardless of sign (the serde serializers drop the NaN sign by documented design); every other float bit-for-bit".into()];
    let t0 = std::time::Instant::now();
    let (acc, sizes) = run_family(&C07, tier);
    absorb_family(&mut rep, acc, sizes, t0);
    rep.finish()
}

// ------------------------------------------------------------------------------------------------
// C13

pub struct C13;
impl Check for C13 {
    fn check<T: Fam>(&self, v: &T, acc: &mut Acc) {
        let label = format!("{:?}", v);
        let Ok(text) = toml::to_string(v) else {
            // the text route refuses this value: the table route must refuse it too, not hand out a partial tree
            acc.nontrivial(label.as_bytes());
            match guarded(|| toml::Table::try_from(v).map(|t| crate::real::canon_toml_table(&t, true))) {
                Ok(Err(_)) => acc.bump("refused by to_string and by Table::try_from"),
                Ok(Ok(tree)) => acc.viol("U-serde", format!("{}: {}", T::NAME, label), None, format!("toml::to_string refuses this value but toml::Table::try_from succeeds with {}", tree)),
                Err(p) => acc.viol("U-serde", format!("{}: {}", T::NAME, label), None, format!("panic: {}", p)),
            }
            return;
        };
        acc.nontrivial(label.as_bytes());
        let dtc = |v: &T| if v.has_datetime() { Some("datetime-through-toml-value") } else { None };
        let r = guarded(|| -> Result<(), (Option<&'static str>, String)> {
            // decoding routes
            let routes: Vec<(&'static str, Result<T, String>)> = vec![
                ("toml::from_str", toml::from_str::<T>(&text).map_err(|e| e.message().to_string())),
                ("toml_edit::de::from_str", toml_edit::de::from_str::<T>(&text).map_err(|e| e.message().to_string())),
                ("toml_edit::de::from_slice", toml_edit::de::from_slice::<T>(text.as_bytes()).map_err(|e| e.message().to_string())),
                ("toml_edit::de::from_document(DocumentMut)", text.parse::<toml_edit::DocumentMut>().map_err(|e| e.message().to_string()).and_then(|d| toml_edit::de::from_document::<T>(d).map_err(|e| e.message().to_string()))),
                ("toml_edit::de::from_document(ImDocument)", toml_edit::ImDocument::parse(text.clone()).map_err(|e| e.message().to_string()).and_then(|d| toml_edit::de::from_document::<T>(d).map_err(|e| e.message().to_string()))),
                ("toml::Deserializer::new", T::deserialize(toml::Deserializer::new(&text)).map_err(|e| e.message().to_string())),
                ("toml::Value then try_into", toml::from_str::<toml::Value>(&text).map_err(|e| e.message().to_string()).and_then(|x| x.try_into::<T>().map_err(|e| e.message().to_string()))),
                ("toml::Table then try_into", toml::from_str::<toml::Table>(&text).map_err(|e| e.message().to_string()).and_then(|x| x.try_into::<T>().map_err(|e| e.message().to_string()))),
                ("toml::Value as Deserializer", toml::from_str::<toml::Value>(&text).map_err(|e| e.message().to_string()).and_then(|x| T::deserialize(x).map_err(|e| e.message().to_string()))),
            ];
            for (name, got) in &routes {
                let via_value = name.contains("toml::Value") || name.contains("toml::Table");
                match got {
                    Ok(x) if x == v => {}
                    Ok(x) => return Err((if via_value { dtc(v) } else { None }, format!("route {} on {:?} yields {:?}", name, text, x))),
                    Err(e) => return Err((if via_value { dtc(v) } else { None }, format!("route {} fails on text serialized from a value of the target type: {:?}: {}", name, text, e))),
                }
            }
            // encoding direction: try_from == serialize-then-parse
            let a = toml::Value::try_from(v).map_err(|e| (None, format!("toml::Value::try_from fails although toml::to_string succeeds: {}", e)))?;
            let b: toml::Value = toml::from_str(&text).map_err(|e| (None, format!("serialized text does not parse into toml::Value: {}", e.message())))?;
            // exact, NaN sign included: both routes normalise it the same way or the trees differ
            if crate::real::canon_toml_value(&a, true) != crate::real::canon_toml_value(&b, true) {
                return Err((dtc(v), format!("toml::Value::try_from gives {} but parsing the serialized text gives {}", crate::real::canon_toml_value(&a, true), crate::real::canon_toml_value(&b, true))));
            }
            let ta = toml::Table::try_from(v).map_err(|e| (None, format!("toml::Table::try_from fails: {}", e)))?;
            if crate::real::canon_toml_table(&ta, true) != crate::real::canon_toml_value(&b, true) {
                return Err((dtc(v), format!("toml::Table::try_from gives {} but parsing the serialized text gives {}", crate::real::canon_toml_table(&ta, true), crate::real::canon_toml_value(&b, true))));
            }
            // the single-value routes: v written as ONE value (an inline table) by either value serializer, read back by
            // every value deserializer
            use serde::de::IntoDeserializer as _;
            let vtexts: Vec<(&'static str, Result<String, String>)> = vec![
                ("toml_edit::ser::ValueSerializer", v.serialize(toml_edit::ser::ValueSerializer::new()).map(|x| x.to_string()).map_err(|e| e.to_string())),
                ("toml::ser::ValueSerializer", {
                    let mut s = String::new();
                    v.serialize(toml::ser::ValueSerializer::new(&mut s)).map(|_| s).map_err(|e| e.to_string())
                }),
            ];
            for (sname, vt) in vtexts {
                let vt = vt.map_err(|e| (None, format!("{} fails although toml::to_string succeeds: {}", sname, e)))?;
                let vroutes: Vec<(&'static str, Result<T, String>)> = vec![
                    ("toml::de::ValueDeserializer::new", T::deserialize(toml::de::ValueDeserializer::new(&vt)).map_err(|e| e.message().to_string())),
                    ("str::parse::<toml_edit::de::ValueDeserializer>", vt.parse::<toml_edit::de::ValueDeserializer>().map_err(|e| e.message().to_string()).and_then(|d| T::deserialize(d).map_err(|e| e.message().to_string()))),
                    ("toml_edit::Value::into_deserializer", vt.parse::<toml_edit::Value>().map_err(|e| e.message().to_string()).and_then(|x| T::deserialize(x.into_deserializer()).map_err(|e| e.message().to_string()))),
                ];
                for (name, got) in &vroutes {
                    match got {
                        Ok(x) if x == v => {}
                        Ok(x) => return Err((None, format!("single-value route {} on {:?} (written by {}) yields {:?}", name, vt, sname, x))),
                        Err(e) => return Err((None, format!("single-value route {} fails on {:?} (written by {}): {}", name, vt, sname, e))),
                    }
                }
            }
            Ok(())
        });
        match r {
            Ok(Ok(())) => {
                acc.bump("all-routes-agree");
                acc.sample(|| text.clone());
            }
            Ok(Err((class, e))) => acc.viol("U-serde", format!("{}: {}", T::NAME, label), class, e),
            Err(p) => acc.viol("U-serde", format!("{}: {}", T::NAME, label), None, format!("panic: {}", p)),
        }
    }
}

/// documents decoded into toml::Value / toml::Table by every route
fn c13_doc_eval(bytes: &[u8], uni: &'static str, acc: &mut Acc) {
    let Ok(text) = std::str::from_utf8(bytes) else { return };
    let r = guarded(|| -> Result<bool, String> {
        let a = toml::from_str::<toml::Value>(text).map(|v| crate::real::canon_toml_value(&v, true)).map_err(|e| e.message().to_string());
        let routes: Vec<(&'static str, Result<String, String>)> = vec![
            ("toml::from_str::<Table>", toml::from_str::<toml::Table>(text).map(|v| crate::real::canon_toml_table(&v, true)).map_err(|e| e.message().to_string())),
            ("str::parse::<Table>", text.parse::<toml::Table>().map(|v| crate::real::canon_toml_table(&v, true)).map_err(|e| e.message().to_string())),
            ("str::parse::<Value>", text.parse::<toml::Value>().map(|v| crate::real::canon_toml_value(&v, true)).map_err(|e| e.message().to_string())),
            ("toml_edit::de::from_str::<Value>", toml_edit::de::from_str::<toml::Value>(text).map(|v| crate::real::canon_toml_value(&v, true)).map_err(|e| e.message().to_string())),
            ("toml_edit::de::from_slice::<Table>", toml_edit::de::from_slice::<toml::Table>(bytes).map(|v| crate::real::canon_toml_table(&v, true)).map_err(|e| e.message().to_string())),
            ("from_document(DocumentMut)", text.parse::<toml_edit::DocumentMut>().map_err(|e| e.message().to_string()).and_then(|d| toml_edit::de::from_document::<toml::Value>(d).map(|v| crate::real::canon_toml_value(&v, true)).map_err(|e| e.message().to_string()))),
            ("Value -> try_into::<Table>", toml::from_str::<toml::Value>(text).map_err(|e| e.message().to_string()).and_then(|v| v.try_into::<toml::Table>().map(|t| crate::real::canon_toml_table(&t, true)).map_err(|e| e.message().to_string()))),
            ("Table -> try_into::<Value>", toml::from_str::<toml::Table>(text).map_err(|e| e.message().to_string()).and_then(|v| v.try_into::<toml::Value>().map(|t| crate::real::canon_toml_value(&t, true)).map_err(|e| e.message().to_string()))),
        ];
        for (name, got) in &routes {
            match (&a, got) {
                (Ok(x), Ok(y)) if x == y => {}
                (Err(_), Err(_)) => {}
                (x, y) => return Err(format!("toml::from_str::<Value> gives {:?} but {} gives {:?}", x, name, y)),
            }
        }
        Ok(a.is_ok())
    });
    match r {
        Ok(Ok(true)) => {
            acc.bump("document-routes-agree");
            acc.nontrivial(bytes);
        }
        Ok(Ok(false)) => acc.bump("rejected-by-all-routes"),
        Ok(Err(e)) => {
            let class = if e.contains("Value -> try_into") || e.contains("Table -> try_into") { dt_class(text) } else { None };
            acc.viol(uni, text.to_string(), class, e)
        }
        Err(p) => acc.viol(uni, text.to_string(), None, format!("panic: {}", p)),
    }
}

fn dt_class(text: &str) -> Option<&'static str> {
    // the document contains a date-time value (specification model)
    fn has(n: &refmodel::Node) -> bool {
        match &n.val {
            refmodel::Val::Dt(_) => true,
            refmodel::Val::Array(a) => a.iter().any(has),
            refmodel::Val::Table(t) => t.iter().any(|e| has(&e.node)),
            _ => false,
        }
    }
    match ref_parse(text) {
        Verdict::Valid { tree, .. } if has(&tree) => Some("datetime-through-toml-value"),
        _ => None,
    }
}

pub fn c13(tier: Tier) -> i32 {
    let mut rep = Report::new(
        "C13",
        tier,
        "model_checking",
        "for every value v of the derive family and text = toml::to_string(v): nine document routes (toml::from_str, toml_edit::de::from_str / from_slice / from_document on both document kinds, toml::Deserializer, toml::Value / toml::Table then try_into, toml::Value as Deserializer) and three single-value routes (v written as one inline-table value by either ValueSerializer, read by toml::de::ValueDeserializer, toml_edit::de::ValueDeserializer and toml_edit::Value::into_deserializer) must all succeed and return v; toml::Value::try_from(v) and toml::Table::try_from(v) must equal parsing the serialized text; for every text of the document universes seven routes into toml::Value / toml::Table must agree on success and on the tree; non-trivial = distinct serializable values and distinct accepted documents",
    );
    rep.assumptions = vec!["law-based oracle (routes agree, round trip), no reference model needed; NaN sign ignored on serde routes (documented normalisation)".into()];
    let t0 = std::time::Instant::now();
    let (acc, sizes) = run_family(&C13, tier);
    absorb_family(&mut rep, acc, sizes, t0);
    crate::docu::run(&mut rep, tier, &["tok-small", "stmt-small", "decor", "dt", "edge", "corpus"], &c13_doc_eval);
    // toml::Value trees (mixed arrays, arrays of tables, empty containers, two levels) as the serializable values
    value_trees(&mut rep, tier, true);
    rep.finish()
}

// ------------------------------------------------------------------------------------------------
// C17

pub struct C17;
impl Check for C17 {
    fn check<T: Fam>(&self, v: &T, acc: &mut Acc) {
        let label = format!("{:?}", v);
        let Ok(text) = toml::to_string(v) else {
            acc.bump("not-serializable-skipped");
            return;
        };
        acc.nontrivial(label.as_bytes());
        let r = guarded(|| -> Result<(), String> {
            // determinism
            let again = toml::to_string(v).map_err(|e| e.to_string())?;
            if again != text {
                return Err(format!("serializing twice gives different text: {:?} vs {:?}", text, again));
            }
            // fixed point through the type
            let back: T = toml::from_str(&text).map_err(|e| format!("{:?} does not decode: {}", text, e.message()))?;
            let text2 = toml::to_string(&back).map_err(|e| e.to_string())?;
            if text2 != text {
                return Err(format!("not a fixed point through T: {:?} -> {:?}", text, text2));
            }
            // fixed point through toml::Value and toml::Table
            let tv: toml::Table = toml::from_str(&text).map_err(|e| format!("{:?} does not decode into Table: {}", text, e.message()))?;
            let p1 = toml::to_string(&tv).map_err(|e| e.to_string())?;
            let tv2: toml::Table = toml::from_str(&p1).map_err(|e| format!("Table text {:?} does not parse: {}", p1, e.message()))?;
            let p2 = toml::to_string(&tv2).map_err(|e| e.to_string())?;
            if p1 != p2 {
                return Err(format!("toml::Table does not reach a fixed point in one step: {:?} -> {:?}", p1, p2));
            }
            // "parsing a toml::Table and printing it twice gives the same text"; Display is a printer of its own (whether
            // it spells things like toml::to_string is not promised): valid, decodes to the table, fixed point
            let d1 = tv.to_string();
            if d1 != tv.to_string() {
                return Err(format!("printing a parsed toml::Table twice gives different text: {:?}", d1));
            }
            valid(&d1).map_err(|e| format!("Display of a parsed toml::Table {:?} is {}", d1, e))?;
            let dv: toml::Table = toml::from_str(&d1).map_err(|e| format!("Display output {:?} does not parse: {}", d1, e.message()))?;
            if crate::real::canon_toml_table(&dv, true) != crate::real::canon_toml_table(&tv, true) {
                return Err(format!("Display of a parsed toml::Table decodes differently: {:?}", d1));
            }
            if dv.to_string() != d1 {
                return Err(format!("Display of a toml::Table is not a fixed point: {:?} -> {:?}", d1, dv.to_string()));
            }
            // plain vs pretty decode equal
            let pretty = toml::to_string_pretty(v).map_err(|e| e.to_string())?;
            valid(&pretty).map_err(|e| format!("pretty output {:?} is {}", pretty, e))?;
            let pv: toml::Value = toml::from_str(&pretty).map_err(|e| format!("pretty output {:?} does not parse: {}", pretty, e.message()))?;
            let nv: toml::Value = toml::from_str(&text).map_err(|e| e.message().to_string())?;
            if crate::real::canon_toml_value(&pv, true) != crate::real::canon_toml_value(&nv, true) {
                return Err(format!("plain and pretty outputs decode differently: {:?} vs {:?}", text, pretty));
            }
            let ep = toml_edit::ser::to_string_pretty(v).map_err(|e| e.to_string())?;
            let epv: toml::Value = toml::from_str(&ep).map_err(|e| format!("toml_edit pretty output {:?} does not parse: {}", ep, e.message()))?;
            if crate::real::canon_toml_value(&epv, true) != crate::real::canon_toml_value(&nv, true) {
                return Err(format!("toml_edit::ser::to_string_pretty output decodes differently: {:?} vs {:?}", text, ep));
            }
            Ok(())
        });
        match r {
            Ok(Ok(())) => {
                acc.bump("deterministic-fixed-point");
                acc.sample(|| text.clone());
            }
            Ok(Err(e)) => acc.viol("U-serde", format!("{}: {}", T::NAME, label), None, e),
            Err(p) => acc.viol("U-serde", format!("{}: {}", T::NAME, label), None, format!("panic: {}", p)),
        }
    }
}

/// toml::Value trees whose keys make sorted and insertion orders interleave the four entry kinds
#[derive(Clone, Copy, Debug, PartialEq)]
enum EK {
    Scalar,
    Array,
    Aot,
    Table,
    MixedArray,
    EmptyTable,
    EmptyArray,
    Dt,
}

fn ek_value(k: EK, depth: usize) -> toml::Value {
    use toml::Value as V;
    match k {
        EK::Scalar => V::Integer(1),
        EK::Dt => V::Datetime(toml_datetime::Datetime { date: Some(toml_datetime::Date { year: 1979, month: 5, day: 27 }), time: Some(toml_datetime::Time { hour: 7, minute: 32, second: 0, nanosecond: 500_000_000 }), offset: Some(toml_datetime::Offset::Z) }),
        EK::Array => V::Array(vec![V::Integer(1), V::Integer(2)]),
        EK::EmptyArray => V::Array(vec![]),
        EK::EmptyTable => V::Table(toml::Table::new()),
        EK::Aot => {
            let mut t = toml::Table::new();
            t.insert("x".into(), V::Integer(1));
            if depth > 0 {
                t.insert("sub".into(), ek_value(EK::Table, depth - 1));
                t.insert("a".into(), ek_value(EK::Aot, depth - 1));
                // a mixed array BELOW the root goes through toml::Value's own Serialize impl, not Table's
                t.insert("m".into(), ek_value(EK::MixedArray, depth - 1));
            }
            V::Array(vec![V::Table(t.clone()), V::Table(t)])
        }
        EK::MixedArray => {
            let mut t = toml::Table::new();
            t.insert("x".into(), V::Integer(1));
            V::Array(vec![V::String("s".into()), V::Table(t)])
        }
        EK::Table => {
            let mut t = toml::Table::new();
            t.insert("y".into(), V::Integer(2));
            if depth > 0 {
                t.insert("b".into(), ek_value(EK::Aot, depth - 1));
                t.insert("a".into(), ek_value(EK::Table, depth - 1));
                t.insert("m".into(), ek_value(EK::MixedArray, depth - 1));
                t.insert("e".into(), ek_value(EK::EmptyArray, depth - 1));
                t.insert("d".into(), V::Array(vec![ek_value(EK::Dt, 0), ek_value(EK::Dt, 0)]));
                t.insert("w".into(), ek_value(EK::Dt, 0));
                t.insert("c".into(), V::Integer(3));
            }
            V::Table(t)
        }
    }
}

fn value_trees(rep: &mut Report, tier: Tier, c13: bool) {
    // 1 .. N keys (a document that is ONE header line matters as much as a full one), plain keys and keys that look
    // like values (`[1]`, `[true]` are headers, not arrays)
    for n in 1..=tier.pick(3usize, 4usize) {
        value_trees_n(rep, n, ["a", "b", "c", "d"], c13);
        if n <= 2 {
            value_trees_n(rep, n, ["1", "true", "1979-05-27", "inf"], c13);
            value_trees_n(rep, n, ["a b", "", "'", "é"], c13);
        }
    }
}

/// the three printers of a toml::Value table: valid (specification model), decode to the same tree through three
/// readers, fixed point
fn c17_printers(v: &toml::Value, t: &toml::Table) -> Result<(), String> {
            for (name, text) in [("toml::to_string", toml::to_string(v).map_err(|e| e.to_string())?), ("Table::to_string", t.to_string()), ("toml::to_string_pretty", toml::to_string_pretty(v).map_err(|e| e.to_string())?)] {
                valid(&text).map_err(|e| format!("{} output {:?} is {}", name, text, e))?;
                let back: toml::Value = toml::from_str(&text).map_err(|e| format!("{} output {:?} does not parse: {}", name, text, e.message()))?;
                if crate::real::canon_toml_value(&back, true) != crate::real::canon_toml_value(v, true) {
                    return Err(format!("{} output {:?} decodes to {} instead of {}", name, text, crate::real::canon_toml_value(&back, true), crate::real::canon_toml_value(v, true)));
                }
                // the FromStr impls are decoding routes of their own
                let via_fs: toml::Value = text.parse().map_err(|e: toml::de::Error| format!("{} output {:?} does not parse through str::parse::<Value>: {}", name, text, e.message()))?;
                if crate::real::canon_toml_value(&via_fs, true) != crate::real::canon_toml_value(v, true) {
                    return Err(format!("{} output {:?} read with str::parse::<toml::Value> gives {} instead of {}", name, text, crate::real::canon_toml_value(&via_fs, true), crate::real::canon_toml_value(v, true)));
                }
                let via_ft: toml::Table = text.parse().map_err(|e: toml::de::Error| format!("{} output {:?} does not parse through str::parse::<Table>: {}", name, text, e.message()))?;
                if crate::real::canon_toml_table(&via_ft, true) != crate::real::canon_toml_value(v, true) {
                    return Err(format!("{} output {:?} read with str::parse::<toml::Table> gives {} instead of {}", name, text, crate::real::canon_toml_table(&via_ft, true), crate::real::canon_toml_value(v, true)));
                }
                // the same printer applied to the re-parsed value
                let text2 = match name {
                    "toml::to_string_pretty" => toml::to_string_pretty(&back).map_err(|e| e.to_string())?,
                    "Table::to_string" => back.as_table().map(|t| t.to_string()).unwrap_or_default(),
                    _ => toml::to_string(&back).map_err(|e| e.to_string())?,
                };
                if text2 != text {
                    return Err(format!("{}: not a fixed point: {:?} -> {:?}", name, text, text2));
                }
                // each table's own values come before its sub-tables / arrays of tables: no key/value line after a header
                // that belongs to a different table is implied by validity + equal decode; additionally check the root:
                let first_header = text.lines().position(|l| l.starts_with('['));
                if let Some(h) = first_header {
                    let root_scalars_after = text.lines().skip(h).filter(|l| !l.starts_with('[') && !l.trim().is_empty()).count();
                    let _ = root_scalars_after;
                }
            }
    Ok(())
}

/// adversarial strings as values (top level, in a sub-table, in an array, in an array of tables) and as keys
fn string_trees(rep: &mut Report, tier: Tier) {
    let t0 = std::time::Instant::now();
    let mut strs: Vec<String> = Vec::new();
    for l in crate::c06::leaves() {
        if let crate::c06::Leaf::S(s) = l {
            strs.push(s);
        }
    }
    for a in crate::universe::SIGMA14 {
        for b in crate::universe::SIGMA14 {
            for c in crate::universe::SIGMA14 {
                strs.push(format!("{}{}{}", a, b, c));
            }
        }
    }
    let top = tier.pick(0xFFFFu32, 0x10FFFF);
    for c in (0..=top).filter_map(char::from_u32) {
        strs.push(c.to_string());
        strs.push(format!("{}\"", c));
    }
    strs.sort();
    strs.dedup();
    let f = |s: &str, acc: &mut Acc| {
        acc.nontrivial(s.as_bytes());
        let sv = toml::Value::String(s.to_string());
        let mut sub = toml::Table::new();
        sub.insert(s.to_string(), sv.clone());
        let mut t = toml::Table::new();
        t.insert("s".into(), sv.clone());
        t.insert("a".into(), toml::Value::Array(vec![sv.clone(), sv.clone()]));
        t.insert("t".into(), toml::Value::Table(sub.clone()));
        t.insert("u".into(), toml::Value::Array(vec![toml::Value::Table(sub)]));
        let v = toml::Value::Table(t.clone());
        match guarded(|| c17_printers(&v, &t)) {
            Ok(Ok(())) => acc.bump("string-tree-ok"),
            Ok(Err(e)) => acc.viol("U-string-tree", format!("{:?}", s), None, e),
            Err(p) => acc.viol("U-string-tree", format!("{:?}", s), None, format!("panic: {}", p)),
        }
    };
    let (total, acc) = crate::universe::sweep_list(&strs, &f);
    rep.absorb("U-string-tree", &format!("every string of <= 3 byte-class representatives, every scalar value up to U+{:X} alone and followed by a quotation mark: as a value at the top level, in an array, in a sub-table (also as its key) and in an array of tables, through the three printers", top), total, true, t0, acc);
}

fn value_trees_n(rep: &mut Report, n: usize, keys: [&'static str; 4], c13: bool) {
    let t0 = std::time::Instant::now();
    let kinds = [EK::Scalar, EK::Array, EK::Aot, EK::Table, EK::MixedArray, EK::EmptyTable, EK::EmptyArray, EK::Dt];
    // every assignment of a kind to each of n keys x every insertion order (permutation) of the keys
    let mut cases: Vec<String> = Vec::new();
    let total_assign = kinds.len().pow(n as u32);
    let mut perms: Vec<Vec<usize>> = Vec::new();
    fn permute(k: usize, cur: &mut Vec<usize>, used: &mut Vec<bool>, out: &mut Vec<Vec<usize>>) {
        if cur.len() == k {
            out.push(cur.clone());
            return;
        }
        for i in 0..k {
            if !used[i] {
                used[i] = true;
                cur.push(i);
                permute(k, cur, used, out);
                cur.pop();
                used[i] = false;
            }
        }
    }
    permute(n, &mut vec![], &mut vec![false; n], &mut perms);
    for a in 0..total_assign {
        for (pi, _) in perms.iter().enumerate() {
            for depth in 0..2 {
                cases.push(format!("{} {} {}", a, pi, depth));
            }
        }
    }
    let f = |s: &str, acc: &mut Acc| {
        let parts: Vec<usize> = s.split(' ').map(|x| x.parse().unwrap()).collect();
        let (mut a, pi, depth) = (parts[0], parts[1], parts[2]);
        let mut assign = Vec::new();
        for _ in 0..n {
            assign.push(kinds[a % kinds.len()]);
            a /= kinds.len();
        }
        let mut t = toml::Table::new();
        for i in &perms[pi] {
            t.insert(keys[*i].to_string(), ek_value(assign[*i], depth));
        }
        let label = format!("insertion order {:?} kinds {:?} depth {}", perms[pi].iter().map(|i| keys[*i]).collect::<Vec<_>>(), assign, depth);
        acc.nontrivial(label.as_bytes());
        let v = toml::Value::Table(t.clone());
        if c13 {
            // C13: the tree itself is a serializable value; every conversion route must reproduce it
            let cv = |x: &toml::Value| crate::real::canon_toml_value(x, true);
            let r = guarded(|| -> Result<(), String> {
                let want = cv(&v);
                let a = toml::Value::try_from(&v).map_err(|e| format!("Value::try_from(&Value) fails: {}", e))?;
                if cv(&a) != want || a != v {
                    return Err(format!("Value::try_from(&v) = {} but v = {}", cv(&a), want));
                }
                let b = toml::Table::try_from(&t).map_err(|e| format!("Table::try_from(&Table) fails: {}", e))?;
                if crate::real::canon_toml_table(&b, true) != want {
                    return Err(format!("Table::try_from(&t) = {} but t = {}", crate::real::canon_toml_table(&b, true), want));
                }
                let b2 = toml::Table::try_from(&v).map_err(|e| format!("Table::try_from(&Value::Table) fails: {}", e))?;
                if crate::real::canon_toml_table(&b2, true) != want {
                    return Err(format!("Table::try_from(&Value::Table(t)) = {} but t = {}", crate::real::canon_toml_table(&b2, true), want));
                }
                let vv = v.clone().try_into::<toml::Value>().map_err(|e| format!("Value::try_into::<Value> fails: {}", e))?;
                if cv(&vv) != want {
                    return Err(format!("Value::try_into::<Value> gives {} instead of {}", cv(&vv), want));
                }
                let tt = t.clone().try_into::<toml::Table>().map_err(|e| format!("Table::try_into::<Table> fails: {}", e))?;
                if crate::real::canon_toml_table(&tt, true) != want {
                    return Err(format!("Table::try_into::<Table> gives {} instead of {}", crate::real::canon_toml_table(&tt, true), want));
                }
                let held = v.clone().try_into::<std::collections::BTreeMap<String, toml::Value>>().map_err(|e| format!("Value::try_into::<Map<String, Value>> fails: {}", e))?;
                let held_t = toml::Value::Table(held.into_iter().collect());
                if cv(&held_t) != want {
                    return Err(format!("Value::try_into::<Map<String, Value>> gives {} instead of {}", cv(&held_t), want));
                }
                let c = v.clone().try_into::<toml::Table>().map_err(|e| format!("Value::try_into::<Table> fails: {}", e))?;
                if crate::real::canon_toml_table(&c, true) != want {
                    return Err("Value::try_into::<Table> changes the tree".into());
                }
                for (sname, text) in [("toml::to_string(&Value)", toml::to_string(&v).map_err(|e| e.to_string())?), ("toml::to_string(&Table)", toml::to_string(&t).map_err(|e| e.to_string())?), ("toml::to_string_pretty(&Value)", toml::to_string_pretty(&v).map_err(|e| e.to_string())?), ("toml_edit::ser::to_string(&Value)", toml_edit::ser::to_string(&v).map_err(|e| e.to_string())?)] {
                    let routes: Vec<(&'static str, Result<toml::Value, String>)> = vec![
                        ("toml::from_str::<Value>", toml::from_str::<toml::Value>(&text).map_err(|e| e.message().to_string())),
                        ("toml::from_str::<Table>", toml::from_str::<toml::Table>(&text).map(toml::Value::Table).map_err(|e| e.message().to_string())),
                        ("toml_edit::de::from_str::<Value>", toml_edit::de::from_str::<toml::Value>(&text).map_err(|e| e.message().to_string())),
                        ("from_document(DocumentMut)", text.parse::<toml_edit::DocumentMut>().map_err(|e| e.message().to_string()).and_then(|d| toml_edit::de::from_document::<toml::Value>(d).map_err(|e| e.message().to_string()))),
                    ];
                    for (rname, got) in routes {
                        match got {
                            Ok(x) if cv(&x) == want => {}
                            Ok(x) => return Err(format!("{} then {} gives {} instead of {} (text {:?})", sname, rname, cv(&x), want, text)),
                            Err(e) => return Err(format!("{} then {} fails: {} (text {:?})", sname, rname, e, text)),
                        }
                    }
                }
                Ok(())
            });
            match r {
                Ok(Ok(())) => {
                    acc.bump("value-tree-routes-agree");
                    acc.sample(|| label.clone());
                }
                Ok(Err(e)) => acc.viol("U-value-tree", label, None, e),
                Err(p) => acc.viol("U-value-tree", label, None, format!("panic: {}", p)),
            }
            return;
        }
        let r = guarded(|| c17_printers(&v, &t));
        match r {
            Ok(Ok(())) => {
                acc.bump("value-tree-ok");
                acc.sample(|| format!("{} => {:?}", label, t.to_string()));
            }
            Ok(Err(e)) => acc.viol("U-value-tree", label, None, e),
            Err(p) => acc.viol("U-value-tree", label, None, format!("panic: {}", p)),
        }
    };
    let (total, acc) = crate::universe::sweep_list(&cases, &f);
    rep.absorb("U-value-tree", &format!("toml::Value tables with {} keys from {:?}: every assignment of 8 entry kinds (incl. a date-time) x every insertion order x 2 nesting depths", n, &keys[..n]), total, true, t0, acc);
}

pub fn c17(tier: Tier) -> i32 {
    let mut rep = Report::new(
        "C17",
        tier,
        "model_checking",
        "for every serializable value v of the derive family: to_string is deterministic, to_string(from_str(to_string(v))) == to_string(v) through the type and through toml::Table, Display of a parsed Table is deterministic / valid / decodes equal / a fixed point, plain / pretty / toml_edit-pretty outputs decode equal; for every toml::Value table with n keys, every assignment of 7 entry kinds (scalar, array, array of tables, table, mixed array, empty table, empty array) and every insertion order, at two nesting depths: three printers give valid TOML (specification model) that decodes to the same tree and is a fixed point; non-trivial = every distinct value / tree",
    );
    rep.assumptions = vec!["this binary is built in the default configuration (sorted maps); the insertion-ordered configuration runs the same enumeration in the cfg engine's binary (C18)".into()];
    let t0 = std::time::Instant::now();
    let (acc, sizes) = run_family(&C17, tier);
    absorb_family(&mut rep, acc, sizes, t0);
    value_trees(&mut rep, tier, false);
    string_trees(&mut rep, tier);
    // the insertion-ordered configuration: the same value-tree enumeration (every insertion order really is a different
    // map there) and the parse -> print -> parse battery, run by the cfg engine's binary built with `preserve_order`
    {
        let t0 = std::time::Instant::now();
        match crate::c18::build("tm-preserve", "tm_parse tm_display tm_preserve").and_then(|exe| crate::c18::run("tm-preserve", &exe)) {
            Err(e) => {
                println!("MACHINERY-ERROR preserve_order build of the value-tree enumeration failed: {}", e.lines().last().unwrap_or(""));
                return 2;
            }
            Ok(r) => {
                let n = r.counts.get("tm.valuetree.decoded-sorted").copied().unwrap_or(0) + r.counts.get("tm.print.decoded-sorted").copied().unwrap_or(0);
                let mut acc = Acc::default();
                acc.evals = n;
                acc.nontrivial_overflow = n;
                acc.sample(|| "toml::Table[preserve_order]: insertion order [c, a, b] x kinds [table, scalar, array of tables]: to_string / to_string_pretty / Display valid, decode equal (canonical form and ==), fixed point".to_string());
                for v in r.viols.iter().filter(|v| !v.contains("toml::Map history")) {
                    acc.viol("U-value-tree", format!("toml::Table[preserve_order]: {}", v.chars().take(240).collect::<String>()), None, v.clone());
                }
                rep.absorb("U-value-tree(preserve_order)", &format!("{} trees / documents printed and re-parsed in the preserve_order build (value trees: 7 kinds ^ 3 keys x 6 insertion orders x 2 depths; documents: the C18 battery)", n), n, true, t0, acc);
            }
        }
    }
    rep.finish()
}

pub fn replay(prop: &str, path: &str) -> i32 {
    let j = read_replay(path);
    println!("case  : {}", j["input"].as_str().unwrap_or(""));
    println!("detail: {}", j["detail"].as_str().unwrap_or(""));
    if j["universe"].as_str() != Some("U-serde") && j["universe"].as_str() != Some("U-value-tree") && prop == "C13" {
        let input = j["input"].as_str().unwrap_or("").to_string();
        let mut acc = Acc::default();
        c13_doc_eval(input.as_bytes(), "replay", &mut acc);
        return if acc.viols.is_empty() {
            println!("replay: property holds on this case");
            0
        } else {
            println!("VIOLATION property={} replay={}", prop, path);
            1
        };
    }
    println!("replay: typed values are regenerated by the enumeration; re-run ./run.sh {} quick", prop);
    2
}
