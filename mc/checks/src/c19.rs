//! C19 — the toml! macro builds the same table as parsing the same text.
//!
//! `mc C19` enumerates documents over the token shapes the macro supports, writes them into a Rust program
//! (each both inside `toml!{..}` and as a string literal), compiles the program against /repo and runs it.

use crate::common::*;
use std::collections::BTreeSet;
use std::io::Write;
use std::process::Command;

const KEYS: [&str; 8] = ["a", "b-c", "\"q k\"", "\"-x\"", "a.b", "t-1.u", "x.\"--y\".z", "\"\""];

const VALUES: [&str; 55] = [
    "0", "1", "-1", "+1", "1_000", "2147483647", "-2147483648", "0x1F", "0o17", "0b101",
    "1.5", "-1.5", "+1.5", "1e3", "-0.0", "5e-324", "inf", "-inf", "+inf", "nan", "-nan",
    "true", "false",
    "\"s\"", "\"\"", "\"é\"", "\"a\\nb\"", "\"q\\\"x\"", "\"-\"",
    "1979-05-27", "07:32:00", "00:32:00.999999", "1979-05-27T07:32:00", "1979-05-27T07:32:00Z", "1979-05-27T07:32:00-07:00", "1979-05-27 07:32:00", "1979-05-27 07:32:00-07:00", "1979-05-27T00:32:00.999999-07:00", "1979-05-27 00:32:00.5Z",
    // leap second
    "23:59:60", "1998-12-31T23:59:60Z", "1998-12-31 23:59:60.5-00:00",
    // lower-case delimiter / zulu (RFC 3339 allows both cases)
    "1979-05-27t07:32:00", "1979-05-27t07:32:00z", "1979-05-27T07:32:00z", "1979-05-27t00:32:00.5-07:00",
    // more fraction digits than fit in nanoseconds (truncated by both routes)
    "07:32:00.1234567891", "00:00:00.0000000001", "1979-05-27T07:32:00.12345678912345Z", "1979-05-27 07:32:00.999999999999-07:00",
    "[1, 2]", "[]", "{ a = 1, b = \"x\" }", "{}", "[-1, +2, -inf]",
];

const NESTS: [(&str, &str); 9] = [("[", "]"), ("[", ",]"), ("[1, ", "]"), ("[[", "], []]"), ("{ k = ", " }"), ("{ k.j = ", ", z = 1 }"), ("[{ k = ", " }, { k = 1 }]"), ("{ k = [", "] }"), ("[\"s\", ", ", { a = 1 }]")];

const HEADERS: [&str; 12] = ["[t]", "[t.u]", "[t-1]", "[\"q k\"]", "[t.\"-v\"]", "[[arr]]", "[[arr.sub]]", "[[\"--w\"]]", "[a.b.c]", "[[my-bin]]", "[[a-b.c-d]]", "[x-y.z-w]"];

pub fn documents(tier: Tier) -> Vec<String> {
    let mut out: BTreeSet<String> = BTreeSet::new();
    // (a) every key with every value
    for k in KEYS {
        for v in VALUES {
            out.insert(format!("{} = {}\n", k, v));
        }
    }
    // (b) every value in every nesting
    for v in VALUES {
        for (pre, suf) in NESTS {
            out.insert(format!("k = {}{}{}\n", pre, v, suf));
        }
    }
    // (c) every header followed by every value, and by a dotted / quoted key
    for h in HEADERS {
        for v in VALUES {
            out.insert(format!("{}\nk = {}\n", h, v));
        }
        for k in KEYS {
            out.insert(format!("top = 1\n{}\n{} = 1\nz = 2\n", h, k));
        }
    }
    // (d) pairs of headers with content in between (sub-table before super-table, repeated arrays of tables, ...)
    for h1 in HEADERS {
        for h2 in HEADERS {
            out.insert(format!("{}\nx = 1\n{}\ny = -2\n", h1, h2));
            out.insert(format!("{}\n{}\n", h1, h2));
        }
    }
    // (e) pairs of key/value statements (quick: a slice; thorough: full cross over a reduced value set)
    let vs: Vec<&str> = match tier {
        Tier::Quick => vec!["-1", "\"s\"", "1979-05-27 07:32:00-07:00", "[1, 2]"],
        Tier::Thorough => VALUES.iter().copied().step_by(3).collect(),
    };
    for k1 in KEYS {
        for k2 in KEYS {
            for v1 in &vs {
                for v2 in &vs {
                    out.insert(format!("{} = {}\n{} = {}\n", k1, v1, k2, v2));
                }
            }
        }
    }
    if tier == Tier::Thorough {
        for h in HEADERS {
            for k in KEYS {
                for v in VALUES {
                    out.insert(format!("{}\n{} = {}\n", h, k, v));
                }
            }
        }
        for v1 in VALUES {
            for v2 in VALUES {
                out.insert(format!("k = [{}, {}]\n", v1, v2));
                out.insert(format!("k = {{ a = {}, b-c = {} }}\n", v1, v2));
            }
        }
    }
    // the quantifier is "documents that are valid TOML" - decided by the specification model, not by the parser under
    // test (a valid document the run-time parser refuses is reported by the generated program as a disagreement)
    out.into_iter().filter(|d| matches!(refmodel::ref_parse(d), refmodel::Verdict::Valid { ref limits, .. } if !limits.any())).collect()
}

fn rust_str(s: &str) -> String {
    format!("{:?}", s)
}

fn write_program(dir: &str, docs: &[String], offset: usize) -> std::io::Result<()> {
    std::fs::create_dir_all(format!("{}/src", dir))?;
    std::fs::write(
        format!("{}/Cargo.toml", dir),
        "[package]\nname = \"gen_macro\"\nversion = \"0.0.0\"\nedition = \"2021\"\npublish = false\n\n[dependencies]\ntoml = { path = \"/repo/crates/toml\" }\n\n[profile.dev]\nopt-level = 0\ndebug = 0\nincremental = false\n\n[workspace]\n",
    )?;
    let _ = std::fs::copy("/repo/Cargo.lock", format!("{}/Cargo.lock", dir));
    let mut f = std::fs::File::create(format!("{}/src/main.rs", dir))?;
    writeln!(f, "// generated by `mc C19`: each document inside toml!{{..}} and as a string literal")?;
    writeln!(f, "#![allow(clippy::all)]\nfn canon(v: &toml::Value, out: &mut String) {{\n    use std::fmt::Write;\n    match v {{\n        toml::Value::String(s) => {{ let _ = write!(out, \"s{{:?}}\", s); }}\n        toml::Value::Integer(i) => {{ let _ = write!(out, \"i{{}}\", i); }}\n        toml::Value::Float(f) => {{ let _ = write!(out, \"f{{:016x}}\", f.to_bits()); }}\n        toml::Value::Boolean(b) => {{ let _ = write!(out, \"b{{}}\", b); }}\n        toml::Value::Datetime(d) => {{ let _ = write!(out, \"d{{}}\", d); }}\n        toml::Value::Array(a) => {{ out.push('['); for x in a {{ canon(x, out); out.push(','); }} out.push(']'); }}\n        toml::Value::Table(t) => {{ out.push('{{'); let mut ks: Vec<&String> = t.keys().collect(); ks.sort(); for k in ks {{ let _ = write!(out, \"{{:?}}:\", k); canon(&t[k], out); out.push(','); }} out.push('}}'); }}\n    }}\n}}")?;
    writeln!(f, "fn check(i: usize, m: toml::Table, src: &str) {{\n    let mut a = String::new();\n    canon(&toml::Value::Table(m), &mut a);\n    match src.parse::<toml::Table>() {{\n        Ok(t) => {{\n            let mut b = String::new();\n            canon(&toml::Value::Table(t), &mut b);\n            if a == b {{ println!(\"OK {{}}\", i); }} else {{ println!(\"DIFF {{}} macro={{}} parsed={{}}\", i, a, b); }}\n        }}\n        Err(e) => println!(\"PARSE-ERR {{}} {{}}\", i, e.message()),\n    }}\n}}")?;
    // one function per 50 documents keeps rustc's per-function work small
    for (c, chunk) in docs.chunks(50).enumerate() {
        writeln!(f, "fn part{}() {{", c)?;
        for (j, d) in chunk.iter().enumerate() {
            let i = offset + c * 50 + j;
            writeln!(f, "    check({}, toml::toml! {{\n{}    }}, {});", i, d.lines().map(|l| format!("        {}\n", l)).collect::<String>(), rust_str(d))?;
        }
        writeln!(f, "}}")?;
    }
    writeln!(f, "fn main() {{")?;
    for c in 0..docs.chunks(50).count() {
        writeln!(f, "    part{}();", c)?;
    }
    writeln!(f, "}}")?;
    Ok(())
}

enum Outcome {
    Ran(String),
    CompileError(String),
}

fn build_and_run(dir: &str, target: &str) -> Result<Outcome, String> {
    let out = Command::new("cargo").current_dir(dir).args(["build", "--offline", "--target-dir", target]).output().map_err(|e| e.to_string())?;
    if !out.status.success() {
        let err = String::from_utf8_lossy(&out.stderr).to_string();
        if err.contains("error: could not compile `gen_macro`") || err.contains("gen_macro") && err.contains("error") {
            return Ok(Outcome::CompileError(err));
        }
        return Err(format!("cargo failed outside the generated program: {}", err.lines().rev().take(5).collect::<Vec<_>>().join(" | ")));
    }
    let run = Command::new(format!("{}/debug/gen_macro", target)).output().map_err(|e| e.to_string())?;
    if !run.status.success() {
        return Ok(Outcome::Ran(format!("{}\nCRASH {:?} {}", String::from_utf8_lossy(&run.stdout), run.status, String::from_utf8_lossy(&run.stderr).lines().last().unwrap_or(""))));
    }
    Ok(Outcome::Ran(String::from_utf8_lossy(&run.stdout).to_string()))
}

/// compile+run `docs[lo..hi]`; on a compile error bisect down to single documents
fn run_range(docs: &[String], lo: usize, hi: usize, slot: usize, acc: &mut Acc, programs: &mut u64, budget: &mut i32) -> Result<(), String> {
    if lo >= hi {
        return Ok(());
    }
    let mc = format!("{}/mc", verif_dir());
    let dir = format!("{}/gen_macro_{}", mc, slot);
    let target = format!("{}/target-cfg/gen_macro_{}", mc, slot);
    write_program(&dir, &docs[lo..hi], lo).map_err(|e| e.to_string())?;
    *programs += 1;
    match build_and_run(&dir, &target)? {
        Outcome::Ran(out) => {
            let mut seen = 0usize;
            for line in out.lines() {
                let mut it = line.splitn(3, ' ');
                match (it.next(), it.next().and_then(|x| x.parse::<usize>().ok())) {
                    (Some("OK"), Some(i)) => {
                        seen += 1;
                        acc.evals += 1;
                        acc.bump("macro-equals-parse");
                        acc.nontrivial(docs[i].as_bytes());
                        acc.sample(|| docs[i].clone());
                    }
                    (Some("DIFF"), Some(i)) => {
                        seen += 1;
                        acc.evals += 1;
                        acc.nontrivial(docs[i].as_bytes());
                        acc.viol("U-macro", docs[i].clone(), None, format!("toml!{{..}} differs from parsing the same text: {}", it.next().unwrap_or("")));
                    }
                    (Some("PARSE-ERR"), Some(i)) => {
                        seen += 1;
                        acc.evals += 1;
                        acc.viol("U-macro", docs[i].clone(), None, format!("toml!{{..}} builds a table but parsing the same (valid) text fails: {}", it.next().unwrap_or("")));
                    }
                    (Some("CRASH"), _) => acc.viol("U-macro", format!("program for documents {}..{}", lo, hi), None, line.to_string()),
                    _ => {}
                }
            }
            if seen != hi - lo {
                acc.viol("U-macro", format!("program for documents {}..{}", lo, hi), None, format!("only {} of {} documents reported", seen, hi - lo));
            }
            Ok(())
        }
        Outcome::CompileError(err) => {
            if hi - lo == 1 {
                acc.evals += 1;
                acc.nontrivial(docs[lo].as_bytes());
                let first = err.lines().find(|l| l.starts_with("error")).unwrap_or("error").to_string();
                acc.viol("U-macro", docs[lo].clone(), None, format!("a document of the supported token shapes that the parser accepts does not compile inside toml!{{..}}: {}", first));
                return Ok(());
            }
            *budget -= 1;
            if *budget < 0 {
                acc.viol("U-macro", format!("program for documents {}..{}", lo, hi), None, "does not compile (bisection budget exhausted)".into());
                return Ok(());
            }
            let mid = (lo + hi) / 2;
            run_range(docs, lo, mid, slot, acc, programs, budget)?;
            run_range(docs, mid, hi, slot, acc, programs, budget)
        }
    }
}

pub fn c19(tier: Tier) -> i32 {
    let mut rep = Report::new(
        "C19",
        tier,
        "exploration",
        "every document of the enumerated shapes (8 key shapes incl. hyphen-joined, quoted, quoted with leading '-', dotted; 44 value shapes incl. signed numbers, all bases, inf/nan with signs, Rust-compatible strings, the four date-time kinds with T / space, Z / -hh:mm, fractions; 9 nestings in arrays / inline tables; 9 header shapes; header pairs; statement pairs) that the parser accepts is emitted as a Rust program, once inside toml!{..} and once as a string literal, compiled against /repo and run; the macro's table must equal the parsed table (floats bit-wise); a supported shape that stops compiling is a violation (bisected to the document); non-trivial = every distinct document",
    );
    rep.assumptions = vec!["shapes the macro cannot tokenise by design are excluded by construction of the alphabet: literal strings, \\u escapes, +hh:mm offsets, multi-line strings, comments".into()];
    let t0 = std::time::Instant::now();
    let docs = documents(tier);
    let per_program = 700usize;
    let nprog = (docs.len() + per_program - 1) / per_program;
    let mut programs = 0u64;
    // programs are independent: build them in parallel, each in its own directory and target dir
    use rayon::prelude::*;
    let mut results: Vec<Result<(Acc, u64), String>> = Vec::new();
    let ids: Vec<usize> = (0..nprog).collect();
    for wave in ids.chunks(8) {
        // one directory + target dir per slot; a wave never reuses a slot concurrently
        let r: Vec<Result<(Acc, u64), String>> = wave
            .par_iter()
            .enumerate()
            .map(|(slot, p)| {
                let lo = p * per_program;
                let hi = ((p + 1) * per_program).min(docs.len());
                let mut acc = Acc::default();
                let mut progs = 0u64;
                let mut budget = 40;
                run_range(&docs, lo, hi, slot, &mut acc, &mut progs, &mut budget)?;
                Ok((acc, progs))
            })
            .collect();
        results.extend(r);
    }
    let mut acc = Acc::default();
    for r in results {
        match r {
            Ok((a, p)) => {
                acc = acc.merge(a);
                programs += p;
            }
            Err(e) => {
                println!("MACHINERY-ERROR {}", e);
                return 2;
            }
        }
    }
    rep.extra.insert("programs".into(), serde_json::json!(programs));
    rep.absorb("U-macro", &format!("{} documents in {} generated programs", docs.len(), programs), docs.len() as u64, true, t0, acc);
    rep.finish()
}

pub fn replay(path: &str) -> i32 {
    let j = read_replay(path);
    println!("document: {:?}", j["input"].as_str().unwrap_or(""));
    println!("detail  : {}", j["detail"].as_str().unwrap_or(""));
    println!("replay: paste the document into toml::toml!{{..}} and compare with .parse::<toml::Table>() (re-run ./run.sh C19 quick to regenerate the program)");
    2
}
