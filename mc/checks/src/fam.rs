//! U-serde: a family of derive(Serialize, Deserialize) types covering every serde shape TOML supports and
//! their nestings, with complete enumeration of their values over small leaf domains.

use crate::common::{Acc, Tier};
use rayon::prelude::*;
use serde::de::DeserializeOwned;
use serde::{Deserialize, Serialize};
use std::collections::BTreeMap;
use std::fmt::Debug;
use toml_datetime::Datetime;

pub trait Fam: Serialize + DeserializeOwned + PartialEq + Debug + Clone + Send + Sync + 'static {
    const NAME: &'static str;
    fn all(tier: Tier) -> Vec<Self>;
    /// contains one of the documented unsupported shapes (None or unit inside a sequence, non-string map key,
    /// integer beyond i64, non-table at the root, struct variant at the root)
    fn unsupported(&self) -> bool {
        false
    }
    /// contains a date-time somewhere (needed to attribute known findings precisely)
    fn has_datetime(&self) -> bool {
        false
    }
}

/// f64 compared bit-for-bit, all NaNs equal (the serde serializers drop the NaN sign by documented design)
#[derive(Serialize, Deserialize, Debug, Clone, Copy)]
#[serde(transparent)]
pub struct Fl(pub f64);
impl PartialEq for Fl {
    fn eq(&self, o: &Fl) -> bool {
        (self.0.is_nan() && o.0.is_nan()) || self.0.to_bits() == o.0.to_bits()
    }
}
#[derive(Serialize, Deserialize, Debug, Clone, Copy)]
#[serde(transparent)]
pub struct Fs(pub f32);
impl PartialEq for Fs {
    fn eq(&self, o: &Fs) -> bool {
        (self.0.is_nan() && o.0.is_nan()) || self.0.to_bits() == o.0.to_bits()
    }
}

pub fn ints() -> Vec<i64> {
    vec![0, -1, i64::MAX, i64::MIN]
}
pub fn strs() -> Vec<String> {
    vec!["".into(), "a".into(), "é\n\"'\\".into(), "1979-05-27".into()]
}
pub fn floats() -> Vec<Fl> {
    vec![Fl(0.5), Fl(-0.0), Fl(f64::INFINITY), Fl(f64::NAN), Fl(1e300), Fl(3.0)]
}
/// built from fields, never through the parser under test
pub fn dts() -> Vec<Datetime> {
    use toml_datetime::{Date, Offset, Time};
    vec![
        Datetime { date: Some(Date { year: 1979, month: 5, day: 27 }), time: None, offset: None },
        Datetime { date: Some(Date { year: 1979, month: 5, day: 27 }), time: Some(Time { hour: 7, minute: 32, second: 0, nanosecond: 0 }), offset: Some(Offset::Z) },
        Datetime { date: None, time: Some(Time { hour: 7, minute: 32, second: 0, nanosecond: 500_000_000 }), offset: None },
        Datetime { date: Some(Date { year: 2000, month: 2, day: 29 }), time: Some(Time { hour: 23, minute: 59, second: 60, nanosecond: 123_456_789 }), offset: Some(Offset::Custom { minutes: -30 }) },
        Datetime { date: Some(Date { year: 9999, month: 12, day: 31 }), time: Some(Time { hour: 0, minute: 0, second: 0, nanosecond: 1 }), offset: None },
    ]
}

#[derive(Serialize, Deserialize, PartialEq, Debug, Clone)]
pub enum E {
    Unit,
    Newtype(i64),
    Tuple(i64, String),
    Struct { x: i64, y: Option<String> },
    /// fields NOT in alphabetical order
    Rev { zeta: i64, alpha: bool, mid: Option<i64> },
}
pub fn es() -> Vec<E> {
    vec![E::Unit, E::Newtype(0), E::Newtype(-1), E::Tuple(1, "a".into()), E::Tuple(0, "".into()), E::Struct { x: 0, y: None }, E::Struct { x: 1, y: Some("é".into()) }, E::Rev { zeta: 3, alpha: true, mid: None }, E::Rev { zeta: -1, alpha: false, mid: Some(0) }]
}

#[derive(Serialize, Deserialize, PartialEq, Debug, Clone)]
pub struct Inner {
    pub a: i64,
    pub e: E,
}
pub fn inners() -> Vec<Inner> {
    let mut v = Vec::new();
    for a in [0, -1] {
        for e in es() {
            v.push(Inner { a, e });
        }
    }
    v
}

fn vecs<T: Clone>(dom: &[T], max_len: usize) -> Vec<Vec<T>> {
    let mut out: Vec<Vec<T>> = vec![vec![]];
    let mut layer: Vec<Vec<T>> = vec![vec![]];
    for _ in 0..max_len {
        let mut next = Vec::new();
        for p in &layer {
            for x in dom {
                let mut q = p.clone();
                q.push(x.clone());
                next.push(q);
            }
        }
        out.extend(next.iter().cloned());
        layer = next;
    }
    out
}
fn maps<T: Clone>(keys: &[&str], dom: &[T]) -> Vec<BTreeMap<String, T>> {
    // every partial assignment keys -> dom
    let mut out: Vec<BTreeMap<String, T>> = vec![BTreeMap::new()];
    for k in keys {
        let mut next = Vec::new();
        for m in &out {
            next.push(m.clone());
            for x in dom {
                let mut q = m.clone();
                q.insert(k.to_string(), x.clone());
                next.push(q);
            }
        }
        out = next;
    }
    out
}

// ---- root types

/// enum inside a sequence
#[derive(Serialize, Deserialize, PartialEq, Debug, Clone)]
pub struct R1 {
    pub v: Vec<E>,
}
impl Fam for R1 {
    const NAME: &'static str = "R1{v: Vec<E>}";
    fn all(tier: Tier) -> Vec<Self> {
        vecs(&es(), tier.pick(3, 4)).into_iter().map(|v| R1 { v }).collect()
    }
}

/// enums inside sequences inside a map, next to a scalar
#[derive(Serialize, Deserialize, PartialEq, Debug, Clone)]
pub struct R2 {
    pub m: BTreeMap<String, Vec<E>>,
    pub z: i64,
}
impl Fam for R2 {
    const NAME: &'static str = "R2{m: Map<String, Vec<E>>, z}";
    fn all(tier: Tier) -> Vec<Self> {
        let dom = vecs(&es(), tier.pick(2, 2));
        maps(&["a", "b c"], &dom).into_iter().map(|m| R2 { m, z: 1 }).collect()
    }
}

/// optional table, optional scalar, table
#[derive(Serialize, Deserialize, PartialEq, Debug, Clone)]
pub struct R3 {
    pub o: Option<Inner>,
    pub p: Option<i64>,
    pub i: Inner,
    pub q: Option<Vec<Inner>>,
}
impl Fam for R3 {
    const NAME: &'static str = "R3{o: Option<Inner>, p: Option<i64>, i: Inner, q: Option<Vec<Inner>>}";
    fn all(_tier: Tier) -> Vec<Self> {
        let mut v = Vec::new();
        let inn = inners();
        let mut oi: Vec<Option<Inner>> = vec![None];
        oi.extend(inn.iter().cloned().map(Some));
        for o in &oi {
            for p in [None, Some(0)] {
                for i in [&inn[0], &inn[6], &inn[13]] {
                    for q in [None, Some(vec![]), Some(vec![inn[5].clone()]), Some(vec![inn[0].clone(), inn[6].clone()])] {
                        v.push(R3 { o: o.clone(), p, i: i.clone(), q });
                    }
                }
            }
        }
        v
    }
}

/// array of tables, arrays, nested arrays, empty containers, tables after values
#[derive(Serialize, Deserialize, PartialEq, Debug, Clone)]
pub struct R4 {
    pub t: Vec<Inner>,
    pub s: Vec<i64>,
    pub n: Vec<Vec<i64>>,
    pub z: String,
    pub m: BTreeMap<String, Inner>,
}
impl Fam for R4 {
    const NAME: &'static str = "R4{t: Vec<Inner>, s: Vec<i64>, n: Vec<Vec<i64>>, z: String, m: Map<String, Inner>}";
    fn all(_tier: Tier) -> Vec<Self> {
        let inn = inners();
        let ts = vecs(&[inn[0].clone(), inn[3].clone(), inn[5].clone()], 2);
        let ss = vecs(&[0i64, i64::MIN], 2);
        let ns = vecs(&[vec![], vec![1i64], vec![1, 2]], 2);
        let ms = maps(&["k", "a.b"], &[inn[1].clone(), inn[6].clone()]);
        let mut v = Vec::new();
        for t in &ts {
            for s in &ss {
                for n in &ns {
                    for m in &ms {
                        v.push(R4 { t: t.clone(), s: s.clone(), n: n.clone(), z: "z".into(), m: m.clone() });
                    }
                }
            }
        }
        v
    }
}

#[derive(Serialize, Deserialize, PartialEq, Eq, PartialOrd, Ord, Debug, Clone, Copy)]
pub enum KeyE {
    Alpha,
    Beta,
}
/// unit-variant map keys; chars; bools
#[derive(Serialize, Deserialize, PartialEq, Debug, Clone)]
pub struct R5 {
    pub k: BTreeMap<KeyE, i64>,
    pub c: char,
    pub b: bool,
    pub kk: BTreeMap<String, BTreeMap<KeyE, String>>,
}
impl Fam for R5 {
    const NAME: &'static str = "R5{k: Map<UnitEnum, i64>, c: char, b: bool, kk: Map<String, Map<UnitEnum, String>>}";
    fn all(_tier: Tier) -> Vec<Self> {
        let mut ks: Vec<BTreeMap<KeyE, i64>> = vec![BTreeMap::new()];
        ks.push([(KeyE::Alpha, 0)].into_iter().collect());
        ks.push([(KeyE::Beta, -1), (KeyE::Alpha, 1)].into_iter().collect());
        let inner: Vec<BTreeMap<KeyE, String>> = vec![BTreeMap::new(), [(KeyE::Beta, "".to_string())].into_iter().collect(), [(KeyE::Alpha, "é".to_string()), (KeyE::Beta, "b".to_string())].into_iter().collect()];
        let kks = maps(&["", "x"], &inner);
        let mut v = Vec::new();
        for k in &ks {
            for c in ['a', '\n', 'é', '"'] {
                for b in [true, false] {
                    for kk in &kks {
                        v.push(R5 { k: k.clone(), c, b, kk: kk.clone() });
                    }
                }
            }
        }
        v
    }
}

/// every integer width at its edges, floats
#[derive(Serialize, Deserialize, PartialEq, Debug, Clone)]
pub struct R6 {
    pub a: i8,
    pub b: i16,
    pub c: i32,
    pub d: i64,
    pub e: u8,
    pub f: u16,
    pub g: u32,
    pub h: u64,
    pub x: Fl,
    pub y: Fs,
}
impl Fam for R6 {
    const NAME: &'static str = "R6{i8..u64, f64, f32}";
    fn all(_tier: Tier) -> Vec<Self> {
        let mut v = Vec::new();
        let base = R6 { a: 0, b: 0, c: 0, d: 0, e: 0, f: 0, g: 0, h: 0, x: Fl(0.5), y: Fs(0.5) };
        v.push(base.clone());
        // one field deviating at a time (deviation bound 1), then all-at-edges
        for a in [i8::MIN, i8::MAX] {
            v.push(R6 { a, ..base.clone() });
        }
        for b in [i16::MIN, i16::MAX] {
            v.push(R6 { b, ..base.clone() });
        }
        for c in [i32::MIN, i32::MAX] {
            v.push(R6 { c, ..base.clone() });
        }
        for d in [i64::MIN, i64::MAX] {
            v.push(R6 { d, ..base.clone() });
        }
        v.push(R6 { e: u8::MAX, ..base.clone() });
        v.push(R6 { f: u16::MAX, ..base.clone() });
        v.push(R6 { g: u32::MAX, ..base.clone() });
        for h in [i64::MAX as u64, i64::MAX as u64 + 1, u64::MAX] {
            v.push(R6 { h, ..base.clone() });
        }
        for x in floats() {
            v.push(R6 { x, ..base.clone() });
        }
        for x in [-f64::NAN, f64::from_bits(0xfff0_0000_0000_0001), f64::NEG_INFINITY] {
            v.push(R6 { x: Fl(x), ..base.clone() });
        }
        for y in [0.1f32, -0.0, f32::INFINITY, f32::NAN, -f32::NAN, f32::from_bits(0xff80_0001), f32::NEG_INFINITY, 1.0, f32::MAX, f32::MIN_POSITIVE, 16777216.0] {
            v.push(R6 { y: Fs(y), ..base.clone() });
        }
        v.push(R6 { a: i8::MIN, b: i16::MAX, c: i32::MIN, d: i64::MAX, e: u8::MAX, f: u16::MAX, g: u32::MAX, h: i64::MAX as u64, x: Fl(-0.0), y: Fs(-0.0) });
        v
    }
    fn unsupported(&self) -> bool {
        self.h > i64::MAX as u64
    }
}

#[derive(Serialize, Deserialize, PartialEq, Debug, Clone)]
pub enum EDt {
    At(Datetime),
    Span { from: Datetime, to: Option<Datetime> },
    Never,
}
/// date-times as fields, in sequences, optional, inside enums and maps
#[derive(Serialize, Deserialize, PartialEq, Debug, Clone)]
pub struct R7 {
    pub d: Datetime,
    pub dd: Vec<Datetime>,
    pub od: Option<Datetime>,
    pub de: EDt,
    pub dm: BTreeMap<String, Datetime>,
}
impl Fam for R7 {
    const NAME: &'static str = "R7{d: Datetime, dd: Vec<Datetime>, od: Option<Datetime>, de: enum with Datetime, dm: Map<String, Datetime>}";
    fn all(_tier: Tier) -> Vec<Self> {
        let ds = dts();
        let mut v = Vec::new();
        for d in &ds {
            for dd in vecs(&[ds[0], ds[3]], 2) {
                for od in [None, Some(ds[1])] {
                    for de in [EDt::Never, EDt::At(ds[2]), EDt::Span { from: ds[0], to: None }, EDt::Span { from: ds[1], to: Some(ds[3]) }] {
                        for dm in maps(&["k"], &[ds[2]]) {
                            v.push(R7 { d: *d, dd: dd.clone(), od, de: de.clone(), dm });
                        }
                    }
                }
            }
        }
        v
    }
    fn has_datetime(&self) -> bool {
        true
    }
}

#[derive(Serialize, Deserialize, PartialEq, Debug, Clone)]
pub struct Newt(pub Inner);
#[derive(Serialize, Deserialize, PartialEq, Debug, Clone)]
pub struct NewtI(pub i64);
#[derive(Serialize, Deserialize, PartialEq, Debug, Clone)]
pub enum EN {
    NInner(Inner),
    NVec(Vec<Inner>),
    TInner(Inner, Inner),
    TMixed(i64, Inner),
}
/// tuples, newtypes, newtype / tuple variants holding tables
#[derive(Serialize, Deserialize, PartialEq, Debug, Clone)]
pub struct R8 {
    pub tup: (i64, E, Inner),
    pub nt: Newt,
    pub ni: NewtI,
    pub en: EN,
    pub ens: Vec<EN>,
}
impl Fam for R8 {
    const NAME: &'static str = "R8{tup: (i64, E, Inner), nt: Newtype(Inner), ni: Newtype(i64), en: enum holding tables, ens: Vec<that enum>}";
    fn all(_tier: Tier) -> Vec<Self> {
        let inn = inners();
        let e = es();
        let ens = vec![EN::NInner(inn[0].clone()), EN::NVec(vec![]), EN::NVec(vec![inn[5].clone(), inn[1].clone()]), EN::TInner(inn[0].clone(), inn[6].clone()), EN::TMixed(7, inn[3].clone())];
        let mut v = Vec::new();
        for te in [&e[0], &e[3], &e[6]] {
            for nt in [&inn[0], &inn[5]] {
                for en in &ens {
                    for es2 in vecs(&ens, 1).into_iter().chain([vec![ens[3].clone(), ens[0].clone()], vec![ens[2].clone(), ens[2].clone()]]) {
                        v.push(R8 { tup: (1, te.clone(), inn[1].clone()), nt: Newt(nt.clone()), ni: NewtI(-1), en: en.clone(), ens: es2 });
                    }
                }
            }
        }
        v
    }
}

#[derive(Serialize, Deserialize, PartialEq, Debug, Clone)]
#[serde(untagged)]
pub enum Any {
    I(i64),
    S(String),
    T(Inner),
    A(Vec<i64>),
}
/// mixed arrays: tables next to scalars inside one array (also below a table)
#[derive(Serialize, Deserialize, PartialEq, Debug, Clone)]
pub struct R9 {
    pub x: Vec<Any>,
    pub sub: BTreeMap<String, Vec<Any>>,
}
impl Fam for R9 {
    const NAME: &'static str = "R9{x: Vec<untagged int|string|table|array>, sub: Map<String, same>}";
    fn all(tier: Tier) -> Vec<Self> {
        let inn = inners();
        let dom = vec![Any::I(1), Any::S("s".into()), Any::T(inn[0].clone()), Any::T(inn[5].clone()), Any::A(vec![1])];
        let xs = vecs(&dom, tier.pick(3, 4));
        let small = vecs(&dom, 2);
        let mut v = Vec::new();
        for x in &xs {
            v.push(R9 { x: x.clone(), sub: BTreeMap::new() });
        }
        for s in &small {
            let mut m = BTreeMap::new();
            m.insert("k".to_string(), s.clone());
            v.push(R9 { x: vec![], sub: m.clone() });
            v.push(R9 { x: vec![Any::S("s".into()), Any::T(inn[5].clone())], sub: m });
        }
        v
    }
}

/// the documented unsupported shapes
#[derive(Serialize, Deserialize, PartialEq, Debug, Clone)]
pub struct U1 {
    pub on: Vec<Option<i64>>,
    pub un: Vec<()>,
    pub ik: BTreeMap<i64, i64>,
    pub ok: i64,
}
impl Fam for U1 {
    const NAME: &'static str = "U1{on: Vec<Option<i64>>, un: Vec<()>, ik: Map<i64, i64>} (unsupported shapes)";
    fn all(_tier: Tier) -> Vec<Self> {
        let mut v = Vec::new();
        for on in [vec![], vec![Some(1)], vec![None], vec![Some(1), None]] {
            for un in [vec![], vec![()]] {
                for ik in [BTreeMap::new(), [(1i64, 2i64)].into_iter().collect::<BTreeMap<_, _>>()] {
                    v.push(U1 { on: on.clone(), un: un.clone(), ik, ok: 1 });
                }
            }
        }
        v
    }
    fn unsupported(&self) -> bool {
        self.on.iter().any(|x| x.is_none()) || !self.un.is_empty() || !self.ik.is_empty()
    }
}

/// None nested in sequences that are *map* values (a different serializer path than struct fields)
#[derive(Serialize, Deserialize, PartialEq, Debug, Clone)]
pub struct U2 {
    pub mo: BTreeMap<String, Vec<Option<i64>>>,
    pub ms: BTreeMap<String, BTreeMap<String, Vec<Option<i64>>>>,
    pub tv: Vec<BTreeMap<String, Vec<Option<i64>>>>,
    pub ok: i64,
}
impl Fam for U2 {
    const NAME: &'static str = "U2{mo: Map<String, Vec<Option<i64>>>, ms: Map<String, Map<String, Vec<Option>>>, tv: Vec<Map<String, Vec<Option>>>}";
    fn all(_tier: Tier) -> Vec<Self> {
        let dom: Vec<Vec<Option<i64>>> = vec![vec![], vec![Some(1)], vec![None], vec![Some(1), None, Some(2)]];
        let mos = maps(&["a", "b"], &dom);
        let inner = maps(&["k"], &dom);
        let mss = maps(&["x"], &inner);
        let mut v = Vec::new();
        for mo in &mos {
            for ms in &mss {
                for tv in [vec![], vec![inner[0].clone()], vec![inner[1].clone(), inner[3].clone()]] {
                    v.push(U2 { mo: mo.clone(), ms: ms.clone(), tv, ok: 1 });
                }
            }
        }
        v
    }
    fn unsupported(&self) -> bool {
        let bad = |x: &Vec<Option<i64>>| x.iter().any(|e| e.is_none());
        self.mo.values().any(bad) || self.ms.values().any(|m| m.values().any(bad)) || self.tv.iter().any(|m| m.values().any(bad))
    }
}

/// roots that are not tables / enum variants at the root
impl Fam for E {
    const NAME: &'static str = "E at the root (unit / newtype / tuple / struct variant)";
    fn all(_tier: Tier) -> Vec<Self> {
        es()
    }
    fn unsupported(&self) -> bool {
        // unit variant = a string at the root; struct variant at the root is documented; a tuple variant at the
        // root is written as its sequence by toml's document serializer, i.e. a non-table at the root
        matches!(self, E::Unit | E::Struct { .. } | E::Rev { .. } | E::Tuple(..))
    }
}
impl Fam for Vec<Inner> {
    const NAME: &'static str = "Vec<Inner> at the root (non-table root)";
    fn all(_tier: Tier) -> Vec<Self> {
        vec![vec![], inners()[..2].to_vec()]
    }
    fn unsupported(&self) -> bool {
        true
    }
}
impl Fam for Inner {
    const NAME: &'static str = "Inner{a: i64, e: E} at the root";
    fn all(_tier: Tier) -> Vec<Self> {
        inners()
    }
}
impl Fam for BTreeMap<String, BTreeMap<String, Vec<BTreeMap<String, i64>>>> {
    const NAME: &'static str = "Map<String, Map<String, Vec<Map<String, i64>>>> at the root";
    fn all(_tier: Tier) -> Vec<Self> {
        let leaf: Vec<BTreeMap<String, i64>> = maps(&["p", "q"], &[0i64]);
        let vs = vecs(&leaf, 2);
        let mid = maps(&["m", "n o"], &vs[..vs.len().min(12)]);
        let small: Vec<BTreeMap<String, Vec<BTreeMap<String, i64>>>> = mid.into_iter().take(60).collect();
        maps(&["a", "b"], &small[..small.len().min(8)]).into_iter().collect()
    }
}

/// None inside a tuple / a fixed-size array (sequences without being Vec): unsupported like None in a Vec
#[derive(Serialize, Deserialize, PartialEq, Debug, Clone)]
pub struct U3 {
    pub t: (Option<i64>, i64),
    pub a: [Option<i64>; 2],
    pub n: i64,
}
impl Fam for U3 {
    const NAME: &'static str = "U3{t: (Option<i64>, i64), a: [Option<i64>; 2], n}";
    fn all(_tier: Tier) -> Vec<Self> {
        let o = [None, Some(0i64), Some(-3)];
        let mut v = Vec::new();
        for t0 in o {
            for a0 in o {
                for a1 in o {
                    v.push(U3 { t: (t0, 1), a: [a0, a1], n: 7 });
                }
            }
        }
        v
    }
    fn unsupported(&self) -> bool {
        self.t.0.is_none() || self.a.iter().any(|x| x.is_none())
    }
}

/// `Some(None)` and a newtype around `None`: a `None` one wrapper down must be refused like a bare nested `None`
#[derive(Serialize, Deserialize, PartialEq, Debug, Clone)]
pub struct NewtO(pub Option<i64>);
#[derive(Serialize, Deserialize, PartialEq, Debug, Clone)]
pub struct U4 {
    pub oo: Option<Option<i64>>,
    pub nt: NewtO,
    pub m: BTreeMap<String, Option<Option<i64>>>,
    pub z: i64,
}
impl Fam for U4 {
    const NAME: &'static str = "U4{oo: Option<Option<i64>>, nt: NewtO(Option<i64>), m: Map<String, Option<Option<i64>>>}";
    fn all(_tier: Tier) -> Vec<Self> {
        let mut v = Vec::new();
        for oo in [None, Some(None), Some(Some(3i64))] {
            for nt in [NewtO(None), NewtO(Some(0))] {
                for m in maps(&["k"], &[Some(None), Some(Some(1i64))]) {
                    v.push(U4 { oo, nt: nt.clone(), m, z: 9 });
                }
            }
        }
        v
    }
    fn unsupported(&self) -> bool {
        // Option<Option<T>> cannot tell Some(None) from None, a required newtype field cannot be left out
        self.oo == Some(None) || self.nt.0.is_none() || self.m.values().any(|x| *x == Some(None))
    }
}
/// map keys that are not strings (refused) and unit-variant keys whose serde name is not a bare key (quoted)
#[derive(Serialize, Deserialize, PartialEq, Eq, PartialOrd, Ord, Debug, Clone)]
pub enum KeyR {
    #[serde(rename = "net.ipv4")]
    Dotted,
    #[serde(rename = "two words")]
    Spaced,
    #[serde(rename = "clé")]
    NonAscii,
    #[serde(rename = "")]
    Empty,
    Plain,
}
#[derive(Serialize, Deserialize, PartialEq, Debug, Clone)]
pub struct U5 {
    pub ik: BTreeMap<u32, i64>,
    pub rk: BTreeMap<KeyR, i64>,
    pub rt: BTreeMap<KeyR, BTreeMap<String, i64>>,
    pub z: i64,
}
impl Fam for U5 {
    const NAME: &'static str = "U5{ik: Map<u32, i64>, rk: Map<KeyR, i64>, rt: Map<KeyR, Map<String, i64>>}";
    fn all(_tier: Tier) -> Vec<Self> {
        let ks = [KeyR::Dotted, KeyR::Spaced, KeyR::NonAscii, KeyR::Empty, KeyR::Plain];
        let mut v = Vec::new();
        for ik in [BTreeMap::new(), BTreeMap::from([(1u32, 2i64)])] {
            for mask in 0..32u32 {
                let rk: BTreeMap<KeyR, i64> = ks.iter().enumerate().filter(|(i, _)| mask & (1 << i) != 0).map(|(i, k)| (k.clone(), i as i64)).collect();
                let rt: BTreeMap<KeyR, BTreeMap<String, i64>> = ks.iter().enumerate().filter(|(i, _)| mask & (1 << ((i + 2) % 5)) != 0).map(|(i, k)| (k.clone(), BTreeMap::from([("x".to_string(), i as i64)]))).collect();
                v.push(U5 { ik: ik.clone(), rk, rt, z: 1 });
            }
        }
        v
    }
    fn unsupported(&self) -> bool {
        !self.ik.is_empty()
    }
}

/// a newtype STRUCT at the root (serializers see through it; the document deserializer must as well)
#[derive(Serialize, Deserialize, PartialEq, Debug, Clone)]
pub struct RootNewt(pub Inner);
impl Fam for RootNewt {
    const NAME: &'static str = "newtype struct RootNewt(Inner) at the root";
    fn all(_tier: Tier) -> Vec<Self> {
        inners().into_iter().map(RootNewt).collect()
    }
}
#[derive(Serialize, Deserialize, PartialEq, Debug, Clone)]
pub struct RootNewtMap(pub BTreeMap<String, NewtI>);
impl Fam for RootNewtMap {
    const NAME: &'static str = "newtype struct RootNewtMap(Map<String, NewtI>) at the root";
    fn all(_tier: Tier) -> Vec<Self> {
        maps(&["a", "b c"], &[NewtI(0), NewtI(-7)]).into_iter().map(RootNewtMap).collect()
    }
}
/// an OPTION at the root, and payloads that print as the empty document (all fields None, an empty map)
#[derive(Serialize, Deserialize, PartialEq, Debug, Clone)]
pub struct AllOpt {
    pub a: Option<i64>,
    pub b: Option<String>,
    pub m: Option<BTreeMap<String, i64>>,
}
#[derive(Serialize, Deserialize, PartialEq, Debug, Clone)]
pub struct RootOpt(pub Option<AllOpt>);
impl Fam for Option<AllOpt> {
    const NAME: &'static str = "Option<AllOpt{a, b, m: all optional}> at the root";
    fn all(_tier: Tier) -> Vec<Self> {
        let mut v = vec![None];
        for a in [None, Some(0i64)] {
            for b in [None, Some("s".to_string())] {
                for m in [None, Some(BTreeMap::new()), Some(maps(&["k"], &[1i64]).pop().unwrap())] {
                    v.push(Some(AllOpt { a, b: b.clone(), m }));
                }
            }
        }
        v
    }
    fn unsupported(&self) -> bool {
        // a bare None at the root has no spelling
        self.is_none()
    }
}
impl Fam for BTreeMap<String, BTreeMap<String, i64>> {
    const NAME: &'static str = "Map<String, Map<String, i64>> at the root (empty maps at both levels)";
    fn all(_tier: Tier) -> Vec<Self> {
        let inner: Vec<BTreeMap<String, i64>> = maps(&["p", "q"], &[0i64]);
        maps(&["a", "b"], &inner)
    }
}

/// an externally tagged enum at the root whose newtype variants hold tables: `[V1]` ...
#[derive(Serialize, Deserialize, PartialEq, Debug, Clone)]
pub enum RootEnum {
    V1(Inner),
    V2(BTreeMap<String, i64>),
    Third(Newt),
}
impl Fam for RootEnum {
    const NAME: &'static str = "enum RootEnum { V1(Inner), V2(Map), Third(Newt) } at the root";
    fn all(_tier: Tier) -> Vec<Self> {
        let mut v: Vec<RootEnum> = inners().into_iter().map(RootEnum::V1).collect();
        v.extend(maps(&["a", "V1"], &[0i64, 5]).into_iter().map(RootEnum::V2));
        v.extend(inners().into_iter().take(4).map(|i| RootEnum::Third(Newt(i))));
        v
    }
}

/// `None` reached through serde's MAP interface (a map whose values are options, a flattened struct): TOML has no null,
/// a `None` is spelled by leaving the entry out, so values are compared modulo `None` entries
#[derive(Serialize, Deserialize, PartialEq, Debug, Clone)]
pub struct FlatIn {
    pub fa: Option<i64>,
    pub fb: i64,
    pub fc: Option<String>,
}
#[derive(Serialize, Deserialize, Debug, Clone)]
pub struct U6 {
    pub m: BTreeMap<String, Option<i64>>,
    #[serde(flatten)]
    pub f: FlatIn,
    pub z: i64,
}
impl PartialEq for U6 {
    fn eq(&self, o: &U6) -> bool {
        let live = |m: &BTreeMap<String, Option<i64>>| m.iter().filter(|(_, v)| v.is_some()).map(|(k, v)| (k.clone(), *v)).collect::<Vec<_>>();
        live(&self.m) == live(&o.m) && self.f == o.f && self.z == o.z
    }
}
impl Fam for U6 {
    const NAME: &'static str = "U6{m: Map<String, Option<i64>>, #[serde(flatten)] f: {fa: Option, fb, fc: Option}, z} (None through the map interface; equality modulo None entries)";
    fn all(_tier: Tier) -> Vec<Self> {
        let mut v = Vec::new();
        for m in maps(&["a", "b c", "d"], &[None, Some(0i64)]) {
            for fa in [None, Some(-1i64)] {
                for fc in [None, Some("s".to_string())] {
                    v.push(U6 { m: m.clone(), f: FlatIn { fa, fb: 2, fc: fc.clone() }, z: 1 });
                }
            }
        }
        v
    }
}

pub trait Check: Sync {
    fn check<T: Fam>(&self, v: &T, acc: &mut Acc);
}

fn run_one<T: Fam, C: Check>(c: &C, tier: Tier, total: &mut Acc, sizes: &mut Vec<(String, usize)>) {
    let vals = T::all(tier);
    sizes.push((T::NAME.to_string(), vals.len()));
    let acc = vals
        .par_iter()
        .fold(Acc::default, |mut acc, v| {
            acc.evals += 1;
            c.check(v, &mut acc);
            acc
        })
        .reduce(Acc::default, Acc::merge);
    let t = std::mem::take(total);
    *total = t.merge(acc);
}

pub fn run_family<C: Check>(c: &C, tier: Tier) -> (Acc, Vec<(String, usize)>) {
    let mut total = Acc::default();
    let mut sizes = Vec::new();
    run_one::<R1, C>(c, tier, &mut total, &mut sizes);
    run_one::<R2, C>(c, tier, &mut total, &mut sizes);
    run_one::<R3, C>(c, tier, &mut total, &mut sizes);
    run_one::<R4, C>(c, tier, &mut total, &mut sizes);
    run_one::<R5, C>(c, tier, &mut total, &mut sizes);
    run_one::<R6, C>(c, tier, &mut total, &mut sizes);
    run_one::<R7, C>(c, tier, &mut total, &mut sizes);
    run_one::<R8, C>(c, tier, &mut total, &mut sizes);
    run_one::<R9, C>(c, tier, &mut total, &mut sizes);
    run_one::<U1, C>(c, tier, &mut total, &mut sizes);
    run_one::<U2, C>(c, tier, &mut total, &mut sizes);
    run_one::<U3, C>(c, tier, &mut total, &mut sizes);
    run_one::<U4, C>(c, tier, &mut total, &mut sizes);
    run_one::<U5, C>(c, tier, &mut total, &mut sizes);
    run_one::<U6, C>(c, tier, &mut total, &mut sizes);
    run_one::<E, C>(c, tier, &mut total, &mut sizes);
    run_one::<Vec<Inner>, C>(c, tier, &mut total, &mut sizes);
    run_one::<Inner, C>(c, tier, &mut total, &mut sizes);
    run_one::<Option<AllOpt>, C>(c, tier, &mut total, &mut sizes);
    run_one::<BTreeMap<String, BTreeMap<String, i64>>, C>(c, tier, &mut total, &mut sizes);
    run_one::<RootNewt, C>(c, tier, &mut total, &mut sizes);
    run_one::<RootNewtMap, C>(c, tier, &mut total, &mut sizes);
    run_one::<RootEnum, C>(c, tier, &mut total, &mut sizes);
    run_one::<BTreeMap<String, BTreeMap<String, Vec<BTreeMap<String, i64>>>>, C>(c, tier, &mut total, &mut sizes);
    (total, sizes)
}
