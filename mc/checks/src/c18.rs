//! C18 — cargo feature choices change performance or ordering only, never results.
//!
//! The `cfgbattery` binary is compiled once per feature configuration (own target directory each) and run; it
//! prints block digests of (verdict, decoded tree, printed text, ...) per battery item.  Digests of the same
//! kind must be equal in every configuration that can compute that kind.

use crate::common::*;
use std::collections::BTreeMap;
use std::process::Command;

pub fn configs(tier: Tier) -> Vec<(&'static str, &'static str)> {
    let quick = vec![
        ("te-default", "te_parse te_display"),
        ("te-perf", "te_parse te_display te_perf"),
        ("te-parse-only", "te_parse"),
        ("te-display-only", "te_display"),
        ("tm-default", "tm_parse tm_display"),
        ("tm-preserve", "tm_parse tm_display tm_preserve"),
        ("te-unbounded", "te_parse te_display te_unbounded"),
        ("te-serde", "te_parse te_display te_serde"),
        ("tm-parse-only", "tm_parse"),
        ("tm-display-only", "tm_display"),
    ];
    let more = vec![
        ("te-perf-serde", "te_parse te_display te_perf te_serde"),
        ("te-parse-perf", "te_parse te_perf"),
        ("te-display-perf", "te_display te_perf"),
        ("te-parse-serde", "te_parse te_serde"),
        ("tm-preserve-parse-only", "tm_parse tm_preserve"),
        ("tm-preserve-display-only", "tm_display tm_preserve"),
        ("tm-perf", "tm_parse tm_display te_perf"),
        ("tm-preserve-perf", "tm_parse tm_display tm_preserve te_perf"),
        ("tm-unbounded", "tm_parse tm_display te_unbounded"),
        ("tm-bare", "tm"),
    ];
    match tier {
        Tier::Quick => quick,
        Tier::Thorough => quick.into_iter().chain(more).collect(),
    }
}

fn mc_dir() -> String {
    format!("{}/mc", verif_dir())
}

pub fn build(name: &str, feats: &str) -> Result<String, String> {
    let target = format!("{}/target-cfg/{}", mc_dir(), name);
    let out = Command::new("cargo")
        .current_dir(mc_dir())
        .args(["build", "--offline", "--profile", "mc", "-p", "cfgbattery", "--features", feats, "--target-dir", &target])
        .output()
        .map_err(|e| format!("cannot run cargo: {}", e))?;
    if !out.status.success() {
        let err = String::from_utf8_lossy(&out.stderr);
        let tail: Vec<&str> = err.lines().rev().take(30).collect();
        return Err(tail.into_iter().rev().collect::<Vec<_>>().join("\n"));
    }
    Ok(format!("{}/mc/cfgbattery", target))
}

pub struct Run {
    pub name: &'static str,
    pub exe: String,
    pub blocks: BTreeMap<String, Vec<String>>,
    pub counts: BTreeMap<String, u64>,
    pub viols: Vec<String>,
}

pub fn run(name: &'static str, exe: &str) -> Result<Run, String> {
    let out = Command::new(exe).output().map_err(|e| format!("cannot run {}: {}", exe, e))?;
    let mut r = Run { name, exe: exe.to_string(), blocks: BTreeMap::new(), counts: BTreeMap::new(), viols: Vec::new() };
    if !out.status.success() {
        // the battery is the same deterministic program in every configuration and guards every library call: if it
        // dies in one of them (abort, stack overflow), that is this configuration's result
        r.viols.push(format!("the battery process died in this configuration ({:?}): {}", out.status, String::from_utf8_lossy(&out.stderr).lines().last().unwrap_or("")));
    }
    for line in String::from_utf8_lossy(&out.stdout).lines() {
        if let Some(rest) = line.strip_prefix("BLOCK ") {
            let mut it = rest.rsplitn(3, ' ');
            let h = it.next().unwrap_or("");
            let _idx = it.next();
            let kind = it.next().unwrap_or("");
            r.blocks.entry(kind.to_string()).or_default().push(h.to_string());
        } else if let Some(rest) = line.strip_prefix("DONE ") {
            if let Some((kind, n)) = rest.rsplit_once(' ') {
                r.counts.insert(kind.to_string(), n.parse().unwrap_or(0));
            }
        } else if let Some(rest) = line.strip_prefix("VIOL ") {
            r.viols.push(rest.to_string());
        }
    }
    Ok(r)
}

fn dump(exe: &str, kind: &str, block: usize) -> Vec<String> {
    Command::new(exe).args(["dump", kind, &block.to_string()]).output().map(|o| String::from_utf8_lossy(&o.stdout).lines().filter(|l| l.starts_with("ITEM ")).map(|l| l.to_string()).collect()).unwrap_or_default()
}

pub fn c18(tier: Tier) -> i32 {
    let mut rep = Report::new(
        "C18",
        tier,
        "exploration",
        "the feature matrix is enumerated completely (toml_edit: default / perf / serde / unbounded x parse+display / parse-only / display-only; toml: default / preserve_order x parse+display / parse-only / display-only, plus perf and unbounded underneath); every configuration must build; one deterministic battery (all documents of <= 4 tokens, all statement sequences of <= 3, range-edge literals, decor samples, API-built documents, toml::Value trees in every insertion order, every toml::Map call history of <= 4 calls over 4 keys) is run in each; digests of verdicts, decoded trees, printed text and sorted observations are compared between all configurations that can compute them; non-trivial = battery items compared in at least two configurations",
    );
    rep.assumptions = vec!["documented exceptions: preserve_order changes iteration / print order of toml::Table (order-dependent kinds are compared only between configurations with the same ordering, content-sorted kinds between all); unbounded only matters beyond the recursion limit: the deep-nesting kind is compared between configurations with the same boundedness, and the unbounded ones must accept every deep document".into()];
    let t0 = std::time::Instant::now();
    let mut runs: Vec<Run> = Vec::new();
    let mut acc = Acc::default();
    for (name, feats) in configs(tier) {
        let tb = std::time::Instant::now();
        match build(name, feats) {
            Err(log) => {
                acc.evals += 1;
                acc.viol("U-cfg", format!("configuration {} (features: {})", name, feats), None, format!("does not build:\n{}", log));
                continue;
            }
            Ok(exe) => match run(name, &exe) {
                Err(e) => {
                    println!("MACHINERY-ERROR {}", e);
                    return 2;
                }
                Ok(r) => {
                    eprintln!("[C18] configuration {:<26} built+ran in {:>5.1}s: {} kinds, {} items, {} internal violations", name, tb.elapsed().as_secs_f64(), r.blocks.len(), r.counts.values().sum::<u64>(), r.viols.len());
                    for v in &r.viols {
                        acc.viol("U-cfg", format!("configuration {}: {}", name, v.chars().take(300).collect::<String>()), None, v.clone());
                    }
                    runs.push(r);
                }
            },
        }
    }
    // compare kind by kind
    let mut kinds: BTreeMap<String, Vec<usize>> = BTreeMap::new();
    for (i, r) in runs.iter().enumerate() {
        for k in r.blocks.keys() {
            kinds.entry(k.clone()).or_default().push(i);
        }
    }
    let mut compared_items = 0u64;
    let mut table = Vec::new();
    for (kind, who) in &kinds {
        let n = runs[who[0]].counts.get(kind).copied().unwrap_or(0);
        table.push(format!("{}: {} items x {} configurations", kind, n, who.len()));
        if who.len() < 2 {
            continue;
        }
        compared_items += n * who.len() as u64;
        acc.nontrivial_overflow += n;
        let base = &runs[who[0]];
        for j in &who[1..] {
            let other = &runs[*j];
            let (a, b) = (&base.blocks[kind], &other.blocks[kind]);
            if a == b {
                acc.bump("kind-agrees");
                continue;
            }
            let first = a.iter().zip(b.iter()).position(|(x, y)| x != y).unwrap_or(a.len().min(b.len()));
            let da = dump(&base.exe, kind, first);
            let db = dump(&other.exe, kind, first);
            let diff = da.iter().zip(db.iter()).find(|(x, y)| x != y).map(|(x, y)| format!("{}  vs  {}", x, y)).unwrap_or_else(|| format!("block {} differs in length: {} vs {} items", first, da.len(), db.len()));
            acc.viol("U-cfg", format!("{} between {} and {}", kind, base.name, other.name), None, format!("results differ: {}", diff.chars().take(600).collect::<String>()));
        }
    }
    acc.evals += compared_items;
    acc.sample(|| format!("configurations: {}", runs.iter().map(|r| r.name).collect::<Vec<_>>().join(", ")));
    for t in table.iter().take(4) {
        acc.sample(|| t.clone());
    }
    rep.extra.insert("kinds".into(), serde_json::json!(table));
    rep.extra.insert("configurations".into(), serde_json::json!(configs(tier).iter().map(|(n, f)| format!("{}: {}", n, f)).collect::<Vec<_>>()));
    rep.absorb("U-cfg", &format!("{} configurations x one battery", configs(tier).len()), compared_items, true, t0, acc);
    rep.finish()
}

pub fn replay(path: &str) -> i32 {
    let j = read_replay(path);
    println!("case  : {}", j["input"].as_str().unwrap_or(""));
    println!("detail: {}", j["detail"].as_str().unwrap_or(""));
    println!("replay: re-run ./run.sh C18 quick (configurations are rebuilt from the working tree)");
    2
}
