//! C10 — string and key quoting is exact for every string in every offered style.

use crate::common::*;
use crate::universe::{sweep_upto, SIGMA14};
use refmodel::{ref_parse, Val, Verdict};
use toml_edit::{DocumentMut, Key, Value};
use toml_write::{ToTomlKey, ToTomlValue, TomlKeyBuilder, TomlStringBuilder};

fn model_value_of(doc: &str, path: &[&str]) -> Result<String, String> {
    match ref_parse(doc) {
        Verdict::Valid { tree, .. } => {
            let mut n = &tree;
            for k in path {
                match &n.val {
                    Val::Table(t) => match t.iter().find(|e| e.key == *k) {
                        Some(e) => n = &e.node,
                        None => return Err(format!("spec model: key {:?} missing in {:?}", k, doc)),
                    },
                    Val::Array(a) if *k == "0" => n = &a[0],
                    _ => return Err(format!("spec model: cannot descend {:?} in {:?}", k, doc)),
                }
            }
            match &n.val {
                Val::Str(s) => Ok(s.clone()),
                _ => Err(format!("spec model: not a string in {:?}", doc)),
            }
        }
        Verdict::Invalid(r) => Err(format!("spec model rejects {:?}: {} at {}", doc, r.rule, r.at)),
        Verdict::UndecidedU1 => Err("U1".into()),
    }
}

fn check_value_token(s: &str, style: &'static str, tok: &str) -> Result<(), String> {
    // alone
    let v: Value = tok.parse().map_err(|e: toml_edit::TomlError| format!("style {}: token {:?} rejected as a value: {}", style, tok, e.message()))?;
    if v.as_str() != Some(s) {
        return Err(format!("style {}: token {:?} decodes to {:?}", style, tok, v.as_str()));
    }
    // inside documents
    for (doc, path) in [(format!("k = {}\n", tok), vec!["k"]), (format!("k = [{}]\n", tok), vec!["k", "0"]), (format!("k = {{ a = {} }}\n", tok), vec!["k", "a"]), (format!("k={}", tok), vec!["k"])] {
        let d: DocumentMut = doc.parse().map_err(|e: toml_edit::TomlError| format!("style {}: document {:?} rejected: {}", style, doc, e.message()))?;
        let got = match path.as_slice() {
            ["k"] => d["k"].as_str(),
            ["k", "0"] => d["k"].as_array().and_then(|a| a.get(0)).and_then(|x| x.as_str()),
            _ => d["k"]["a"].as_str(),
        };
        if got != Some(s) {
            return Err(format!("style {}: in {:?} the value decodes to {:?}", style, doc, got));
        }
        let m = model_value_of(&doc, &path).map_err(|e| format!("style {}: {}", style, e))?;
        if m != s {
            return Err(format!("style {}: the specification decodes {:?} to {:?}", style, doc, m));
        }
    }
    Ok(())
}

fn check_key_token(s: &str, style: &'static str, tok: &str) -> Result<(), String> {
    let k: Key = tok.parse().map_err(|e: toml_edit::TomlError| format!("key style {}: token {:?} rejected as a key: {}", style, tok, e.message()))?;
    if k.get() != s {
        return Err(format!("key style {}: token {:?} decodes to {:?}", style, tok, k.get()));
    }
    // however a key is spelled, it IS its string: equality, ordering and hashing follow the decoded text
    // (Key implements Borrow<str>, so a map keyed by Key is looked up by &str: the hashes must agree)
    {
        use std::hash::{Hash, Hasher};
        let plain = Key::new(s);
        let h = |x: &dyn Fn(&mut std::collections::hash_map::DefaultHasher)| {
            let mut st = std::collections::hash_map::DefaultHasher::new();
            x(&mut st);
            st.finish()
        };
        let hk = h(&|st| k.hash(st));
        let hp = h(&|st| plain.hash(st));
        let hs = h(&|st| s.hash(st));
        if k != plain || k != *s || !(k == s.to_string()) || k.partial_cmp(&plain) != Some(std::cmp::Ordering::Equal) || k.cmp(&plain) != std::cmp::Ordering::Equal {
            return Err(format!("key style {}: the key parsed from {:?} does not compare equal to Key::new({:?}) / to the string", style, tok, s));
        }
        if hk != hp || hk != hs {
            return Err(format!("key style {}: the key parsed from {:?} hashes differently from Key::new / from the string it decodes to (Borrow<str> contract)", style, tok));
        }
        let other = Key::new(format!("{}~", s));
        if k.cmp(&other) != s.cmp(other.get()) || std::borrow::Borrow::<str>::borrow(&k) != s || &*k != s {
            return Err(format!("key style {}: ordering / Borrow / Deref of the key parsed from {:?} do not follow its string", style, tok));
        }
    }
    // every handle on the key prints the same token as the key itself
    {
        let mut k2 = k.clone();
        let shown = k.to_string();
        let via_mut = k2.as_mut().to_string();
        if via_mut != shown {
            return Err(format!("key style {}: KeyMut prints {:?}, the Key prints {:?}", style, via_mut, shown));
        }
        let back: Key = shown.parse().map_err(|e: toml_edit::TomlError| format!("key style {}: Display of the parsed key {:?} does not parse: {}", style, shown, e.message()))?;
        if back.get() != s {
            return Err(format!("key style {}: Display of the parsed key {:?} decodes to {:?}", style, shown, back.get()));
        }
    }
    let docs: [(String, Vec<&str>); 4] = [(format!("{} = 'v'\n", tok), vec![s]), (format!("[{}]\nx = 'v'\n", tok), vec![s, "x"]), (format!("a.{}.b = 'v'", tok), vec!["a", s, "b"]), (format!("k = {{ {} = 'v' }}\n", tok), vec!["k", s])];
    for (doc, path) in docs {
        let d: DocumentMut = doc.parse().map_err(|e: toml_edit::TomlError| format!("key style {}: document {:?} rejected: {}", style, doc, e.message()))?;
        let mut it: Option<&toml_edit::Item> = Some(d.as_item());
        for p in &path {
            it = it.and_then(|i| i.get(*p));
        }
        if it.and_then(|i| i.as_str()) != Some("v") {
            return Err(format!("key style {}: in {:?} the path {:?} does not lead to the value", style, doc, path));
        }
        let m = model_value_of(&doc, &path).map_err(|e| format!("key style {}: {}", style, e))?;
        if m != "v" {
            return Err(format!("key style {}: the specification reads {:?} differently", style, doc));
        }
    }
    Ok(())
}

pub fn c10_eval(s: &str, acc: &mut Acc) {
    acc.nontrivial(s.as_bytes());
    let r = guarded(|| -> Result<(), String> {
        let b = TomlStringBuilder::new(s);
        let offer = |style: &'static str, tok: Option<String>, acc: &mut Acc| -> Result<(), String> {
            match tok {
                Some(t) => {
                    acc.bump(style);
                    check_value_token(s, style, &t)
                }
                None => Ok(()),
            }
        };
        offer("value:default", Some(b.as_default().to_toml_value()), acc)?;
        offer("value:basic", Some(b.as_basic().to_toml_value()), acc)?;
        offer("value:ml_basic", Some(b.as_ml_basic().to_toml_value()), acc)?;
        offer("value:literal", b.as_literal().map(|t| t.to_toml_value()), acc)?;
        offer("value:ml_literal", b.as_ml_literal().map(|t| t.to_toml_value()), acc)?;
        offer("value:basic_pretty", b.as_basic_pretty().map(|t| t.to_toml_value()), acc)?;
        offer("value:ml_basic_pretty", b.as_ml_basic_pretty().map(|t| t.to_toml_value()), acc)?;
        offer("value:str.to_toml_value", Some(s.to_string().to_toml_value()), acc)?;
        offer("value:toml_edit::Value::from", Some(Value::from(s).to_string()), acc)?;
        offer("value:toml::Value::String", Some(toml::Value::String(s.to_string()).to_string()), acc)?;
        let kb = TomlKeyBuilder::new(s);
        let koffer = |style: &'static str, tok: Option<String>, acc: &mut Acc| -> Result<(), String> {
            match tok {
                Some(t) => {
                    acc.bump(style);
                    check_key_token(s, style, &t)
                }
                None => Ok(()),
            }
        };
        koffer("key:default", Some(kb.as_default().to_toml_key()), acc)?;
        koffer("key:basic", Some(kb.as_basic().to_toml_key()), acc)?;
        koffer("key:unquoted", kb.as_unquoted().map(|t| t.to_toml_key()), acc)?;
        koffer("key:literal", kb.as_literal().map(|t| t.to_toml_key()), acc)?;
        koffer("key:basic_pretty", kb.as_basic_pretty().map(|t| t.to_toml_key()), acc)?;
        koffer("key:str.to_toml_key", Some(s.to_string().to_toml_key()), acc)?;
        koffer("key:toml_edit::Key::new", Some(Key::new(s).to_string()), acc)?;
        // a table printed by the crates with this key and this value
        let mut d = DocumentMut::new();
        d[s] = toml_edit::value(s);
        let printed = d.to_string();
        let back: DocumentMut = printed.parse().map_err(|e: toml_edit::TomlError| format!("document built with key/value {:?} prints unparsable text {:?}: {}", s, printed, e.message()))?;
        if back.get(s).and_then(|i| i.as_str()) != Some(s) {
            return Err(format!("document built with key/value {:?} prints {:?} which decodes differently", s, printed));
        }
        let mut t = toml::Table::new();
        t.insert(s.to_string(), toml::Value::String(s.to_string()));
        let printed = t.to_string();
        let back: toml::Table = printed.parse().map_err(|e: toml::de::Error| format!("toml::Table with key/value {:?} prints unparsable text {:?}: {}", s, printed, e.message()))?;
        if back.get(s).and_then(|v| v.as_str()) != Some(s) {
            return Err(format!("toml::Table with key/value {:?} prints {:?} which decodes differently", s, printed));
        }
        Ok(())
    });
    match r {
        Ok(Ok(())) => acc.sample(|| format!("{:?} -> default value {} / default key {}", s, TomlStringBuilder::new(s).as_default().to_toml_value(), TomlKeyBuilder::new(s).as_default().to_toml_key())),
        Ok(Err(e)) => acc.viol("U-str", s.to_string(), None, e),
        Err(p) => {
            acc.panics += 1;
            acc.viol("U-str", s.to_string(), None, format!("panic: {}", p));
        }
    }
}

pub fn c10(tier: Tier) -> i32 {
    let mut rep = Report::new(
        "C10",
        tier,
        "model_checking",
        "every string of length <= n over SIGMA14 (one representative per byte class the encoder distinguishes) x every style TomlStringBuilder / TomlKeyBuilder offers, plus str::to_toml_value/key, toml_edit::Value::from / Key::new and toml::Value display: each offered token must parse alone, inside `k = tok`, an array, an inline table, a header and a dotted key, under the real parser and the specification model, and decode to exactly the original string; non-trivial = every distinct string (each is run through >= 17 styles); the histogram counts how often each style was offered",
    );
    rep.assumptions = vec!["SIGMA14 has one representative per byte class of toml_write's metrics and of the parser's string byte tables (the parser side of this choice is validated by U-byte in C01/C04)".into()];
    let n = tier.pick(5, 6);
    let t0 = std::time::Instant::now();
    let f = |s: &str, acc: &mut Acc| c10_eval(s, acc);
    let (total, acc) = sweep_upto(&SIGMA14, n, "", "", &f);
    rep.absorb("U-str", &format!("all strings of length <= {} over SIGMA14", n), total, true, t0, acc);
    // longer runs of quotes and mixed runs around the delimiter-length thresholds
    let t0 = std::time::Instant::now();
    let alpha = ["\"", "'", "\\", "\n", "a"];
    let n2 = tier.pick(7, 10);
    let (total, acc) = sweep_upto(&alpha, n2, "", "", &f);
    rep.absorb("U-quote-runs", &format!("all strings of length <= {} over {{\", ', \\, LF, a}}", n2), total, true, t0, acc);
    // every code point class by byte value: all of U+0000..U+07FF (every lead byte C2..DF x every continuation byte), and
    // a stride through the 3- and 4-byte planes; each alone, after a letter, before a letter and before a quote
    let t0 = std::time::Instant::now();
    let mut cps: Vec<char> = (0u32..0x800).filter_map(char::from_u32).collect();
    cps.extend((0x800u32..0x10000).step_by(tier.pick(61, 7)).filter_map(char::from_u32));
    cps.extend((0x10000u32..0x110000).step_by(tier.pick(4099, 257)).filter_map(char::from_u32));
    for edge in [0xD7FFu32, 0xE000, 0xFFFD, 0xFFFE, 0xFFFF, 0x10000, 0x10FFFF, 0xFEFF, 0x2028, 0x2029, 0x85, 0xA0, 0xAA, 0xB5, 0xBA, 0xB2, 0xBD, 0x0663, 0x2460] {
        if let Some(c) = char::from_u32(edge) {
            cps.push(c);
        }
    }
    let mut cases: Vec<String> = Vec::new();
    for c in cps {
        cases.push(c.to_string());
        cases.push(format!("a{}", c));
        cases.push(format!("{}a", c));
        cases.push(format!("{}\"", c));
        cases.push(format!("{}\\", c));
    }
    let (total, acc) = crate::universe::sweep_list(&cases, &f);
    rep.absorb("U-char", "every code point U+0000..U+07FF and a stride through the higher planes (plus edges), alone and next to a letter / quote / backslash", total, true, t0, acc);
    // long runs of one quote character: the writer counts run lengths in narrow integers, the thresholds that matter
    // (1, 2, 3 quotes in a row) reappear wherever such a counter wraps
    let t0 = std::time::Instant::now();
    let mut cases: Vec<String> = Vec::new();
    for q in ["\"", "'"] {
        for n in (1usize..=9).chain(125..=131).chain(252..=260).chain(509..=516).chain(767..=770).chain([1023, 1024, 1025, 65535, 65536, 65537, 65538]) {
            let run = q.repeat(n);
            cases.push(run.clone());
            cases.push(format!("a{}", run));
            cases.push(format!("{}a", run));
            cases.push(format!("\\{}", run));
            cases.push(format!("C:\\x\\{}", run));
            cases.push(format!("{}\n", run));
            cases.push(format!("{}a{}", run, q.repeat(3)));
            cases.push(format!("{}{}", run, if q == "'" { "\"" } else { "'" }));
        }
    }
    let (total, acc) = crate::universe::sweep_list(&cases, &f);
    rep.absorb("U-long-runs", "runs of 1-9, 125-131, 252-260, 509-516, 767-770, 1023-1025 and 65535-65538 quotes / apostrophes, alone and next to a letter, a backslash, a newline, a second run and the other quote", total, true, t0, acc);
    // vacuity: every style must have been offered at least once
    for style in ["value:literal", "value:ml_literal", "value:basic_pretty", "value:ml_basic_pretty", "key:unquoted", "key:literal", "key:basic_pretty"] {
        // (only a run WITHOUT violations can be vacuous: a violation ends the evaluation of its string early)
        if rep.acc.viol_total == 0 && rep.acc.hist.get(style).copied().unwrap_or(0) == 0 {
            println!("MACHINERY-ERROR style {} was never offered: vacuous run", style);
            return 2;
        }
    }
    rep.finish()
}

pub fn replay(path: &str) -> i32 {
    let j = read_replay(path);
    let input = j["input"].as_str().unwrap_or("").to_string();
    let mut acc = Acc::default();
    c10_eval(&input, &mut acc);
    println!("string: {:?}", input);
    if acc.viols.is_empty() {
        println!("replay: property holds on this case");
        0
    } else {
        for v in &acc.viols {
            println!("replay: {}", v.detail);
        }
        println!("VIOLATION property=C10 replay={}", path);
        1
    }
}
