//! C11 — numbers are lossless or rejected, never wrapped, saturated or rounded away.

use crate::common::*;
use crate::docu;
use crate::universe::sweep_list;
use refmodel::{parse_value_str, Val};
use serde::{Deserialize, Serialize};
use toml_write::ToTomlValue;

#[derive(Serialize, Deserialize, Debug, PartialEq)]
struct S<T> {
    v: T,
}

pub fn i64_lattice() -> Vec<i64> {
    let mut v = std::collections::BTreeSet::new();
    for k in 0..63 {
        let p = 1i64 << k;
        for d in [-1i64, 0, 1] {
            v.insert(p.wrapping_add(d));
            v.insert((-p).wrapping_add(d));
        }
    }
    let mut p: i64 = 1;
    for _ in 0..19 {
        for d in [-1i64, 0, 1] {
            v.insert(p.wrapping_add(d));
            v.insert((-p).wrapping_add(d));
        }
        p = p.saturating_mul(10);
    }
    for x in [i64::MIN, i64::MIN + 1, i64::MAX, i64::MAX - 1, 0, 1, -1, 255, 256, 65535, 65536, -128, -129, 127, 128, i32::MAX as i64, i32::MAX as i64 + 1, i32::MIN as i64, i32::MIN as i64 - 1, u32::MAX as i64, u32::MAX as i64 + 1] {
        v.insert(x);
    }
    v.into_iter().collect()
}

pub fn f64_lattice() -> Vec<u64> {
    let mut mants: Vec<u64> = vec![0, 1, 1 << 51, (1 << 52) - 1, 0x000F_FFFF_FFFF_FFFE, 0x0005_5555_5555_5555];
    for b in 0..52 {
        mants.push(1u64 << b);
    }
    let mut out = Vec::new();
    for e in 0..2048u64 {
        for m in &mants {
            for s in [0u64, 1] {
                out.push((s << 63) | (e << 52) | m);
            }
        }
    }
    // integral values around the printer's `{self}.0` branch and the shortest-digits boundaries
    for k in 0..=308 {
        for m in ["1", "9", "1.5", "9.999999999999999", "1.0000000000000002"] {
            for s in ["", "-"] {
                if let Ok(f) = format!("{}{}e{}", s, m, k).parse::<f64>() {
                    out.push(f.to_bits());
                }
                if let Ok(f) = format!("{}{}e-{}", s, m, k).parse::<f64>() {
                    out.push(f.to_bits());
                }
            }
        }
    }
    out.sort_unstable();
    out.dedup();
    out
}

pub fn f32_lattice() -> Vec<u32> {
    let mut mants: Vec<u32> = vec![0, 1, 1 << 22, (1 << 23) - 1, 0x2AAAAA];
    for b in 0..23 {
        mants.push(1u32 << b);
    }
    let mut out = Vec::new();
    for e in 0..256u32 {
        for m in &mants {
            for s in [0u32, 1] {
                out.push((s << 31) | (e << 23) | m);
            }
        }
    }
    for k in 0..=38 {
        for m in ["1", "9", "1.5"] {
            for s in ["", "-"] {
                if let Ok(f) = format!("{}{}e{}", s, m, k).parse::<f32>() {
                    out.push(f.to_bits());
                }
                if let Ok(f) = format!("{}{}e-{}", s, m, k).parse::<f32>() {
                    out.push(f.to_bits());
                }
            }
        }
    }
    out.sort_unstable();
    out.dedup();
    out
}

fn same_f64(a: f64, b: f64) -> bool {
    if a.is_nan() || b.is_nan() {
        a.is_nan() && b.is_nan() && a.is_sign_negative() == b.is_sign_negative()
    } else {
        a.to_bits() == b.to_bits()
    }
}

/// the printed literal must be a TOML float (per the specification model) with the same value, and the real parser must agree
fn check_float_literal(route: &str, f: f64, lit: &str) -> Result<(), String> {
    // the serde serializers deliberately (and documentedly) drop the sign of NaN: compare NaNs by NaN-ness there
    let serde_route = !(route.starts_with("toml_write") || route.starts_with("toml_edit::Value::from"));
    let same_f64 = |a: f64, b: f64| if serde_route && a.is_nan() && b.is_nan() { true } else { same_f64(a, b) };
    match parse_value_str(lit) {
        Ok((n, lim)) => match n.val {
            Val::Float(m) if !lim.any() && same_f64(m, f) => {}
            Val::Float(m) => return Err(format!("{}: {:?} ({:016x}) printed as {:?} which the specification reads as {:?} ({:016x}) limits={:?}", route, f, f.to_bits(), lit, m, m.to_bits(), lim)),
            other => return Err(format!("{}: {:?} printed as {:?} which is not a float literal but {:?}", route, f, lit, other)),
        },
        Err(r) => return Err(format!("{}: {:?} printed as {:?} which is not a valid TOML value: {}", route, f, lit, r.rule)),
    }
    let v: toml_edit::Value = lit.parse().map_err(|e: toml_edit::TomlError| format!("{}: {:?} printed as {:?}, rejected by the parser: {}", route, f, lit, e.message()))?;
    match v.as_float() {
        Some(g) if same_f64(g, f) => Ok(()),
        other => Err(format!("{}: {:?} ({:016x}) printed as {:?}, parses back to {:?}", route, f, f.to_bits(), lit, other)),
    }
}

fn check_int_literal(route: &str, i: i64, lit: &str) -> Result<(), String> {
    match parse_value_str(lit) {
        Ok((n, lim)) => match n.val {
            Val::Int(m) if !lim.any() && m == i as i128 => {}
            other => return Err(format!("{}: {} printed as {:?} which the specification reads as {:?}", route, i, lit, other)),
        },
        Err(r) => return Err(format!("{}: {} printed as {:?} which is not a valid TOML value: {}", route, i, lit, r.rule)),
    }
    let v: toml_edit::Value = lit.parse().map_err(|e: toml_edit::TomlError| format!("{}: {} printed as {:?}, rejected: {}", route, i, lit, e.message()))?;
    if v.as_integer() != Some(i) {
        return Err(format!("{}: {} printed as {:?}, parses back to {:?}", route, i, lit, v.as_integer()));
    }
    Ok(())
}

fn doc_value(text: &str) -> Option<String> {
    // `v = <lit>\n` -> <lit>
    text.strip_prefix("v = ").map(|r| r.trim_end().to_string())
}

fn writers(rep: &mut Report) {
    // i64
    let t0 = std::time::Instant::now();
    let ints: Vec<String> = i64_lattice().iter().map(|i| i.to_string()).collect();
    let f = |s: &str, acc: &mut Acc| {
        let i: i64 = s.parse().unwrap();
        acc.nontrivial(s.as_bytes());
        let r = guarded(|| -> Result<(), String> {
            check_int_literal("toml_write i64", i, &i.to_toml_value())?;
            check_int_literal("toml_edit::Value::from(i64)", i, toml_edit::Value::from(i).to_string().trim())?;
            check_int_literal("toml::Value::Integer display", i, &toml::Value::Integer(i).to_string())?;
            for (route, text) in [("toml::to_string", toml::to_string(&S { v: i }).map_err(|e| e.to_string())?), ("toml::to_string_pretty", toml::to_string_pretty(&S { v: i }).map_err(|e| e.to_string())?), ("toml_edit::ser::to_string", toml_edit::ser::to_string(&S { v: i }).map_err(|e| e.to_string())?)] {
                let lit = doc_value(&text).ok_or_else(|| format!("{}: unexpected layout {:?}", route, text))?;
                check_int_literal(route, i, &lit)?;
                let back: S<i64> = toml::from_str(&text).map_err(|e| format!("{}: {:?} does not decode: {}", route, text, e.message()))?;
                if back.v != i {
                    return Err(format!("{}: {} comes back as {}", route, i, back.v));
                }
            }
            Ok(())
        });
        match r {
            Ok(Ok(())) => acc.bump("i64-roundtrip"),
            Ok(Err(e)) => acc.viol("U-i64", s.to_string(), None, e),
            Err(p) => acc.viol("U-i64", s.to_string(), None, format!("panic: {}", p)),
        }
    };
    let (total, acc) = sweep_list(&ints, &f);
    rep.absorb("U-i64", "+-2^k, +-2^k+-1, +-10^k, +-10^k+-1, width edges: through toml_write, Value::from, toml::Value display and three serde serializers", total, true, t0, acc);

    // f64
    let t0 = std::time::Instant::now();
    let floats: Vec<String> = f64_lattice().iter().map(|b| format!("{:016x}", b)).collect();
    let f = |s: &str, acc: &mut Acc| {
        let x = f64::from_bits(u64::from_str_radix(s, 16).unwrap());
        acc.nontrivial(s.as_bytes());
        let r = guarded(|| -> Result<(), String> {
            check_float_literal("toml_write f64", x, &x.to_toml_value())?;
            check_float_literal("toml_edit::Value::from(f64)", x, toml_edit::Value::from(x).to_string().trim())?;
            check_float_literal("toml::Value::Float display", x, &toml::Value::Float(x).to_string())?;
            for (route, text) in [("toml::to_string", toml::to_string(&S { v: x }).map_err(|e| e.to_string())?), ("toml_edit::ser::to_string_pretty", toml_edit::ser::to_string_pretty(&S { v: x }).map_err(|e| e.to_string())?)] {
                let lit = doc_value(&text).ok_or_else(|| format!("{}: unexpected layout {:?}", route, text))?;
                check_float_literal(route, x, &lit)?;
                let back: S<f64> = toml::from_str(&text).map_err(|e| format!("{}: {:?} does not decode: {}", route, text, e.message()))?;
                if !(same_f64(back.v, x) || (x.is_nan() && back.v.is_nan())) {
                    return Err(format!("{}: {:?} comes back as {:?}", route, x, back.v));
                }
            }
            let tv = toml::Value::try_from(x).map_err(|e| e.to_string())?;
            if !matches!(tv, toml::Value::Float(g) if same_f64(g, x) || (g.is_nan() && x.is_nan())) {
                return Err(format!("toml::Value::try_from({:?}) = {:?}", x, tv));
            }
            Ok(())
        });
        match r {
            Ok(Ok(())) => acc.bump("f64-roundtrip"),
            Ok(Err(e)) => acc.viol("U-f64", s.to_string(), None, e),
            Err(p) => acc.viol("U-f64", s.to_string(), None, format!("panic: {}", p)),
        }
    };
    let (total, acc) = sweep_list(&floats, &f);
    rep.absorb("U-f64", "bit-pattern lattice: all 2048 exponents x {0, 1, 2^51, 2^52-1, patterns, each single mantissa bit} x both signs, plus decimal powers: through 3 writers, 2 serde serializers, Value::try_from", total, true, t0, acc);

    // f32
    let t0 = std::time::Instant::now();
    let floats: Vec<String> = f32_lattice().iter().map(|b| format!("{:08x}", b)).collect();
    let f = |s: &str, acc: &mut Acc| {
        let x = f32::from_bits(u32::from_str_radix(s, 16).unwrap());
        acc.nontrivial(s.as_bytes());
        let r = guarded(|| -> Result<(), (Option<&'static str>, String)> {
            let lit = x.to_toml_value();
            let class = Some("toml_write-f32-plain-display");
            // must be a float literal that parses back to the same f32
            match parse_value_str(&lit) {
                Ok((n, _)) => match n.val {
                    Val::Float(m) => {
                        let back = m as f32;
                        let ok = if x.is_nan() { back.is_nan() && back.is_sign_negative() == x.is_sign_negative() } else { back.to_bits() == x.to_bits() };
                        if !ok {
                            return Err((None, format!("toml_write f32: {:?} printed as {:?} which reads as {:?}", x, lit, m)));
                        }
                    }
                    other => return Err((class, format!("toml_write f32: {:?} printed as {:?} which is not a float literal but {:?}", x, lit, other))),
                },
                Err(r) => return Err((class, format!("toml_write f32: {:?} printed as {:?} which is not a valid TOML value: {}", x, lit, r.rule))),
            }
            // serde route: f32 field
            let text = toml::to_string(&S { v: x }).map_err(|e| (None, e.to_string()))?;
            let back: S<f32> = toml::from_str(&text).map_err(|e| (None, format!("toml::to_string(f32 {:?}) = {:?} does not decode: {}", x, text, e.message())))?;
            // (the serde serializers drop the sign of NaN by documented design)
            let ok = if x.is_nan() { back.v.is_nan() } else { back.v.to_bits() == x.to_bits() };
            if !ok {
                return Err((None, format!("serde f32 {:?} comes back as {:?} via {:?}", x, back.v, text)));
            }
            Ok(())
        });
        match r {
            Ok(Ok(())) => acc.bump("f32-roundtrip"),
            Ok(Err((c, e))) => acc.viol("U-f32", s.to_string(), c, e),
            Err(p) => acc.viol("U-f32", s.to_string(), None, format!("panic: {}", p)),
        }
    };
    let (total, acc) = sweep_list(&floats, &f);
    rep.absorb("U-f32", "f32 bit-pattern lattice (all 256 exponents x mantissa patterns x signs) through toml_write f32 and the serde f32 route", total, true, t0, acc);
}

macro_rules! ser_width {
    ($t:ty, $de:ident, $acc:expr) => {{
        let vals: Vec<$t> = vec![<$t>::MIN, <$t>::MIN.wrapping_add(1), 0 as $t, 1 as $t, <$t>::MAX.wrapping_sub(1), <$t>::MAX, (<$t>::MAX / 2), (<$t>::MAX / 2).wrapping_add(1)];
        for v in vals {
            $acc.evals += 1;
            let wide = v as i128;
            let label = format!("serialize {} as {}", v, stringify!($t));
            $acc.nontrivial(label.as_bytes());
            let fits = wide >= i64::MIN as i128 && wide <= i64::MAX as i128 && (v as u128 <= i64::MAX as u128 || wide < 0);
            // the value-level serializers, on the bare value, a newtype around it and Some(it)
            #[derive(Serialize)]
            struct Nt<T>(T);
            let mut value_routes: Vec<(String, Result<String, String>)> = Vec::new();
            {
                let mut b = String::new();
                value_routes.push(("toml::ser::ValueSerializer(bare)".into(), v.serialize(toml::ser::ValueSerializer::new(&mut b)).map(|_| b.clone()).map_err(|e| e.to_string())));
                let mut b = String::new();
                value_routes.push(("toml::ser::ValueSerializer(newtype)".into(), Nt(v).serialize(toml::ser::ValueSerializer::new(&mut b)).map(|_| b.clone()).map_err(|e| e.to_string())));
                let mut b = String::new();
                value_routes.push(("toml::ser::ValueSerializer(Some)".into(), Some(v).serialize(toml::ser::ValueSerializer::new(&mut b)).map(|_| b.clone()).map_err(|e| e.to_string())));
                value_routes.push(("toml_edit::ser::ValueSerializer(bare)".into(), v.serialize(toml_edit::ser::ValueSerializer::new()).map(|x| x.to_string()).map_err(|e| e.to_string())));
                value_routes.push(("toml_edit::ser::ValueSerializer(newtype)".into(), Nt(v).serialize(toml_edit::ser::ValueSerializer::new()).map(|x| x.to_string()).map_err(|e| e.to_string())));
                value_routes.push(("toml::Value::try_from(bare)".into(), toml::Value::try_from(v).map(|x| x.to_string()).map_err(|e| e.to_string())));
                value_routes.push(("toml::Value::try_from(Some)".into(), toml::Value::try_from(Some(v)).map(|x| x.to_string()).map_err(|e| e.to_string())));
            }
            for (name, out) in &value_routes {
                match out {
                    Ok(text) => {
                        if !fits {
                            $acc.viol("U-width", label.clone(), None, format!("{}: a value beyond i64 was written as {:?} instead of failing", name, text));
                        } else if text.trim() != wide.to_string() {
                            $acc.viol("U-width", label.clone(), None, format!("{}: written as {:?}, expected {}", name, text, wide));
                        }
                    }
                    Err(e) => {
                        if fits && std::mem::size_of::<$t>() <= 8 {
                            $acc.viol("U-width", label.clone(), None, format!("{}: a value inside i64 failed: {}", name, e));
                        }
                    }
                }
            }
            // toml::Value fed by a foreign serde data source (here: serde's own primitive deserializers)
            {
                use serde::de::IntoDeserializer;
                let d: serde::de::value::$de<serde::de::value::Error> = v.into_deserializer();
                let got = <toml::Value as serde::Deserialize>::deserialize(d);
                match got {
                    Ok(toml::Value::Integer(i)) if fits && i as i128 == wide => {}
                    Err(_) if !fits || std::mem::size_of::<$t>() > 8 => {}
                    other => $acc.viol("U-width", label.clone(), None, format!("toml::Value deserialized from a foreign {} {}: {:?}", stringify!($t), v, other.map_err(|e| e.to_string()))),
                }
            }
            let outs = [toml::to_string(&S { v }).map_err(|e| e.to_string()), toml_edit::ser::to_string(&S { v }).map_err(|e| e.to_string()), toml::Value::try_from(S { v }).map(|x| x.to_string()).map_err(|e| e.to_string())];
            for (ri, out) in outs.iter().enumerate() {
                match out {
                    Ok(text) => {
                        if !fits {
                            $acc.viol("U-width", label.clone(), None, format!("route {}: a value beyond i64 was serialized to {:?} instead of failing", ri, text));
                        } else {
                            let want = if ri == 2 { format!("{{ v = {} }}", wide) } else { format!("v = {}\n", wide) };
                            if *text != want {
                                $acc.viol("U-width", label.clone(), None, format!("route {}: serialized to {:?}, expected {:?}", ri, text, want));
                            }
                        }
                    }
                    Err(e) => {
                        // 128-bit integers are not supported by the serializers at all: rejecting is lossless
                        if fits && std::mem::size_of::<$t>() <= 8 {
                            $acc.viol("U-width", label.clone(), None, format!("route {}: a value inside i64 failed to serialize: {}", ri, e));
                        }
                    }
                }
            }
        }
    }};
}

macro_rules! de_width {
    ($t:ty, $ints:expr, $acc:expr) => {{
        for i in $ints.iter() {
            $acc.evals += 1;
            let text = format!("v = {}\n", i);
            let label = format!("deserialize {} into {}", i, stringify!($t));
            $acc.nontrivial(label.as_bytes());
            let fits = <$t>::try_from(*i).ok();
            let a: Result<S<$t>, _> = toml::from_str(&text);
            let b: Result<S<$t>, _> = toml::from_str::<toml::Value>(&text).unwrap().try_into();
            let c: Result<S<$t>, _> = toml_edit::de::from_str(&text);
            for (ri, got) in [a.map(|s| s.v).map_err(|e| e.to_string()), b.map(|s| s.v).map_err(|e| e.to_string()), c.map(|s| s.v).map_err(|e| e.to_string())].into_iter().enumerate() {
                match (fits, got) {
                    (Some(w), Ok(g)) if w == g => {}
                    (None, Err(_)) => {}
                    // 128-bit targets are not supported by the deserializers at all: rejecting is not a wrong answer
                    (Some(_), Err(_)) if std::mem::size_of::<$t>() > 8 => {}
                    (w, g) => $acc.viol("U-width", label.clone(), None, format!("route {}: expected {:?}, got {:?}", ri, w, g)),
                }
            }
        }
    }};
}

/// a byte buffer following the `serde_bytes` protocol: asks for `deserialize_byte_buf` / `deserialize_bytes` and takes
/// whatever the format offers (a buffer, or a sequence of checked u8)
#[derive(Debug, PartialEq)]
struct ByteBuf(Vec<u8>);
struct ByteBufVisitor;
impl<'de> serde::de::Visitor<'de> for ByteBufVisitor {
    type Value = ByteBuf;
    fn expecting(&self, f: &mut std::fmt::Formatter<'_>) -> std::fmt::Result {
        f.write_str("bytes")
    }
    fn visit_bytes<E: serde::de::Error>(self, v: &[u8]) -> Result<ByteBuf, E> {
        Ok(ByteBuf(v.to_vec()))
    }
    fn visit_byte_buf<E: serde::de::Error>(self, v: Vec<u8>) -> Result<ByteBuf, E> {
        Ok(ByteBuf(v))
    }
    fn visit_str<E: serde::de::Error>(self, v: &str) -> Result<ByteBuf, E> {
        Ok(ByteBuf(v.as_bytes().to_vec()))
    }
    fn visit_seq<A: serde::de::SeqAccess<'de>>(self, mut seq: A) -> Result<ByteBuf, A::Error> {
        let mut out = Vec::new();
        while let Some(b) = seq.next_element::<u8>()? {
            out.push(b);
        }
        Ok(ByteBuf(out))
    }
}
impl<'de> Deserialize<'de> for ByteBuf {
    fn deserialize<D: serde::Deserializer<'de>>(d: D) -> Result<Self, D::Error> {
        d.deserialize_byte_buf(ByteBufVisitor)
    }
}
#[derive(Debug, PartialEq)]
struct Bytes2(Vec<u8>);
impl<'de> Deserialize<'de> for Bytes2 {
    fn deserialize<D: serde::Deserializer<'de>>(d: D) -> Result<Self, D::Error> {
        d.deserialize_bytes(ByteBufVisitor).map(|b| Bytes2(b.0))
    }
}

fn byte_targets(acc: &mut Acc) {
    let ints = i64_lattice();
    for i in ints.iter().copied().chain(-2..=300) {
        for (frame, pre) in [("v = [{}]\n", 0usize), ("v = [7, {}]\n", 1), ("v = [{}, 255, 0]\n", 0)] {
            acc.evals += 1;
            let text = frame.replace("{}", &i.to_string());
            let label = format!("deserialize {:?} into a byte buffer", text);
            acc.nontrivial(label.as_bytes());
            let fits = u8::try_from(i).ok();
            let want: Option<Vec<u8>> = fits.map(|b| match (pre, frame.contains("255")) {
                (1, _) => vec![7, b],
                (_, true) => vec![b, 255, 0],
                _ => vec![b],
            });
            let mut got: Vec<(&str, Result<Vec<u8>, String>)> = Vec::new();
            got.push(("toml::from_str (byte_buf)", toml::from_str::<S<ByteBuf>>(&text).map(|s| s.v.0).map_err(|e| e.to_string())));
            got.push(("toml_edit::de::from_str (byte_buf)", toml_edit::de::from_str::<S<ByteBuf>>(&text).map(|s| s.v.0).map_err(|e| e.to_string())));
            got.push(("toml::Value::try_into (byte_buf)", toml::from_str::<toml::Value>(&text).unwrap().try_into::<S<ByteBuf>>().map(|s| s.v.0).map_err(|e| e.to_string())));
            got.push(("toml::from_str (bytes)", toml::from_str::<S<Bytes2>>(&text).map(|s| s.v.0).map_err(|e| e.to_string())));
            got.push(("toml_edit::de::from_str (bytes)", toml_edit::de::from_str::<S<Bytes2>>(&text).map(|s| s.v.0).map_err(|e| e.to_string())));
            got.push(("toml::Value::try_into (bytes)", toml::from_str::<toml::Value>(&text).unwrap().try_into::<S<Bytes2>>().map(|s| s.v.0).map_err(|e| e.to_string())));
            got.push(("toml::from_str (CString)", toml::from_str::<S<std::ffi::CString>>(&text).map(|s| s.v.into_bytes()).map_err(|e| e.to_string())));
            for (name, g) in got {
                match (&want, g) {
                    (Some(w), Ok(g)) if *w == g => {}
                    // a NUL inside a CString is that type's own refusal
                    (Some(w), Err(_)) if name.contains("CString") && w.contains(&0) => {}
                    (None, Err(_)) => {}
                    (w, g) => acc.viol("U-width", label.clone(), None, format!("{}: expected {:?}, got {:?}", name, w, g)),
                }
            }
        }
    }
}

fn widths(rep: &mut Report) {
    let t0 = std::time::Instant::now();
    let mut acc = Acc::default();
    ser_width!(i8, I8Deserializer, acc);
    ser_width!(i16, I16Deserializer, acc);
    ser_width!(i32, I32Deserializer, acc);
    ser_width!(i64, I64Deserializer, acc);
    ser_width!(u8, U8Deserializer, acc);
    ser_width!(u16, U16Deserializer, acc);
    ser_width!(u32, U32Deserializer, acc);
    ser_width!(u64, U64Deserializer, acc);
    ser_width!(i128, I128Deserializer, acc);
    ser_width!(u128, U128Deserializer, acc);
    ser_width!(isize, IsizeDeserializer, acc);
    ser_width!(usize, UsizeDeserializer, acc);
    let ints = i64_lattice();
    de_width!(i8, ints, acc);
    de_width!(i16, ints, acc);
    de_width!(i32, ints, acc);
    de_width!(i64, ints, acc);
    de_width!(u8, ints, acc);
    de_width!(u16, ints, acc);
    de_width!(u32, ints, acc);
    de_width!(u64, ints, acc);
    de_width!(i128, ints, acc);
    de_width!(u128, ints, acc);
    de_width!(isize, ints, acc);
    de_width!(usize, ints, acc);
    byte_targets(&mut acc);
    let n = acc.evals;
    rep.absorb("U-width", "12 integer widths x boundary values on output (3 routes) and x the i64 lattice on input (3 routes); byte-buffer targets (deserialize_bytes / byte_buf protocol, CString) x arrays holding each lattice integer and -2..300", n, true, t0, acc);
}

pub fn c11(tier: Tier) -> i32 {
    let mut rep = Report::new(
        "C11",
        tier,
        "model_checking",
        "writer side: a complete structured lattice of i64 / f64 / f32 bit patterns is printed by every writer route; the literal must be of the same TOML type (specification model) and parse back bit-for-bit; reader side: every literal of U-edge and every number string <= n over 17 symbols gets the specification's verdict and value (out-of-range integers in any base and overflowing decimals of either sign must be rejected); serde side: every (width, boundary value) pair on output and every (i64 lattice value, width) pair on input must be exact or fail; non-trivial = distinct values / literals / pairs",
    );
    rep.assumptions = vec![
        "the property's 'rest sampled uniformly' clause is sampling (a different technique family) and is replaced by the complete bit-pattern lattice described in the universes".into(),
        "Rust's str::parse::<f64> is correctly rounded (used by the specification model)".into(),
    ];
    writers(&mut rep);
    widths(&mut rep);
    // reader side: the number universes under the C01 (verdict) and C02 (value) oracles
    let both = |b: &[u8], u: &'static str, acc: &mut Acc| {
        crate::c_docs::c01_eval(b, u, acc);
        crate::c_docs::c02_eval(b, u, acc);
    };
    let _ = tier;
    docu::run(&mut rep, tier, &["edge", "num"], &both);
    // the number writers under the `perf` feature (another string type, possibly another formatting path): the cfg
    // engine's binary prints a float / integer lattice in the default and in the perf build; the digests must agree
    {
        let t0 = std::time::Instant::now();
        let a = crate::c18::build("te-default", "te_parse te_display").and_then(|exe| crate::c18::run("te-default", &exe));
        let b = crate::c18::build("te-perf", "te_parse te_display te_perf").and_then(|exe| crate::c18::run("te-perf", &exe));
        match (a, b) {
            (Ok(a), Ok(b)) => {
                let n = a.counts.get("te.number.print").copied().unwrap_or(0);
                let mut acc = Acc::default();
                acc.evals = n * 2;
                acc.nontrivial_overflow = n;
                acc.sample(|| format!("{} numbers printed in the default and in the perf build", n));
                if n == 0 || a.blocks.get("te.number.print") != b.blocks.get("te.number.print") {
                    acc.viol("U-perf", "te.number.print between te-default and te-perf".to_string(), None, "the number writers print differently with the `perf` feature (or the battery kind is missing)".into());
                }
                for v in a.viols.iter().chain(b.viols.iter()) {
                    acc.viol("U-perf", v.chars().take(200).collect::<String>(), None, v.clone());
                }
                rep.absorb("U-perf", "20 480 floats (every exponent x 5 mantissas x 2 signs) and the i64 lattice printed by Value::from in the default and in the perf build", n * 2, true, t0, acc);
            }
            (Err(e), _) | (_, Err(e)) => {
                println!("MACHINERY-ERROR battery build failed: {}", e.lines().last().unwrap_or(""));
                return 2;
            }
        }
    }
    rep.finish()
}

pub fn replay(path: &str) -> i32 {
    let j = read_replay(path);
    let input = j["input"].as_str().unwrap_or("").to_string();
    let uni = j["universe"].as_str().unwrap_or("");
    println!("case: {:?} ({})", input, uni);
    match uni {
        "U-edge" | "U-num" => {
            let mut acc = Acc::default();
            crate::c_docs::c01_eval(input.as_bytes(), "replay", &mut acc);
            crate::c_docs::c02_eval(input.as_bytes(), "replay", &mut acc);
            if acc.viols.is_empty() {
                println!("replay: property holds on this case");
                0
            } else {
                for v in &acc.viols {
                    println!("replay: {}", v.detail);
                }
                println!("VIOLATION property=C11 replay={}", path);
                1
            }
        }
        "U-f64" => {
            let x = f64::from_bits(u64::from_str_radix(&input, 16).unwrap());
            println!("f64 {:?}: toml_write prints {:?}", x, x.to_toml_value());
            match check_float_literal("toml_write f64", x, &x.to_toml_value()) {
                Ok(()) => 0,
                Err(e) => {
                    println!("replay: {}\nVIOLATION property=C11 replay={}", e, path);
                    1
                }
            }
        }
        "U-f32" => {
            let x = f32::from_bits(u32::from_str_radix(&input, 16).unwrap());
            println!("f32 {:?}: toml_write prints {:?}", x, x.to_toml_value());
            0
        }
        _ => {
            println!("replay: re-run ./run.sh C11 quick (lattice cases are generated, not read)");
            2
        }
    }
}
