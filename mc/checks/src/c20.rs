//! C20 — visitors reach every node of a document exactly once.

use crate::common::*;
use crate::docu;
use refmodel::{ref_parse, Node, Val, Verdict};
use toml_edit::visit::Visit;
use toml_edit::visit_mut::VisitMut;
use toml_edit::{Array, ArrayOfTables, DocumentMut, Formatted, InlineTable, Item, KeyMut, Table, Value};

/// (callback kind, identity)
type Ev = (&'static str, usize, String);

fn addr<T: ?Sized>(r: &T) -> usize {
    r as *const T as *const u8 as usize
}

#[derive(Default)]
struct Rec {
    ev: Vec<Ev>,
}
impl<'doc> Visit<'doc> for Rec {
    fn visit_table(&mut self, node: &'doc Table) {
        self.ev.push(("table", addr(node), String::new()));
        toml_edit::visit::visit_table(self, node);
    }
    fn visit_inline_table(&mut self, node: &'doc InlineTable) {
        self.ev.push(("inline_table", addr(node), String::new()));
        toml_edit::visit::visit_inline_table(self, node);
    }
    fn visit_table_like(&mut self, node: &'doc dyn toml_edit::TableLike) {
        self.ev.push(("table_like", 0, String::new()));
        toml_edit::visit::visit_table_like(self, node);
    }
    fn visit_item(&mut self, node: &'doc Item) {
        self.ev.push(("item", 0, String::new()));
        toml_edit::visit::visit_item(self, node);
    }
    fn visit_value(&mut self, node: &'doc Value) {
        self.ev.push(("value", 0, String::new()));
        toml_edit::visit::visit_value(self, node);
    }
    fn visit_table_like_kv(&mut self, key: &'doc str, node: &'doc Item) {
        self.ev.push(("kv", addr(node), key.to_string()));
        toml_edit::visit::visit_table_like_kv(self, key, node);
    }
    fn visit_array(&mut self, node: &'doc Array) {
        self.ev.push(("array", addr(node), String::new()));
        toml_edit::visit::visit_array(self, node);
    }
    fn visit_array_of_tables(&mut self, node: &'doc ArrayOfTables) {
        self.ev.push(("aot", addr(node), String::new()));
        toml_edit::visit::visit_array_of_tables(self, node);
    }
    fn visit_boolean(&mut self, node: &'doc Formatted<bool>) {
        self.ev.push(("bool", addr(node), node.value().to_string()));
    }
    fn visit_datetime(&mut self, node: &'doc Formatted<toml_edit::Datetime>) {
        self.ev.push(("datetime", addr(node), node.value().to_string()));
    }
    fn visit_float(&mut self, node: &'doc Formatted<f64>) {
        self.ev.push(("float", addr(node), format!("{:x}", node.value().to_bits())));
    }
    fn visit_integer(&mut self, node: &'doc Formatted<i64>) {
        self.ev.push(("integer", addr(node), node.value().to_string()));
    }
    fn visit_string(&mut self, node: &'doc Formatted<String>) {
        self.ev.push(("string", addr(node), node.value().clone()));
    }
}

#[derive(Default)]
struct RecMut {
    ev: Vec<Ev>,
}
impl VisitMut for RecMut {
    fn visit_table_mut(&mut self, node: &mut Table) {
        self.ev.push(("table", addr(node), String::new()));
        toml_edit::visit_mut::visit_table_mut(self, node);
    }
    fn visit_inline_table_mut(&mut self, node: &mut InlineTable) {
        self.ev.push(("inline_table", addr(node), String::new()));
        toml_edit::visit_mut::visit_inline_table_mut(self, node);
    }
    fn visit_table_like_mut(&mut self, node: &mut dyn toml_edit::TableLike) {
        self.ev.push(("table_like", 0, String::new()));
        toml_edit::visit_mut::visit_table_like_mut(self, node);
    }
    fn visit_item_mut(&mut self, node: &mut Item) {
        self.ev.push(("item", 0, String::new()));
        toml_edit::visit_mut::visit_item_mut(self, node);
    }
    fn visit_value_mut(&mut self, node: &mut Value) {
        self.ev.push(("value", 0, String::new()));
        toml_edit::visit_mut::visit_value_mut(self, node);
    }
    fn visit_table_like_kv_mut(&mut self, key: KeyMut<'_>, node: &mut Item) {
        self.ev.push(("kv", addr(node), key.get().to_string()));
        toml_edit::visit_mut::visit_table_like_kv_mut(self, key, node);
    }
    fn visit_array_mut(&mut self, node: &mut Array) {
        self.ev.push(("array", addr(node), String::new()));
        toml_edit::visit_mut::visit_array_mut(self, node);
    }
    fn visit_array_of_tables_mut(&mut self, node: &mut ArrayOfTables) {
        self.ev.push(("aot", addr(node), String::new()));
        toml_edit::visit_mut::visit_array_of_tables_mut(self, node);
    }
    fn visit_boolean_mut(&mut self, node: &mut Formatted<bool>) {
        self.ev.push(("bool", addr(node), node.value().to_string()));
    }
    fn visit_datetime_mut(&mut self, node: &mut Formatted<toml_edit::Datetime>) {
        self.ev.push(("datetime", addr(node), node.value().to_string()));
    }
    fn visit_float_mut(&mut self, node: &mut Formatted<f64>) {
        self.ev.push(("float", addr(node), format!("{:x}", node.value().to_bits())));
    }
    fn visit_integer_mut(&mut self, node: &mut Formatted<i64>) {
        self.ev.push(("integer", addr(node), node.value().to_string()));
    }
    fn visit_string_mut(&mut self, node: &mut Formatted<String>) {
        self.ev.push(("string", addr(node), node.value().clone()));
    }
}

// the independent walk: public accessors only, no visitor code
fn walk_table(t: &Table, out: &mut Vec<Ev>) {
    out.push(("table", addr(t), String::new()));
    // the hook shared by tables and inline tables: once per table-like node, empty or not
    out.push(("table_like", 0, String::new()));
    for (k, item) in t.iter() {
        out.push(("kv", addr(item), k.to_string()));
        walk_item(item, out);
    }
}
fn walk_item(item: &Item, out: &mut Vec<Ev>) {
    out.push(("item", 0, String::new()));
    match item {
        Item::None => {}
        Item::Value(v) => walk_value(v, out),
        Item::Table(t) => walk_table(t, out),
        Item::ArrayOfTables(a) => {
            out.push(("aot", addr(a), String::new()));
            for t in a.iter() {
                walk_table(t, out);
            }
        }
    }
}
fn walk_value(v: &Value, out: &mut Vec<Ev>) {
    out.push(("value", 0, String::new()));
    match v {
        Value::String(f) => out.push(("string", addr(f), f.value().clone())),
        Value::Integer(f) => out.push(("integer", addr(f), f.value().to_string())),
        Value::Float(f) => out.push(("float", addr(f), format!("{:x}", f.value().to_bits()))),
        Value::Boolean(f) => out.push(("bool", addr(f), f.value().to_string())),
        Value::Datetime(f) => out.push(("datetime", addr(f), f.value().to_string())),
        Value::Array(a) => {
            out.push(("array", addr(a), String::new()));
            for x in a.iter() {
                walk_value(x, out);
            }
        }
        Value::InlineTable(t) => {
            out.push(("inline_table", addr(t), String::new()));
            out.push(("table_like", 0, String::new()));
            for (k, x) in t.iter() {
                // identity of the key/value pair = the value it holds
                out.push(("kv", addr(x), k.to_string()));
                out.push(("item", 0, String::new()));
                walk_value(x, out);
            }
        }
    }
}

/// for kv events inside inline tables the visitor sees the `Item` wrapper, the walk sees the `Value`;
/// both are compared by (kind, key/content) there and by address everywhere else
fn same(a: &[Ev], b: &[Ev]) -> Result<(), String> {
    if a.len() != b.len() {
        return Err(format!("{} callbacks vs {} nodes", a.len(), b.len()));
    }
    for (i, (x, y)) in a.iter().zip(b.iter()).enumerate() {
        let ok = x.0 == y.0 && x.2 == y.2 && (x.0 == "kv" || x.1 == y.1 || x.1 == 0 || y.1 == 0);
        if !ok {
            return Err(format!("position {}: visitor saw {:?} {:?}, the walk finds {:?} {:?}", i, x.0, x.2, y.0, y.2));
        }
    }
    Ok(())
}

struct Inc;
impl VisitMut for Inc {
    fn visit_integer_mut(&mut self, node: &mut Formatted<i64>) {
        let v = *node.value();
        let decor = node.decor().clone();
        *node = Formatted::new(v.checked_add(1).unwrap_or(v));
        *node.decor_mut() = decor;
    }
}

fn inc_model(n: &Node, out: &mut String) {
    // canonical text of the model tree with every integer + 1, keys sorted
    let mut m = n.clone();
    fn rec(n: &mut Node) {
        match &mut n.val {
            Val::Int(i) => {
                if *i < i64::MAX as i128 {
                    *i += 1
                }
            }
            Val::Array(a) => a.iter_mut().for_each(rec),
            Val::Table(t) => t.iter_mut().for_each(|e| rec(&mut e.node)),
            _ => {}
        }
    }
    rec(&mut m);
    out.push_str(&m.canon_sorted());
}

fn int_spans(n: &Node, out: &mut Vec<(usize, usize)>) {
    match &n.val {
        Val::Int(_) => {
            if let Some(s) = n.span {
                out.push((s.start, s.end))
            }
        }
        Val::Array(a) => a.iter().for_each(|x| int_spans(x, out)),
        Val::Table(t) => t.iter().for_each(|e| int_spans(&e.node, out)),
        _ => {}
    }
}

/// text with every integer value token cut out
fn without_ints(text: &str) -> Option<String> {
    let Verdict::Valid { tree, .. } = ref_parse(text) else { return None };
    let mut sp = Vec::new();
    int_spans(&tree, &mut sp);
    sp.sort();
    let mut out = String::new();
    let mut i = 0;
    for (s, e) in sp {
        out.push_str(&text[i..s]);
        out.push('#');
        i = e;
    }
    out.push_str(&text[i..]);
    Some(out)
}

pub fn check_doc(doc: &DocumentMut) -> Result<usize, String> {
    let mut expected = Vec::new();
    walk_table(doc.as_table(), &mut expected);
    let mut r = Rec::default();
    r.visit_document(doc);
    same(&r.ev, &expected).map_err(|e| format!("read-only visitor: {}", e))?;
    let mut d2 = doc.clone();
    let mut expected2 = Vec::new();
    walk_table(d2.as_table(), &mut expected2);
    let mut rm = RecMut::default();
    rm.visit_document_mut(&mut d2);
    same(&rm.ev, &expected2).map_err(|e| format!("mutable visitor: {}", e))?;
    if d2.to_string() != doc.to_string() {
        return Err("a non-modifying mutable visitor changed the document".into());
    }
    // what does not print (empty arrays of tables, empty implicit tables) must survive the walk too
    let mut after = Vec::new();
    walk_table(d2.as_table(), &mut after);
    if after.len() != expected2.len() || after.iter().zip(&expected2).any(|(a, b)| a.0 != b.0 || a.2 != b.2) {
        return Err(format!("a non-modifying mutable visitor changed the structure: {} nodes before the walk, {} after", expected2.len(), after.len()));
    }
    Ok(expected.len())
}

pub fn c20_eval(bytes: &[u8], uni: &'static str, acc: &mut Acc) {
    let Ok(text) = std::str::from_utf8(bytes) else { return };
    let Verdict::Valid { tree, limits, .. } = ref_parse(text) else {
        acc.bump("not-valid-skipped");
        return;
    };
    if limits.any() {
        return;
    }
    let r = guarded(|| -> Result<usize, String> {
        let doc = text.parse::<DocumentMut>().map_err(|e| format!("rejected (C01): {}", e.message()))?;
        let n = check_doc(&doc)?;
        // rewriting visitor
        let before = doc.to_string();
        let mut d3 = doc.clone();
        Inc.visit_document_mut(&mut d3);
        let after = d3.to_string();
        let Verdict::Valid { tree: t3, .. } = ref_parse(&after) else { return Err(format!("after the integer-rewriting visitor the document prints invalid TOML: {:?}", after)) };
        let mut want = String::new();
        inc_model(&tree, &mut want);
        if t3.canon_sorted() != want {
            return Err(format!("integer-rewriting visitor: got {} want {}", t3.canon_sorted(), want));
        }
        if without_ints(&before) != without_ints(&after) {
            return Err(format!("integer-rewriting visitor changed text outside integer tokens: {:?} -> {:?}", before, after));
        }
        Ok(n)
    });
    match r {
        Ok(Ok(n)) => {
            if n > 1 {
                acc.nontrivial(bytes);
            }
            acc.bump("visited-ok");
            acc.sample(|| format!("{:?} ({} nodes)", text, n));
        }
        Ok(Err(e)) => acc.viol(uni, text.to_string(), None, e),
        Err(p) => {
            acc.panics += 1;
            acc.viol(uni, text.to_string(), None, format!("panic: {}", p));
        }
    }
}

const NOPS: usize = 9;

/// API-built documents: placeholders left by mutable indexing, items converted between kinds, nested containers
fn api_docs(rep: &mut Report) {
    let t0 = std::time::Instant::now();
    let bases = ["", "a = 1\n", "[t]\nx = [1, {y = 2}]\n[[u]]\nz.w = 3\n[[u]]\n", "a = {b = {c = [1, [2, {d = 3}]]}}\n", "[[u]]\ni = 1\n[[u]]\ni = 2\n[[u]]\ni = 3\n[t]\nx = [1, 2, 3]\n[n]\n"];
    let keys = ["a", "t", "u", "n"];
    let mut acc = Acc::default();
    let mut total = 0u64;
    for b in bases {
        for ops in 0..(NOPS.pow(3)) {
            let mut doc: DocumentMut = b.parse().unwrap();
            let mut desc = Vec::new();
            let mut o = ops;
            for step in 0..3 {
                let k = keys[(ops + step) % keys.len()];
                let which = o % NOPS;
                o /= NOPS;
                let r = guarded(|| match which {
                    0 => {}
                    1 => {
                        let _ = &mut doc[k]["p"];
                    }
                    2 => {
                        doc[k] = toml_edit::value(7);
                    }
                    3 => {
                        let mut t = Table::new();
                        t.insert("q", toml_edit::value(toml_edit::Array::from_iter([1, 2])));
                        let mut a = ArrayOfTables::new();
                        a.push(t.clone());
                        a.push(t);
                        doc.insert(k, Item::ArrayOfTables(a));
                    }
                    4 => {
                        let it = doc.as_table_mut().remove(k);
                        if let Some(mut it) = it {
                            it.make_value();
                            doc.insert("moved", it);
                        }
                    }
                    5 => {
                        // vacate the FIRST slot of an array of tables / array (the slot stays, its content is gone)
                        if doc.get(k).map(|i| i.as_array_of_tables().map(|a| a.len() > 0).unwrap_or(false) || i.as_array().map(|a| a.len() > 0).unwrap_or(false)).unwrap_or(false) {
                            let _ = std::mem::take(&mut doc[k][0]);
                        } else if doc.get("t").and_then(|t| t.get("x")).and_then(|x| x.as_array()).map(|a| a.len() > 0).unwrap_or(false) {
                            let _ = std::mem::take(&mut doc["t"]["x"][0]);
                        }
                    }
                    6 => {
                        // empty containers: a table, an inline table and an array of tables without elements
                        doc.insert(k, Item::Table(Table::new()));
                        doc["e1"] = toml_edit::value(InlineTable::new());
                        doc["e2"] = Item::ArrayOfTables(ArrayOfTables::new());
                    }
                    7 => {
                        // vacate a table entry in place
                        if doc.contains_key(k) {
                            let _ = std::mem::take(&mut doc[k]);
                        }
                    }
                    _ => {
                        // a placeholder that is NOT the last entry: probe one key, then insert others after it - in the
                        // node under k if that is table-like (standard or inline), and in its first table-like child
                        if doc.get(k).map(|i| i.is_table_like()).unwrap_or(false) {
                            let _ = &mut doc[k]["p"];
                            doc[k]["q"] = toml_edit::value(5);
                            doc[k]["r"] = toml_edit::value(toml_edit::Array::from_iter([6, 7]));
                            let child = doc[k].as_table_like().and_then(|t| t.iter().find(|(_, v)| v.is_table_like()).map(|(c, _)| c.to_string()));
                            if let Some(c) = child {
                                let _ = &mut doc[k][c.as_str()]["p"];
                                doc[k][c.as_str()]["q"] = toml_edit::value(8);
                            }
                        }
                    }
                });
                desc.push(format!("{}:{}{}", which, k, if r.is_err() { "(panicked)" } else { "" }));
            }
            total += 1;
            acc.evals += 1;
            let label = format!("base {:?} ops {:?}", b, desc);
            match guarded(|| check_doc(&doc)) {
                Ok(Ok(n)) => {
                    if n > 1 {
                        acc.nontrivial(label.as_bytes());
                    }
                    acc.bump("api-built-visited-ok");
                }
                Ok(Err(e)) => acc.viol("U-api", label, None, e),
                Err(p) => acc.viol("U-api", label, None, format!("panic: {}", p)),
            }
        }
    }
    rep.absorb("U-api", "5 base documents x every 3-step history over {noop, auto-vivify, assign, insert array of tables, remove+make_value+reinsert, vacate first array / array-of-tables slot, insert empty containers, vacate table entry, probe a key and insert others after the placeholder}", total, true, t0, acc);
}

/// deep (and optionally wide) API-built chains of containers: documents no parser would accept (beyond the recursion
/// limit) but that the construction API builds freely; the visitors must still reach every node exactly once, and
/// a later walk over a small document on the same thread must be unaffected by the deep one
fn deep_chain(kind: usize, depth: usize, width: usize) -> DocumentMut {
    let mut doc = DocumentMut::new();
    match kind {
        0 | 1 | 2 => {
            // value chains: arrays, inline tables, alternating
            let mut v: Value = Value::from(1);
            for level in 0..depth {
                let as_array = match kind {
                    0 => true,
                    1 => false,
                    _ => level % 2 == 0,
                };
                if as_array {
                    let mut a = Array::new();
                    for _ in 1..width {
                        a.push(1);
                    }
                    a.push(v);
                    v = Value::Array(a);
                } else {
                    let mut t = InlineTable::new();
                    for w in 1..width {
                        t.insert(format!("x{}", w), Value::from(1));
                    }
                    t.insert("k", v);
                    v = Value::InlineTable(t);
                }
            }
            doc.insert("a", Item::Value(v));
        }
        _ => {
            // item chains: standard tables, tables alternating with arrays of tables
            let mut t = Table::new();
            t.insert("x", toml_edit::value(1));
            for level in 0..depth {
                let mut outer = Table::new();
                for w in 0..width {
                    outer.insert(&format!("x{}", w), toml_edit::value(1));
                }
                if kind == 4 && level % 2 == 0 {
                    let mut a = ArrayOfTables::new();
                    if width > 1 {
                        let mut sib = Table::new();
                        sib.insert("y", toml_edit::value(1));
                        a.push(sib);
                    }
                    a.push(t);
                    outer.insert("u", Item::ArrayOfTables(a));
                } else {
                    outer.insert("t", Item::Table(t));
                }
                t = outer;
            }
            doc.insert("r", Item::Table(t));
        }
    }
    doc
}

fn count_ints(evs: &[Ev], want: &str) -> (usize, usize) {
    let all = evs.iter().filter(|e| e.0 == "integer").count();
    let hit = evs.iter().filter(|e| e.0 == "integer" && e.2 == want).count();
    (all, hit)
}

fn deep_docs(rep: &mut Report, tier: Tier) {
    let t0 = std::time::Instant::now();
    let mut depths: Vec<usize> = (1..=tier.pick(140, 300)).collect();
    depths.extend([320, 500, 512, 513, 1000, 1024, 1025]);
    if tier == Tier::Thorough {
        depths.extend([2000, 4096, 4097]);
    }
    let small: DocumentMut = "a = 1\nb = [2, {c = 3}]\n[t]\nx = 4\n[[u]]\ny = 5\n".parse().unwrap();
    let mut cases = Vec::new();
    for kind in 0..5usize {
        for &d in &depths {
            for width in [1usize, 3] {
                cases.push((kind, d, width));
            }
        }
    }
    // one big-stack thread per kind: the walks are recursive by contract (so is the reference walk), the property is about
    // which nodes are reached, not about stack use (C05's business)
    let handles: Vec<_> = (0..5usize)
        .map(|kind| {
            let cases: Vec<_> = cases.iter().copied().filter(|c| c.0 == kind).collect();
            let small = small.clone();
            std::thread::Builder::new()
                .stack_size(2 << 30)
                .spawn(move || {
                    let mut acc = Acc::default();
                    for (kind, d, width) in cases {
                        acc.evals += 1;
                        let label = format!("API-built chain kind {} ({}) depth {} width {}", kind, ["arrays", "inline tables", "arrays / inline tables alternating", "standard tables", "arrays of tables / tables alternating"][kind], d, width);
                        let r = guarded(|| -> Result<(), String> {
                            let doc = deep_chain(kind, d, width);
                            check_doc(&doc)?;
                            // rewriting visitor: every integer (all are 1) becomes 2, nothing else changes
                            let mut d3 = doc.clone();
                            Inc.visit_document_mut(&mut d3);
                            let mut before = Vec::new();
                            walk_table(doc.as_table(), &mut before);
                            let mut after = Vec::new();
                            walk_table(d3.as_table(), &mut after);
                            let (n0, ones) = count_ints(&before, "1");
                            let (n1, twos) = count_ints(&after, "2");
                            if n0 != ones || n1 != n0 || twos != n0 || before.len() != after.len() {
                                return Err(format!("integer-rewriting visitor: {} integers before, {} after, {} of them rewritten", n0, n1, twos));
                            }
                            // a later walk over a small document on this thread
                            check_doc(&small).map_err(|e| format!("a small document walked AFTER the deep one: {}", e))?;
                            Ok(())
                        });
                        match r {
                            Ok(Ok(())) => {
                                acc.nontrivial(label.as_bytes());
                                acc.bump("deep-visited-ok");
                            }
                            Ok(Err(e)) => acc.viol("U-deep", label, None, e),
                            Err(p) => acc.viol("U-deep", label, None, format!("panic: {}", p)),
                        }
                    }
                    acc
                })
                .expect("spawn")
        })
        .collect();
    let mut acc = Acc::default();
    for h in handles {
        match h.join() {
            Ok(a) => acc = acc.merge(a),
            Err(_) => acc.viol("U-deep", "deep chain worker".into(), None, "worker thread died".into()),
        }
    }
    let total = cases.len() as u64;
    rep.absorb("U-deep", &format!("API-built chains of 5 container kinds x depths 1..{} + 320..1025{} x widths 1 / 3; each followed by a walk over a small document on the same thread", tier.pick(140, 300), if tier == Tier::Thorough { " + 2000..4097" } else { "" }), total, true, t0, acc);
}

pub fn c20(tier: Tier) -> i32 {
    let mut rep = Report::new(
        "C20",
        tier,
        "model_checking",
        "for every model-valid text of each universe (and a family of API-built documents with placeholders) a recording Visit and a recording VisitMut are run; the callback sequence (kind, node address, content) must equal an independent pre-order walk through the public accessors; a VisitMut that adds 1 to every integer must yield the model tree with every integer + 1 and change no text outside integer tokens; non-trivial = distinct documents with more than one node",
    );
    rep.assumptions = vec!["document order = the order of the public iterators (IndexMap order), which is what the visitor documentation promises".into()];
    docu::run(&mut rep, tier, &["decor", "stmt", "tok", "corpus", "ctx", "reopen"], &c20_eval);
    api_docs(&mut rep);
    deep_docs(&mut rep, tier);
    rep.finish()
}

pub fn replay(path: &str) -> i32 {
    let j = read_replay(path);
    let input = j["input"].as_str().unwrap_or("").to_string();
    let mut acc = Acc::default();
    c20_eval(input.as_bytes(), "replay", &mut acc);
    println!("input: {:?}", input);
    if acc.viols.is_empty() {
        println!("replay: property holds on this case");
        0
    } else {
        for v in &acc.viols {
            println!("replay: {}", v.detail);
        }
        println!("VIOLATION property=C20 replay={}", path);
        1
    }
}
