//! C01 (accepts exactly the valid documents), C02 (decoded data), C09 (definition rules).

use crate::common::*;
use crate::docu;
use crate::real::*;
use refmodel::{ref_parse, ref_parse_bytes, Entry, Node, Val, Verdict};
use toml_edit::{DocumentMut, ImDocument, Item};

pub fn show(b: &[u8]) -> String {
    match std::str::from_utf8(b) {
        Ok(s) => s.to_string(),
        Err(_) => format!("<bytes:{}>", b.iter().map(|x| format!("{:02x}", x)).collect::<String>()),
    }
}

pub fn bytes_of_show(s: &str) -> Vec<u8> {
    if let Some(h) = s.strip_prefix("<bytes:").and_then(|r| r.strip_suffix('>')) {
        (0..h.len() / 2).map(|i| u8::from_str_radix(&h[2 * i..2 * i + 2], 16).unwrap()).collect()
    } else {
        s.as_bytes().to_vec()
    }
}

// ------------------------------------------------------------------------------------------------
// C01

pub fn c01_eval(bytes: &[u8], uni: &'static str, acc: &mut Acc) {
    let model = ref_parse_bytes(bytes);
    let text = std::str::from_utf8(bytes).ok();
    // the four entry points
    let r = guarded(|| {
        let slice = toml_edit::de::from_slice::<toml::Table>(bytes).is_ok();
        match text {
            Some(t) => {
                let a = t.parse::<DocumentMut>().is_ok();
                let b = ImDocument::parse(t).is_ok();
                let c = toml::from_str::<toml::Table>(t).is_ok();
                [a, b, c, slice]
            }
            None => [slice; 4],
        }
    });
    let verdicts = match r {
        Ok(v) => v,
        Err(p) => {
            acc.panics += 1;
            acc.viol(uni, show(bytes), None, format!("panic in an entry point: {}", p));
            return;
        }
    };
    if verdicts.iter().any(|v| *v != verdicts[0]) {
        acc.viol(uni, show(bytes), None, format!("entry points disagree: DocumentMut={} ImDocument={} toml::from_str={} de::from_slice={}", verdicts[0], verdicts[1], verdicts[2], verdicts[3]));
        return;
    }
    let real = verdicts[0];
    match &model {
        Verdict::UndecidedU1 => {
            acc.bump("u1-skipped");
        }
        Verdict::Valid { limits, .. } => {
            acc.nontrivial(bytes);
            if limits.int_overflow || limits.float_overflow {
                acc.bump(if limits.int_overflow { "valid-but-int-limit" } else { "valid-but-float-limit" });
                if real {
                    let class = if limits.float_overflow && !limits.int_overflow { Some("float-overflow-accepted") } else { None };
                    acc.viol(uni, show(bytes), class, "a number beyond the documented limits was accepted (must be rejected, never wrapped / saturated / turned into an infinity)".into());
                }
            } else if limits.depth {
                acc.bump("valid-in-depth-limit-zone");
            } else {
                acc.bump("valid");
                acc.sample(|| show(bytes));
                if !real {
                    let msg = text.and_then(|t| t.parse::<DocumentMut>().err()).map(|e| e.message().to_string()).unwrap_or_default();
                    acc.viol(uni, show(bytes), None, format!("valid TOML 1.0.0 document rejected: {}", msg));
                }
            }
        }
        Verdict::Invalid(r) => {
            if text.is_none() {
                acc.bump("invalid-utf8");
            } else if r.semantic {
                acc.bump("invalid-semantic");
            } else {
                acc.bump("invalid-syntax");
            }
            if r.at > 0 {
                acc.nontrivial(bytes);
            }
            if real {
                acc.viol(uni, show(bytes), None, format!("invalid document accepted; the specification rejects it at byte {}: {}", r.at, r.rule));
            }
        }
    }
}

pub fn c01(tier: Tier) -> i32 {
    let mut rep = Report::new(
        "C01",
        tier,
        "model_checking",
        "every text of each listed universe is run through 4 entry points (DocumentMut::from_str, ImDocument::parse, toml::from_str::<Table>, toml_edit::de::from_slice) and the verdict compared with the specification model; non-trivial = distinct texts that the model accepts, or rejects after byte 0",
    );
    rep.assumptions = vec![
        "refmodel is a faithful reading of TOML 1.0.0 (validated against the toml-test corpus at setup and against tomllib in the thorough tier)".into(),
        "class U1 documents are skipped and counted (DESIGN.md 3.3)".into(),
    ];
    docu::run(&mut rep, tier, &["tok", "ctx", "esc", "num", "edge", "dt", "stmt", "inline-stmt", "byte", "corpus", "decor", "cp", "utf8", "bom", "nest", "reopen", "stmt-values"], &c01_eval);
    rep.finish()
}

// ------------------------------------------------------------------------------------------------
// C02

/// structured comparison; `late` entries (implicit table later defined by its own header) may sit anywhere
pub fn cmp_table(model: &[Entry], real: Vec<(&str, &Item)>, path: &str) -> Result<(), String> {
    let mkeys: Vec<&str> = model.iter().map(|e| e.key.as_str()).collect();
    let rkeys: Vec<&str> = real.iter().map(|(k, _)| *k).collect();
    let mut ms = mkeys.clone();
    ms.sort();
    let mut rs = rkeys.clone();
    rs.sort();
    if ms != rs {
        return Err(format!("at {}: key sets differ: spec {:?} vs decoded {:?}", path, mkeys, rkeys));
    }
    let late: Vec<&str> = model.iter().filter(|e| e.late).map(|e| e.key.as_str()).collect();
    let mo: Vec<&str> = mkeys.iter().copied().filter(|k| !late.contains(k)).collect();
    let ro: Vec<&str> = rkeys.iter().copied().filter(|k| !late.contains(k)).collect();
    if mo != ro {
        return Err(format!("at {}: key order differs: source order {:?} vs decoded {:?}", path, mkeys, rkeys));
    }
    for e in model {
        let (_, item) = real.iter().find(|(k, _)| *k == e.key).unwrap();
        cmp_item(&e.node, item, &format!("{}.{:?}", path, e.key))?;
    }
    Ok(())
}

pub fn cmp_item(model: &Node, real: &Item, path: &str) -> Result<(), String> {
    match (&model.val, real) {
        (Val::Table(m), Item::Table(t)) => cmp_table(m, t.iter().collect(), path),
        (Val::Array(m), Item::ArrayOfTables(a)) => {
            if m.len() != a.len() {
                return Err(format!("at {}: array-of-tables length {} vs {}", path, m.len(), a.len()));
            }
            for (i, (mn, t)) in m.iter().zip(a.iter()).enumerate() {
                match &mn.val {
                    Val::Table(me) => cmp_table(me, t.iter().collect(), &format!("{}[{}]", path, i))?,
                    _ => return Err(format!("at {}[{}]: spec has a non-table where an array-of-tables element was decoded", path, i)),
                }
            }
            Ok(())
        }
        (_, Item::Value(v)) => {
            let mut s = String::new();
            canon_value(v, &mut s, false);
            let mc = model.canon();
            if s == mc {
                Ok(())
            } else {
                Err(format!("at {}: spec value {} vs decoded {}", path, mc, s))
            }
        }
        _ => Err(format!("at {}: node kinds differ: spec {} vs decoded {}", path, model.canon(), real.type_name())),
    }
}


/// "every value's type": the typed accessors and predicates of Item / Value / toml::Value must all tell the same
/// story as the variant that holds the data (a predicate that answers for the wrong type is a wrong decode for
/// every caller that goes through it)
fn accessor_laws(doc: &DocumentMut, tv: &toml::Value) -> Result<(), String> {
    fn value(v: &toml_edit::Value, path: &str) -> Result<(), String> {
        use toml_edit::Value as V;
        let flags = [v.is_str(), v.is_integer(), v.is_float(), v.is_bool(), v.is_datetime(), v.is_array(), v.is_inline_table()];
        let gets = [v.as_str().is_some(), v.as_integer().is_some(), v.as_float().is_some(), v.as_bool().is_some(), v.as_datetime().is_some(), v.as_array().is_some(), v.as_inline_table().is_some()];
        let idx = match v {
            V::String(_) => 0,
            V::Integer(_) => 1,
            V::Float(_) => 2,
            V::Boolean(_) => 3,
            V::Datetime(_) => 4,
            V::Array(_) => 5,
            V::InlineTable(_) => 6,
        };
        let names = ["string", "integer", "float", "boolean", "datetime", "array", "inline table"];
        for i in 0..7 {
            if flags[i] != (i == idx) || gets[i] != (i == idx) {
                return Err(format!("value at {} is a {} but is_{}() = {}, as_{}().is_some() = {}", path, names[idx], names[i], flags[i], names[i], gets[i]));
            }
        }
        if v.type_name() != names[idx] {
            return Err(format!("value at {} is a {} but type_name() says {:?}", path, names[idx], v.type_name()));
        }
        let item = Item::Value(v.clone());
        let iflags = [item.is_str(), item.is_integer(), item.is_float(), item.is_bool(), item.is_datetime(), item.is_array(), item.is_inline_table()];
        if iflags != flags || !item.is_value() || item.is_table() || item.is_array_of_tables() || item.is_none() || item.is_table_like() != (idx == 6) || item.type_name() != v.type_name() {
            return Err(format!("Item wrapping the value at {} answers its predicates differently from the value ({:?} vs {:?}, type {:?})", path, iflags, flags, item.type_name()));
        }
        match v {
            V::Array(a) => {
                for (i, x) in a.iter().enumerate() {
                    value(x, &format!("{}[{}]", path, i))?;
                }
            }
            V::InlineTable(t) => {
                for (k, x) in t.iter() {
                    value(x, &format!("{}.{}", path, k))?;
                }
            }
            _ => {}
        }
        Ok(())
    }
    fn table(t: &toml_edit::Table, path: &str) -> Result<(), String> {
        for (k, item) in t.iter() {
            let p = format!("{}.{}", path, k);
            match item {
                Item::Value(v) => value(v, &p)?,
                Item::Table(sub) => {
                    if !item.is_table() || !item.is_table_like() || item.is_value() || item.is_array_of_tables() || item.is_none() || item.as_table().is_none() || item.as_value().is_some() || item.type_name() != "table" {
                        return Err(format!("table at {} answers its Item predicates wrongly (type_name {:?})", p, item.type_name()));
                    }
                    table(sub, &p)?;
                }
                Item::ArrayOfTables(a) => {
                    if !item.is_array_of_tables() || item.is_table() || item.is_value() || item.is_none() || item.as_array_of_tables().is_none() || item.type_name() != "array of tables" {
                        return Err(format!("array of tables at {} answers its Item predicates wrongly (type_name {:?})", p, item.type_name()));
                    }
                    for (i, el) in a.iter().enumerate() {
                        table(el, &format!("{}[{}]", p, i))?;
                    }
                }
                Item::None => return Err(format!("iteration of {} yields an Item::None under key {:?}", path, k)),
            }
        }
        Ok(())
    }
    fn tvalue(v: &toml::Value, path: &str) -> Result<(), String> {
        use toml::Value as V;
        let flags = [v.is_str(), v.is_integer(), v.is_float(), v.is_bool(), v.is_datetime(), v.is_array(), v.is_table()];
        let gets = [v.as_str().is_some(), v.as_integer().is_some(), v.as_float().is_some(), v.as_bool().is_some(), v.as_datetime().is_some(), v.as_array().is_some(), v.as_table().is_some()];
        let (idx, name) = match v {
            V::String(_) => (0, "string"),
            V::Integer(_) => (1, "integer"),
            V::Float(_) => (2, "float"),
            V::Boolean(_) => (3, "boolean"),
            V::Datetime(_) => (4, "datetime"),
            V::Array(_) => (5, "array"),
            V::Table(_) => (6, "table"),
        };
        for i in 0..7 {
            if flags[i] != (i == idx) || gets[i] != (i == idx) {
                return Err(format!("toml::Value at {} is a {} but predicate / accessor #{} answers {} / {}", path, name, i, flags[i], gets[i]));
            }
        }
        if v.type_str() != name || !v.same_type(v) {
            return Err(format!("toml::Value at {} is a {} but type_str() says {:?} (same_type(self) = {})", path, name, v.type_str(), v.same_type(v)));
        }
        match v {
            V::Array(a) => {
                for (i, x) in a.iter().enumerate() {
                    tvalue(x, &format!("{}[{}]", path, i))?;
                }
            }
            V::Table(t) => {
                for (k, x) in t.iter() {
                    if v.get(k.as_str()).is_none() {
                        return Err(format!("toml::Value::get({:?}) finds nothing at {} although iteration yields the key", k, path));
                    }
                    tvalue(x, &format!("{}.{}", path, k))?;
                }
            }
            _ => {}
        }
        Ok(())
    }
    table(doc.as_table(), "root")?;
    tvalue(tv, "root")
}

pub fn c02_eval(bytes: &[u8], uni: &'static str, acc: &mut Acc) {
    let Ok(text) = std::str::from_utf8(bytes) else { return };
    let model = ref_parse(text);
    let Verdict::Valid { tree, limits, .. } = &model else {
        acc.bump("not-valid-skipped");
        return;
    };
    if limits.int_overflow || limits.float_overflow {
        // the document says a number no i64 / finite f64 can hold: whatever an accepting parser hands out cannot be
        // "exactly what the document says" (refusing is the documented limit, C01 / C11)
        let accepted: Vec<&str> = [
            ("DocumentMut", text.parse::<DocumentMut>().is_ok()),
            ("ImDocument", ImDocument::parse(text).is_ok()),
            ("toml::from_str::<Value>", toml::from_str::<toml::Value>(text).is_ok()),
            ("toml_edit::de::from_str::<Value>", toml_edit::de::from_str::<toml::Value>(text).is_ok()),
        ]
        .iter()
        .filter(|(_, ok)| *ok)
        .map(|(n, _)| *n)
        .collect();
        acc.nontrivial(bytes);
        if accepted.is_empty() {
            acc.bump("number beyond the representable range: refused");
        } else {
            acc.viol(uni, text.to_string(), None, format!("the document holds an integer outside i64 or a decimal float beyond f64, yet {} decode(s) it to some value", accepted.join(", ")));
        }
        return;
    }
    if limits.any() {
        acc.bump("limit-skipped");
        return;
    }
    let Val::Table(mroot) = &tree.val else { unreachable!() };
    if !mroot.is_empty() {
        acc.nontrivial(bytes);
    }
    acc.bump("valid-decoded");
    let mc = tree.canon();
    let mcs = tree.canon_sorted();
    let r = guarded(|| -> Result<(), String> {
        let doc = text.parse::<DocumentMut>().map_err(|e| format!("rejected (C01): {}", e.message()))?;
        let rc = canon_doc_table(doc.as_table(), false);
        if rc != mc {
            // tolerate only the position of late-defined super-tables
            cmp_table(mroot, doc.as_table().iter().collect(), "root").map_err(|e| format!("DocumentMut: {}", e))?;
        }
        let im = ImDocument::parse(text).map_err(|e| format!("ImDocument rejected: {}", e.message()))?;
        let ic = canon_doc_table(im.as_table(), false);
        if ic != rc {
            return Err(format!("ImDocument tree {} differs from DocumentMut tree {}", ic, rc));
        }
        let t: toml::Table = toml::from_str(text).map_err(|e| format!("toml::from_str::<Table> rejected: {}", e.message()))?;
        let tc = canon_toml_table(&t, true);
        if tc != mcs {
            return Err(format!("toml::Table {} differs from spec {}", tc, mcs));
        }
        let v: toml::Value = toml::from_str(text).map_err(|e| format!("toml::from_str::<Value> rejected: {}", e.message()))?;
        let vc = canon_toml_value(&v, true);
        if vc != mcs {
            return Err(format!("toml::Value {} differs from spec {}", vc, mcs));
        }
        accessor_laws(&doc, &v)?;
        let v2: toml::Value = toml_edit::de::from_str(text).map_err(|e| format!("toml_edit::de::from_str rejected: {}", e.message()))?;
        if canon_toml_value(&v2, true) != mcs {
            return Err(format!("toml_edit::de::from_str::<Value> {} differs from spec {}", canon_toml_value(&v2, true), mcs));
        }
        Ok(())
    });
    match r {
        Ok(Ok(())) => {
            acc.sample(|| format!("{:?} => {}", text, mc));
        }
        Ok(Err(e)) => acc.viol(uni, text.to_string(), None, e),
        Err(p) => {
            acc.panics += 1;
            acc.viol(uni, text.to_string(), None, format!("panic: {}", p));
        }
    }
}

pub fn c02(tier: Tier) -> i32 {
    let mut rep = Report::new(
        "C02",
        tier,
        "model_checking",
        "every model-valid text of each universe is decoded by DocumentMut, ImDocument, toml::from_str::<Table|Value> and toml_edit::de::from_str; the trees (keys, order, types, exact scalar values; floats by bits; date-times field by field) are compared with the specification model's tree; non-trivial = distinct valid documents with at least one entry",
    );
    rep.assumptions = vec![
        "refmodel is a faithful reading of TOML 1.0.0; float literals are converted by Rust's correctly rounded str::parse::<f64> on the model's own cleaned text".into(),
        "the position of a super-table that is first created implicitly and later defined by its own header is not constrained (source order is ambiguous there)".into(),
        "toml::Table (BTreeMap in the default configuration) is compared modulo key order; order is compared on the toml_edit trees".into(),
    ];
    docu::run(&mut rep, tier, &["tok", "ctx", "esc", "num", "edge", "dt", "stmt", "stmt3", "inline-stmt", "corpus", "decor", "cp", "bom", "reopen", "stmt-values"], &c02_eval);
    // "the source order of keys" is only observable through toml::Table when it keeps insertion order: the cfg engine's
    // binary built with `preserve_order` decodes its whole battery and compares the order of every table's value
    // entries with the specification model's
    {
        let t0 = std::time::Instant::now();
        match crate::c18::build("tm-preserve", "tm_parse tm_display tm_preserve").and_then(|exe| crate::c18::run("tm-preserve", &exe)) {
            Err(e) => {
                println!("MACHINERY-ERROR preserve_order build failed: {}", e.lines().last().unwrap_or(""));
                return 2;
            }
            Ok(r) => {
                let n = r.counts.get("tm.verdict").copied().unwrap_or(0);
                let mut acc = Acc::default();
                acc.evals = n;
                acc.nontrivial_overflow = n;
                acc.sample(|| "toml::Table[preserve_order]: `[t]` / `b = 1` / `a = 2` keeps b before a".to_string());
                for v in r.viols.iter().filter(|v| v.contains("source order")) {
                    acc.viol("U-preserve-order", v.chars().take(240).collect::<String>(), None, v.clone());
                }
                rep.absorb("U-preserve-order", &format!("{} battery documents decoded in the preserve_order build: the value entries of every table in source order", n), n, true, t0, acc);
            }
        }
    }
    rep.finish()
}

// ------------------------------------------------------------------------------------------------
// C09

pub fn c09_eval(bytes: &[u8], uni: &'static str, acc: &mut Acc) {
    let text = std::str::from_utf8(bytes).unwrap();
    let model = ref_parse(text);
    let real = guarded(|| text.parse::<DocumentMut>());
    let real = match real {
        Ok(r) => r,
        Err(p) => {
            acc.panics += 1;
            acc.viol(uni, text.to_string(), None, format!("panic: {}", p));
            return;
        }
    };
    match &model {
        Verdict::UndecidedU1 => acc.bump("u1-skipped"),
        Verdict::Valid { tree, layout, .. } => {
            acc.bump("accepted-by-spec");
            if layout.statements.len() >= 2 {
                acc.nontrivial(bytes);
            }
            match real {
                Err(e) => acc.viol(uni, text.to_string(), None, format!("permitted combination rejected: {}", e.message())),
                Ok(doc) => {
                    let Val::Table(mroot) = &tree.val else { unreachable!() };
                    if let Err(e) = cmp_table(mroot, doc.as_table().iter().collect(), "root") {
                        acc.viol(uni, text.to_string(), None, format!("merged tree differs: {}", e));
                    } else {
                        acc.sample(|| format!("{:?} => {}", text, tree.canon()));
                    }
                }
            }
        }
        Verdict::Invalid(r) => {
            if r.semantic {
                acc.nontrivial(bytes);
                acc.bump(rule_class(r.rule));
            } else {
                acc.bump("syntax-error (not a definition question)");
            }
            match real {
                Ok(_) => {
                    let class = if r.rule == "dotted key passes through an array of tables" { Some("dotted-key-through-array-of-tables") } else { None };
                    acc.viol(uni, text.to_string(), class, format!("forbidden definition accepted; spec: {}", r.rule));
                }
                Err(e) => {
                    let m = e.message();
                    // the property demands rejection, not a particular wording: the kind of message is only tallied
                    if r.semantic {
                        acc.bump(if m.contains("duplicate key") || m.contains("attempted to extend non-table type") { "rejected: duplicate-key / wrong-type message" } else { "rejected: other message" });
                    }
                }
            }
        }
    }
}

fn rule_class(rule: &'static str) -> &'static str {
    rule
}

pub fn c09(tier: Tier) -> i32 {
    let mut rep = Report::new(
        "C09",
        tier,
        "model_checking",
        "every sequence of <= N statements from {[p], [[p]], p = 1, p = {b.a = 1}, p = [1]} over all key paths of the stated alphabet is parsed by the real parser; verdict, error class and merged tree are compared with the specification model's definition-rule engine; non-trivial = distinct sequences that the model rejects, or accepts with >= 2 statements; the outcome histogram is keyed by the rule that fired",
    );
    rep.assumptions = vec!["refmodel's definition-rule engine (DESIGN.md 3.2) is a faithful reading of TOML 1.0.0".into(), "class U1 sequences are skipped and counted".into()];
    docu::run(&mut rep, tier, &["stmt", "stmt3", "inline-stmt", "tok-small", "decor", "reopen", "stmt-values"], &c09_eval);
    rep.finish()
}

// ------------------------------------------------------------------------------------------------
// model audit against the toml-test corpus (DESIGN.md 3.4 (1))

fn expected_canon(j: &serde_json::Value, out: &mut String) -> Result<(), String> {
    use std::fmt::Write;
    match j {
        serde_json::Value::Object(o) => {
            if o.len() == 2 && o.contains_key("type") && o.contains_key("value") && o["type"].is_string() && o["value"].is_string() {
                let ty = o["type"].as_str().unwrap();
                let v = o["value"].as_str().unwrap();
                match ty {
                    "string" => {
                        let _ = write!(out, "s{:?}", v);
                    }
                    "integer" => {
                        let _ = write!(out, "i{}", v.parse::<i128>().map_err(|e| e.to_string())?);
                    }
                    "float" => {
                        let f: f64 = match v {
                            "nan" | "+nan" => f64::NAN.copysign(1.0),
                            "-nan" => f64::NAN.copysign(-1.0),
                            "inf" | "+inf" => f64::INFINITY,
                            "-inf" => f64::NEG_INFINITY,
                            _ => v.parse().map_err(|_| format!("bad float {}", v))?,
                        };
                        if f.is_nan() {
                            out.push_str("fNAN");
                        } else {
                            out.push_str(&refmodel::canon_float(f));
                        }
                    }
                    "bool" => {
                        let _ = write!(out, "b{}", v);
                    }
                    "datetime" | "datetime-local" | "date-local" | "time-local" => {
                        let d = refmodel::parse_datetime_str(v).ok_or_else(|| format!("expected JSON has a date-time the model cannot read: {}", v))?;
                        out.push_str(&refmodel::canon_dt(&d));
                    }
                    _ => return Err(format!("unknown type {}", ty)),
                }
                return Ok(());
            }
            out.push('{');
            let mut keys: Vec<&String> = o.keys().collect();
            keys.sort();
            for (n, k) in keys.into_iter().enumerate() {
                if n > 0 {
                    out.push(',');
                }
                let _ = write!(out, "{:?}:", k);
                expected_canon(&o[k], out)?;
            }
            out.push('}');
            Ok(())
        }
        serde_json::Value::Array(a) => {
            out.push('[');
            for (i, x) in a.iter().enumerate() {
                if i > 0 {
                    out.push(',');
                }
                expected_canon(x, out)?;
            }
            out.push(']');
            Ok(())
        }
        _ => Err("unexpected JSON".into()),
    }
}

pub fn audit_model() -> i32 {
    let mut bad = 0;
    let mut n = 0;
    let listed: std::collections::HashSet<&std::path::Path> = toml_test_data::version("1.0.0").collect();
    for v in toml_test_data::valid() {
        if !listed.contains(v.name) {
            continue;
        }
        n += 1;
        match ref_parse_bytes(v.fixture) {
            Verdict::Valid { tree, .. } => {
                let j: serde_json::Value = serde_json::from_slice(v.expected).unwrap();
                let mut exp = String::new();
                if let Err(e) = expected_canon(&j, &mut exp) {
                    println!("AUDIT {}: cannot canonicalise expectation: {}", v.name.display(), e);
                    bad += 1;
                    continue;
                }
                let got = tree.canon_sorted().replace("f+nan", "fNAN").replace("f-nan", "fNAN");
                if got != exp {
                    println!("AUDIT {}: model tree differs\n  model   : {}\n  expected: {}", v.name.display(), got, exp);
                    bad += 1;
                }
            }
            other => {
                println!("AUDIT {}: model does not accept a valid corpus file: {:?}", v.name.display(), match other {
                    Verdict::Invalid(r) => format!("{} at {}", r.rule, r.at),
                    _ => "U1".into(),
                });
                bad += 1;
            }
        }
    }
    for v in toml_test_data::invalid() {
        if !listed.contains(v.name) {
            continue;
        }
        n += 1;
        if let Verdict::Valid { limits, .. } = ref_parse_bytes(v.fixture) {
            if !limits.any() {
                println!("AUDIT {}: model accepts an invalid corpus file", v.name.display());
                bad += 1;
            }
        }
    }
    println!("model audit: {} corpus files, {} disagreements", n, bad);
    if bad > 0 {
        println!("MACHINERY-ERROR the specification model disagrees with the toml-test corpus");
        2
    } else {
        0
    }
}

/// model audit, part 2 (DESIGN 3.4 (2)): dump (document, model verdict + tree) for the quick universes so that
/// tools/model_audit.py can compare the specification model with CPython's tomllib
pub fn audit_dump(out_path: &str) -> i32 {
    use std::io::Write;
    use std::sync::Mutex;
    let file = match std::fs::File::create(out_path) {
        Ok(f) => f,
        Err(e) => {
            println!("MACHINERY-ERROR cannot create {}: {}", out_path, e);
            return 2;
        }
    };
    let w = Mutex::new(std::io::BufWriter::new(file));
    fn tag(n: &Node) -> serde_json::Value {
        use serde_json::json;
        match &n.val {
            Val::Str(s) => json!({"t": "s", "v": s}),
            Val::Int(i) => json!({"t": "i", "v": i.to_string()}),
            Val::Float(f) => json!({"t": "f", "v": if f.is_nan() { "nan".to_string() } else { format!("{:016x}", f.to_bits()) }}),
            Val::Bool(b) => json!({"t": "b", "v": b}),
            Val::Dt(d) => json!({"t": "d", "v": refmodel::canon_dt(d)}),
            Val::Array(a) => serde_json::Value::Array(a.iter().map(tag).collect()),
            Val::Table(t) => serde_json::Value::Object(t.iter().map(|e| (e.key.clone(), tag(&e.node))).collect()),
        }
    }
    let eval = |bytes: &[u8], _u: &'static str, acc: &mut Acc| {
        let Ok(text) = std::str::from_utf8(bytes) else { return };
        let verdict = match ref_parse(text) {
            Verdict::Valid { tree, limits, .. } => {
                if limits.any() {
                    format!("LIMIT {}", serde_json::to_string(&tag(&tree)).unwrap())
                } else {
                    format!("OK {}", serde_json::to_string(&tag(&tree)).unwrap())
                }
            }
            Verdict::Invalid(_) => "ERR".to_string(),
            Verdict::UndecidedU1 => "U1".to_string(),
        };
        let line = format!("{}\t{}\n", serde_json::to_string(text).unwrap(), verdict);
        w.lock().unwrap().write_all(line.as_bytes()).unwrap();
        acc.nontrivial(bytes);
    };
    let mut rep = Report::new("AUDIT", Tier::Quick, "other", "model audit dump");
    docu::run(&mut rep, Tier::Quick, &["tok-small", "stmt-small", "ctx", "num", "edge", "dt", "decor", "corpus"], &eval);
    w.lock().unwrap().flush().unwrap();
    println!("audit dump written: {} documents", rep.acc.evals);
    0
}

/// replay one recorded case through the oracle of `prop`
pub fn replay(prop: &str, path: &str) -> i32 {
    let j = read_replay(path);
    let input = j["input"].as_str().unwrap_or("").to_string();
    let bytes = bytes_of_show(&input);
    let mut acc = Acc::default();
    match prop {
        "C01" => c01_eval(&bytes, "replay", &mut acc),
        "C02" => c02_eval(&bytes, "replay", &mut acc),
        "C09" => c09_eval(&bytes, "replay", &mut acc),
        _ => unreachable!(),
    }
    println!("input: {:?}", input);
    println!("spec model: {}", match ref_parse_bytes(&bytes) {
        Verdict::Valid { tree, limits, .. } => format!("VALID {} limits={:?}", tree.canon(), limits),
        Verdict::Invalid(r) => format!("INVALID at byte {}: {}", r.at, r.rule),
        Verdict::UndecidedU1 => "UNDECIDED (class U1)".into(),
    });
    if let Ok(t) = std::str::from_utf8(&bytes) {
        match t.parse::<DocumentMut>() {
            Ok(d) => println!("real parser: ACCEPTED {}", canon_doc_table(d.as_table(), false)),
            Err(e) => println!("real parser: REJECTED {:?}", e.message()),
        }
    }
    if acc.viols.is_empty() {
        println!("replay: property holds on this case");
        0
    } else {
        for v in &acc.viols {
            println!("replay: {}", v.detail);
        }
        println!("VIOLATION property={} replay={}", prop, path);
        1
    }
}
