//! C06 — anything built through the API encodes to valid TOML that decodes back.

use crate::common::*;
use refmodel::{canon_dt, canon_float, ref_parse, Node, Origin, Val, Verdict};
use std::fmt::Write;
use toml_edit::{Array, ArrayOfTables, DocumentMut, InlineTable, Item, Table, Value};

#[derive(Clone, Debug, PartialEq)]
pub enum Leaf {
    S(String),
    I(i64),
    F(u64),
    B(bool),
    D(String),
}

#[derive(Clone, Debug, PartialEq)]
pub enum T {
    Leaf(Leaf),
    Arr(Vec<T>),
    Inl(Vec<(String, T)>),
    Tab(Vec<(String, T)>),
    Aot(Vec<Vec<(String, T)>>),
}

impl T {
    fn is_value(&self) -> bool {
        matches!(self, T::Leaf(_) | T::Arr(_) | T::Inl(_))
    }
}

pub fn keys10() -> Vec<String> {
    // (ª µ ² are non-ASCII characters that Unicode calls alphabetic / numeric: they still need quotes as keys)
    ["", "a b", "a.b", "1", "true", "\"", "'", "\n", "é", "a-_1", "ª", "µs", "m²", "日本"].iter().map(|s| s.to_string()).collect()
}

pub fn leaves() -> Vec<Leaf> {
    let mut v = Vec::new();
    for s in ["", "a", "'", "\"", "'''", "\"\"\"", "\\", "\r", "\n", "\r\n", "\u{0}", "\u{7f}", "\u{1f}", "é😀", "#", "a\nb", "'\"\n", "\"\"\"'''", "1979-05-27", "true", "{}"] {
        v.push(Leaf::S(s.to_string()));
    }
    // every pair of byte-class representatives (the quoting decision depends on combinations of classes)
    for a in crate::universe::SIGMA14 {
        for b in crate::universe::SIGMA14 {
            let s = format!("{}{}", a, b);
            if !v.contains(&Leaf::S(s.clone())) {
                v.push(Leaf::S(s));
            }
        }
    }
    for i in [i64::MIN, i64::MAX, 0, -1] {
        v.push(Leaf::I(i));
    }
    for f in [0.0f64, -0.0, f64::INFINITY, f64::NEG_INFINITY, f64::NAN, -f64::NAN, 1e16, 1e-7, f64::MAX, 5e-324, 0.1, 1e15] {
        v.push(Leaf::F(f.to_bits()));
    }
    v.push(Leaf::B(true));
    v.push(Leaf::B(false));
    for d in ["1979-05-27", "07:32:00", "1979-05-27T07:32:00.999999999", "0000-01-01T00:00:00Z", "9999-12-31T23:59:60-23:59"] {
        v.push(Leaf::D(d.to_string()));
    }
    v
}

/// every shape with exactly `n` nodes below a table-like parent; keys are assigned later
fn value_shapes(n: usize) -> Vec<T> {
    // shapes of a single VALUE with n nodes
    if n == 0 {
        return vec![];
    }
    let mut out = Vec::new();
    if n == 1 {
        out.push(T::Leaf(Leaf::I(1)));
    }
    // array with children being values, total nodes n-1 split into a sequence
    for kids in value_seqs(n - 1, 3) {
        out.push(T::Arr(kids.clone()));
        out.push(T::Inl(kids.into_iter().enumerate().map(|(i, k)| (dk(i), k)).collect()));
    }
    out
}
fn dk(i: usize) -> String {
    ["a", "b", "c", "d"][i % 4].to_string()
}
/// sequences of values using exactly n nodes in total, at most `max_len` long
fn value_seqs(n: usize, max_len: usize) -> Vec<Vec<T>> {
    let mut out = vec![];
    if n == 0 {
        return vec![vec![]];
    }
    if max_len == 0 {
        return vec![];
    }
    for first in 1..=n {
        for f in value_shapes(first) {
            for rest in value_seqs(n - first, max_len - 1) {
                let mut v = vec![f.clone()];
                v.extend(rest);
                out.push(v);
            }
        }
    }
    out
}
/// shapes of an ITEM (value, table, array of tables) with n nodes
fn item_shapes(n: usize) -> Vec<T> {
    let mut out = value_shapes(n);
    if n == 0 {
        return out;
    }
    for kids in item_seqs(n - 1, 3) {
        out.push(T::Tab(kids.into_iter().enumerate().map(|(i, k)| (dk(i), k)).collect()));
    }
    // array of tables: elements are tables; node count = 1 + sum(1 + children)
    for els in aot_elems(n - 1, 2) {
        out.push(T::Aot(els));
    }
    out
}
fn item_seqs(n: usize, max_len: usize) -> Vec<Vec<T>> {
    if n == 0 {
        return vec![vec![]];
    }
    if max_len == 0 {
        return vec![];
    }
    let mut out = vec![];
    for first in 1..=n {
        for f in item_shapes(first) {
            for rest in item_seqs(n - first, max_len - 1) {
                let mut v = vec![f.clone()];
                v.extend(rest);
                out.push(v);
            }
        }
    }
    out
}
fn aot_elems(n: usize, max_len: usize) -> Vec<Vec<Vec<(String, T)>>> {
    if n == 0 {
        return vec![vec![]];
    }
    if max_len == 0 {
        return vec![];
    }
    let mut out = vec![];
    for first in 1..=n {
        for kids in item_seqs(first - 1, 2) {
            let el: Vec<(String, T)> = kids.into_iter().enumerate().map(|(i, k)| (dk(i), k)).collect();
            for rest in aot_elems(n - first, max_len - 1) {
                let mut v = vec![el.clone()];
                v.extend(rest);
                out.push(v);
            }
        }
    }
    out
}

pub fn root_shapes(max_nodes: usize) -> Vec<T> {
    let mut out = Vec::new();
    for n in 0..=max_nodes {
        for kids in item_seqs(n, 3) {
            out.push(T::Tab(kids.into_iter().enumerate().map(|(i, k)| (dk(i), k)).collect()));
        }
    }
    out
}

// ---- positions that can deviate: keys and leaves, in pre-order
fn count_positions(t: &T, keys: &mut usize, leaves: &mut usize) {
    match t {
        T::Leaf(_) => *leaves += 1,
        T::Arr(a) => a.iter().for_each(|x| count_positions(x, keys, leaves)),
        T::Inl(e) | T::Tab(e) => {
            for (_, v) in e {
                *keys += 1;
                count_positions(v, keys, leaves);
            }
        }
        T::Aot(els) => {
            for el in els {
                for (_, v) in el {
                    *keys += 1;
                    count_positions(v, keys, leaves);
                }
            }
        }
    }
}
fn set_key(t: &mut T, idx: &mut usize, target: usize, k: &str) -> bool {
    match t {
        T::Leaf(_) => false,
        T::Arr(a) => a.iter_mut().any(|x| set_key(x, idx, target, k)),
        T::Inl(e) | T::Tab(e) => {
            for i in 0..e.len() {
                if *idx == target {
                    // keep keys distinct within one table
                    if e.iter().any(|(kk, _)| kk == k) {
                        *idx += 1;
                        return true;
                    }
                    e[i].0 = k.to_string();
                    *idx += 1;
                    return true;
                }
                *idx += 1;
                if set_key(&mut e[i].1, idx, target, k) {
                    return true;
                }
            }
            false
        }
        T::Aot(els) => {
            for el in els.iter_mut() {
                for i in 0..el.len() {
                    if *idx == target {
                        if el.iter().any(|(kk, _)| kk == k) {
                            *idx += 1;
                            return true;
                        }
                        el[i].0 = k.to_string();
                        *idx += 1;
                        return true;
                    }
                    *idx += 1;
                    if set_key(&mut el[i].1, idx, target, k) {
                        return true;
                    }
                }
            }
            false
        }
    }
}
fn set_leaf(t: &mut T, idx: &mut usize, target: usize, l: &Leaf) -> bool {
    match t {
        T::Leaf(x) => {
            if *idx == target {
                *x = l.clone();
                *idx += 1;
                return true;
            }
            *idx += 1;
            false
        }
        T::Arr(a) => a.iter_mut().any(|x| set_leaf(x, idx, target, l)),
        T::Inl(e) | T::Tab(e) => e.iter_mut().any(|(_, v)| set_leaf(v, idx, target, l)),
        T::Aot(els) => els.iter_mut().any(|el| el.iter_mut().any(|(_, v)| set_leaf(v, idx, target, l))),
    }
}

// ---- expected canonical data: within a table, value entries first (in order), then table-like entries (in order)
fn canon_leaf(l: &Leaf, out: &mut String) {
    match l {
        Leaf::S(s) => {
            let _ = write!(out, "s{:?}", s);
        }
        Leaf::I(i) => {
            let _ = write!(out, "i{}", i);
        }
        Leaf::F(b) => out.push_str(&canon_float(f64::from_bits(*b))),
        Leaf::B(b) => {
            let _ = write!(out, "b{}", b);
        }
        Leaf::D(d) => out.push_str(&canon_dt(&refmodel::parse_datetime_str(d).expect("leaf date-time"))),
    }
}
fn canon_entries(e: &[(String, T)], out: &mut String) {
    out.push('{');
    let mut first = true;
    for pass in [true, false] {
        for (k, v) in e {
            if v.is_value() == pass {
                if !first {
                    out.push(',');
                }
                first = false;
                let _ = write!(out, "{:?}:", k);
                canon_t(v, out);
            }
        }
    }
    out.push('}');
}
fn canon_t(t: &T, out: &mut String) {
    match t {
        T::Leaf(l) => canon_leaf(l, out),
        T::Arr(a) => {
            out.push('[');
            for (i, x) in a.iter().enumerate() {
                if i > 0 {
                    out.push(',');
                }
                canon_t(x, out);
            }
            out.push(']');
        }
        T::Inl(e) | T::Tab(e) => canon_entries(e, out),
        T::Aot(els) => {
            out.push('[');
            for (i, el) in els.iter().enumerate() {
                if i > 0 {
                    out.push(',');
                }
                canon_entries(el, out);
            }
            out.push(']');
        }
    }
}
/// same normal form for a decoded model tree
fn canon_node(n: &Node, out: &mut String) {
    match &n.val {
        Val::Table(es) => {
            out.push('{');
            let mut first = true;
            for pass in [true, false] {
                for e in es {
                    let is_value = matches!(e.node.origin, Origin::Scalar | Origin::InlineArray | Origin::InlineTable);
                    if is_value == pass {
                        if !first {
                            out.push(',');
                        }
                        first = false;
                        let _ = write!(out, "{:?}:", e.key);
                        canon_node(&e.node, out);
                    }
                }
            }
            out.push('}');
        }
        Val::Array(a) => {
            out.push('[');
            for (i, x) in a.iter().enumerate() {
                if i > 0 {
                    out.push(',');
                }
                canon_node(x, out);
            }
            out.push(']');
        }
        _ => out.push_str(&n.canon()),
    }
}

// ---- construction routes

/// a Datetime built from the specification model's reading of the text, never through the parsers under test
fn dt_from_model(d: &str) -> toml_edit::Datetime {
    use toml_edit::{Date, Offset, Time};
    let m = refmodel::parse_datetime_str(d).expect("leaf date-time");
    toml_edit::Datetime {
        date: m.date.map(|(year, month, day)| Date { year, month, day }),
        time: m.time.map(|(hour, minute, second, nanosecond)| Time { hour, minute, second, nanosecond }),
        offset: m.offset.map(|o| match o {
            refmodel::Off::Z => Offset::Z,
            refmodel::Off::Minutes(minutes) => Offset::Custom { minutes },
        }),
    }
}

fn leaf_value(l: &Leaf) -> Value {
    match l {
        Leaf::S(s) => Value::from(s.as_str()),
        Leaf::I(i) => Value::from(*i),
        Leaf::F(b) => Value::from(f64::from_bits(*b)),
        Leaf::B(b) => Value::from(*b),
        Leaf::D(d) => Value::from(dt_from_model(d)),
    }
}
fn to_value(t: &T, route: usize) -> Value {
    match t {
        T::Leaf(l) => leaf_value(l),
        T::Arr(a) => {
            if route == 2 {
                Value::Array(Array::from_iter(a.iter().map(|x| to_value(x, route))))
            } else {
                let mut arr = Array::new();
                for x in a {
                    arr.push(to_value(x, route));
                }
                Value::Array(arr)
            }
        }
        T::Inl(e) | T::Tab(e) => {
            if route == 2 {
                Value::InlineTable(InlineTable::from_iter(e.iter().map(|(k, v)| (k.as_str(), to_value(v, route)))))
            } else {
                let mut it = InlineTable::new();
                for (k, v) in e {
                    if route == 1 {
                        it.get_or_insert(k.as_str(), to_value(v, route));
                    } else {
                        it.insert(k.as_str(), to_value(v, route));
                    }
                }
                Value::InlineTable(it)
            }
        }
        T::Aot(els) => {
            // (only reached by the conversion route)
            let mut arr = Array::new();
            for el in els {
                let mut it = InlineTable::new();
                for (k, v) in el {
                    it.insert(k.as_str(), to_value(v, route));
                }
                arr.push(Value::InlineTable(it));
            }
            Value::Array(arr)
        }
    }
}
fn fill_table(tab: &mut Table, e: &[(String, T)], route: usize) {
    for (k, v) in e {
        let item = to_item(v, route);
        match route {
            0 => {
                tab.insert(k, item);
            }
            1 => {
                tab.entry(k).or_insert(item);
            }
            2 => {
                tab[k.as_str()] = item;
            }
            _ => {
                tab.insert_formatted(&toml_edit::Key::new(k.as_str()), item);
            }
        }
    }
}
fn to_item(t: &T, route: usize) -> Item {
    match t {
        T::Leaf(_) | T::Arr(_) | T::Inl(_) => {
            if route == 1 {
                toml_edit::value(to_value(t, route))
            } else {
                Item::Value(to_value(t, route))
            }
        }
        T::Tab(e) => {
            if route == 2 {
                // From/FromIterator
                Item::Table(Table::from_iter(e.iter().map(|(k, v)| (k.as_str(), to_item(v, route)))))
            } else {
                let mut tab = if route == 1 { toml_edit::table().into_table().unwrap() } else { Table::new() };
                fill_table(&mut tab, e, route);
                Item::Table(tab)
            }
        }
        T::Aot(els) => {
            if route == 2 {
                Item::ArrayOfTables(ArrayOfTables::from_iter(els.iter().map(|el| {
                    let mut tab = Table::new();
                    fill_table(&mut tab, el, route);
                    tab
                })))
            } else {
                let mut a = ArrayOfTables::new();
                for el in els {
                    let mut tab = Table::new();
                    fill_table(&mut tab, el, route);
                    a.push(tab);
                }
                Item::ArrayOfTables(a)
            }
        }
    }
}
/// route 3: build everything as inline values, then convert with into_table / into_array_of_tables
fn to_item_converted(t: &T) -> Item {
    match t {
        T::Leaf(_) | T::Arr(_) | T::Inl(_) => Item::Value(to_value(t, 0)),
        T::Tab(e) => {
            let mut tab = Table::new();
            for (k, v) in e {
                tab.insert(k, to_item_converted(v));
            }
            // through the inline form and back
            let inl = tab.clone().into_inline_table();
            if inl.len() == tab.len() && e.iter().all(|(_, v)| v.is_value()) {
                Item::Value(Value::InlineTable(inl)).into_table().map(Item::Table).unwrap_or(Item::Table(tab))
            } else {
                Item::Table(tab)
            }
        }
        T::Aot(els) => {
            if els.iter().all(|el| el.iter().all(|(_, v)| v.is_value())) && !els.is_empty() {
                Item::Value(to_value(t, 0)).into_array_of_tables().map(Item::ArrayOfTables).unwrap_or_else(|i| i)
            } else {
                to_item(t, 0)
            }
        }
    }
}
fn build_doc(root: &T, route: usize) -> DocumentMut {
    let T::Tab(e) = root else { unreachable!() };
    let mut doc = DocumentMut::new();
    if route == 3 {
        for (k, v) in e {
            doc.insert(k, to_item_converted(v));
        }
    } else {
        fill_table(doc.as_table_mut(), e, route);
    }
    doc
}
fn to_toml_value(t: &T) -> toml::Value {
    match t {
        T::Leaf(Leaf::S(s)) => toml::Value::String(s.clone()),
        T::Leaf(Leaf::I(i)) => toml::Value::Integer(*i),
        T::Leaf(Leaf::F(b)) => toml::Value::Float(f64::from_bits(*b)),
        T::Leaf(Leaf::B(b)) => toml::Value::Boolean(*b),
        T::Leaf(Leaf::D(d)) => toml::Value::Datetime(dt_from_model(d)),
        T::Arr(a) => toml::Value::Array(a.iter().map(to_toml_value).collect()),
        T::Inl(e) | T::Tab(e) => toml::Value::Table(e.iter().map(|(k, v)| (k.clone(), to_toml_value(v))).collect()),
        T::Aot(els) => toml::Value::Array(els.iter().map(|el| toml::Value::Table(el.iter().map(|(k, v)| (k.clone(), to_toml_value(v))).collect())).collect()),
    }
}

/// the tree with every empty array of tables removed (what the printer can spell)
fn without_empty_aots(t: &T) -> T {
    let strip = |e: &Vec<(String, T)>| -> Vec<(String, T)> { e.iter().filter(|(_, v)| !matches!(v, T::Aot(els) if els.is_empty())).map(|(k, v)| (k.clone(), without_empty_aots(v))).collect() };
    match t {
        T::Leaf(_) => t.clone(),
        T::Arr(a) => T::Arr(a.iter().map(without_empty_aots).collect()),
        T::Inl(e) => T::Inl(strip(e)),
        T::Tab(e) => T::Tab(strip(e)),
        T::Aot(els) => T::Aot(els.iter().map(strip).collect()),
    }
}

fn has_empty_aot(t: &T) -> bool {
    match t {
        T::Aot(els) => els.is_empty() || els.iter().any(|el| el.iter().any(|(_, v)| has_empty_aot(v))),
        T::Arr(a) => a.iter().any(has_empty_aot),
        T::Inl(e) | T::Tab(e) => e.iter().any(|(_, v)| has_empty_aot(v)),
        T::Leaf(_) => false,
    }
}
fn has_neg_nan(t: &T) -> bool {
    match t {
        T::Leaf(Leaf::F(b)) => f64::from_bits(*b).is_nan() && f64::from_bits(*b).is_sign_negative(),
        T::Leaf(_) => false,
        T::Arr(a) => a.iter().any(has_neg_nan),
        T::Inl(e) | T::Tab(e) => e.iter().any(|(_, v)| has_neg_nan(v)),
        T::Aot(els) => els.iter().any(|el| el.iter().any(|(_, v)| has_neg_nan(v))),
    }
}


/// the tree a parsed toml_edit value holds (for comparing what a Display prints)
fn t_of_value(v: &Value) -> T {
    match v {
        Value::String(s) => T::Leaf(Leaf::S(s.value().clone())),
        Value::Integer(i) => T::Leaf(Leaf::I(*i.value())),
        Value::Float(f) => T::Leaf(Leaf::F(f.value().to_bits())),
        Value::Boolean(b) => T::Leaf(Leaf::B(*b.value())),
        Value::Datetime(d) => T::Leaf(Leaf::D(d.value().to_string())),
        Value::Array(a) => T::Arr(a.iter().map(t_of_value).collect()),
        Value::InlineTable(t) => T::Inl(t.iter().map(|(k, x)| (k.to_string(), t_of_value(x))).collect()),
    }
}

pub fn check_tree(root: &T, acc: &mut Acc) {
    let mut want = String::new();
    canon_t(root, &mut want);
    acc.nontrivial(want.as_bytes());
    let label = format!("{:?}", root);
    let routes_differ = std::cell::Cell::new(false);
    let r = guarded(|| -> Result<(), (Option<&'static str>, String)> {
        // precise recogniser of the known finding: the output is exactly the tree minus its empty arrays of tables
        let want_known = if has_empty_aot(root) {
            let mut w = String::new();
            canon_t(&without_empty_aots(root), &mut w);
            Some(w)
        } else {
            None
        };
        let mut texts: Vec<String> = Vec::new();
        for route in 0..5 {
            let doc = build_doc(root, route.min(4));
            let text = doc.to_string();
            if doc.to_string() != text {
                return Err((None, format!("route {}: printing twice gives different text", route)));
            }
            let Verdict::Valid { tree, .. } = ref_parse(&text) else {
                let why = match ref_parse(&text) {
                    Verdict::Invalid(r) => format!("{} at byte {}", r.rule, r.at),
                    _ => "undecided".into(),
                };
                return Err((None, format!("route {}: printed text is not valid TOML ({}): {:?}", route, why, text)));
            };
            let mut got = String::new();
            canon_node(&tree, &mut got);
            if got != want {
                let class = if want_known.as_deref() == Some(got.as_str()) { Some("empty-array-of-tables-not-printed") } else { None };
                return Err((class, format!("route {}: printed text {:?} decodes to {} instead of {}", route, text, got, want)));
            }
            let back = text.parse::<DocumentMut>().map_err(|e| (None, format!("route {}: printed text {:?} rejected by the parser: {}", route, text, e.message())))?;
            if back.to_string() != text {
                return Err((None, format!("route {}: printed text is not a fixed point of parse -> print: {:?} -> {:?}", route, text, back.to_string())));
            }
            texts.push(text);
        }
        // the parts print on their own too: Display of a Value / Item::Value is its token, Display of a Table is the
        // document of its contents, Display of an ArrayOfTables is the array of inline tables
        if let T::Tab(e) = root {
            let doc = build_doc(root, 0);
            for (k, v) in e {
                let Some(item) = doc.get(k) else { continue };
                let shown = item.to_string();
                match (v, item) {
                    (T::Leaf(_) | T::Arr(_) | T::Inl(_), Item::Value(val)) => {
                        if val.to_string() != shown {
                            return Err((None, format!("Display of Item::Value and of the Value differ at {:?}: {:?} vs {:?}", k, shown, val.to_string())));
                        }
                        let back: Value = shown.trim().parse().map_err(|e: toml_edit::TomlError| (None, format!("Display of the value at {:?} = {:?} does not parse as a value: {}", k, shown, e.message())))?;
                        let (mut g, mut w) = (String::new(), String::new());
                        canon_t(&t_of_value(&back), &mut g);
                        canon_t(v, &mut w);
                        if g != w {
                            return Err((None, format!("Display of the value at {:?} = {:?} parses back to {} instead of {}", k, shown, g, w)));
                        }
                    }
                    (T::Tab(te), Item::Table(tab)) => {
                        let text = tab.to_string();
                        if text != shown {
                            return Err((None, format!("Display of Item::Table and of the Table differ at {:?}", k)));
                        }
                        // values of the table itself must be there; what it does with sub-tables is its own business as
                        // long as the text is valid and does not invent or change anything
                        if let Verdict::Valid { tree, .. } = ref_parse(&text) {
                            let mut got = String::new();
                            canon_node(&tree, &mut got);
                            let own_values = T::Tab(te.iter().filter(|(_, x)| x.is_value()).cloned().collect());
                            let mut w = String::new();
                            canon_t(&own_values, &mut w);
                            let mut full = String::new();
                            canon_t(&T::Tab(te.clone()), &mut full);
                            if got != w && got != full {
                                return Err((None, format!("Display of the table at {:?} = {:?} decodes to {} (the table holds {})", k, text, got, full)));
                            }
                        } else {
                            return Err((None, format!("Display of the table at {:?} is not valid TOML: {:?}", k, text)));
                        }
                    }
                    (T::Aot(els), Item::ArrayOfTables(a)) => {
                        if els.is_empty() {
                            continue;
                        }
                        let text = a.to_string();
                        let back: Value = text.trim().parse().map_err(|e: toml_edit::TomlError| (None, format!("Display of the array of tables at {:?} = {:?} does not parse as a value: {}", k, text, e.message())))?;
                        fn inl2(t: &T) -> T {
                            match t {
                                T::Tab(e) | T::Inl(e) => T::Inl(e.iter().map(|(k, v)| (k.clone(), inl2(v))).collect()),
                                T::Aot(els) => T::Arr(els.iter().map(|el| T::Inl(el.iter().map(|(k, v)| (k.clone(), inl2(v))).collect())).collect()),
                                T::Arr(a) => T::Arr(a.iter().map(inl2).collect()),
                                T::Leaf(_) => t.clone(),
                            }
                        }
                        let (mut g, mut w) = (String::new(), String::new());
                        canon_t(&t_of_value(&back), &mut g);
                        canon_t(&inl2(v), &mut w);
                        if g != w {
                            return Err((None, format!("Display of the array of tables at {:?} = {:?} parses back to {} instead of {}", k, text, g, w)));
                        }
                    }
                    _ => {}
                }
            }
        }
        // conversion route: built as standard tables / arrays of tables (route 0), then every root entry of those kinds
        // turned into a value with make_value(): `[t]` / `[[t.v]]` -> `t = { v = [{..}] }`
        if let T::Tab(e) = root {
            if e.iter().any(|(_, v)| matches!(v, T::Tab(_) | T::Aot(_))) {
                fn inl(t: &T) -> T {
                    match t {
                        T::Tab(e) | T::Inl(e) => T::Inl(e.iter().map(|(k, v)| (k.clone(), inl(v))).collect()),
                        T::Aot(els) => T::Arr(els.iter().map(|el| T::Inl(el.iter().map(|(k, v)| (k.clone(), inl(v))).collect())).collect()),
                        T::Arr(a) => T::Arr(a.iter().map(inl).collect()),
                        T::Leaf(_) => t.clone(),
                    }
                }
                let mut doc = build_doc(root, 0);
                for (k, v) in e {
                    if matches!(v, T::Tab(_) | T::Aot(_)) {
                        if let Some(item) = doc.get_mut(k) {
                            item.make_value();
                        }
                    }
                }
                let text = doc.to_string();
                let Verdict::Valid { tree, .. } = ref_parse(&text) else {
                    return Err((None, format!("after make_value() on the root's tables the printed text is not valid TOML: {:?}", text)));
                };
                let want_inl = T::Tab(e.iter().map(|(k, v)| (k.clone(), if matches!(v, T::Tab(_) | T::Aot(_)) { inl(v) } else { v.clone() })).collect());
                let (mut got, mut w) = (String::new(), String::new());
                canon_node(&tree, &mut got);
                canon_t(&want_inl, &mut w);
                if got != w {
                    return Err((None, format!("after make_value() on the root's tables the printed text {:?} decodes to {} instead of {}", text, got, w)));
                }
            }
        }
        // (whether two construction routes give byte-identical text is not promised - "the same structure prints the same
        // text" is about one structure printed twice, checked above; each route's text is held to validity, decoding,
        // and the fixed point on its own.  Differences between routes are only tallied.)
        if texts.iter().any(|t| *t != texts[0]) {
            routes_differ.set(true);
        }
        // toml::Value / toml::Table display (sorted map: compare with keys sorted; NaN sign dropped by documented design)
        let tv = to_toml_value(root);
        let toml::Value::Table(tt) = &tv else { unreachable!() };
        let text = tt.to_string();
        let Verdict::Valid { tree, .. } = ref_parse(&text) else { return Err((None, format!("toml::Table display is not valid TOML: {:?}", text))) };
        let mut want_sorted = crate::real::canon_toml_value(&tv, true);
        let mut got_sorted = tree.canon_sorted();
        if has_neg_nan(root) {
            want_sorted = want_sorted.replace("f-nan", "f+nan");
            got_sorted = got_sorted.replace("f-nan", "f+nan");
        }
        if got_sorted != want_sorted {
            return Err((None, format!("toml::Table display {:?} decodes to {} instead of {}", text, got_sorted, want_sorted)));
        }
        if tt.to_string() != text {
            return Err((None, "toml::Table display is not deterministic".into()));
        }
        Ok(())
    });
    if routes_differ.get() {
        acc.bump("construction routes print differently (not promised; tallied only)");
    }
    match r {
        Ok(Ok(())) => {
            acc.bump("tree-round-trips");
            acc.sample(|| label.clone());
        }
        Ok(Err((class, e))) => acc.viol("U-tree", label, class, e),
        Err(p) => {
            acc.panics += 1;
            acc.viol("U-tree", label, None, format!("panic: {}", p));
        }
    }
}


/// documents that are the result of a short API history rather than of plain construction: array / array-of-tables
/// slots vacated through mutable indexing, and value objects that carry decor from a previous life (lifted out of a
/// `key = value # comment` line, or decorated by hand) handed to the entry points that apply default formatting
fn gcd(a: usize, b: usize) -> usize {
    if b == 0 {
        a
    } else {
        gcd(b, a % b)
    }
}

fn api_state_family(rep: &mut Report) {
    let t0 = std::time::Instant::now();
    let mut acc = Acc::default();
    let ints = |v: &[i64]| T::Arr(v.iter().map(|i| T::Leaf(Leaf::I(*i))).collect());
    let mut judge = |acc: &mut Acc, label: String, doc: &DocumentMut, want: T| {
        acc.evals += 1;
        acc.nontrivial(label.as_bytes());
        let r = guarded(|| -> Result<(), String> {
            let text = doc.to_string();
            let Verdict::Valid { tree, .. } = ref_parse(&text) else {
                let why = match ref_parse(&text) {
                    Verdict::Invalid(r) => format!("{} at byte {}", r.rule, r.at),
                    _ => "undecided".into(),
                };
                return Err(format!("printed text is not valid TOML ({}): {:?}", why, text));
            };
            let (mut got, mut w) = (String::new(), String::new());
            canon_node(&tree, &mut got);
            canon_t(&want, &mut w);
            if got != w {
                return Err(format!("printed text {:?} decodes to {} instead of {}", text, got, w));
            }
            let back = text.parse::<DocumentMut>().map_err(|e| format!("printed text {:?} rejected by the parser: {}", text, e.message()))?;
            if back.to_string() != text {
                return Err(format!("printed text is not a fixed point: {:?} -> {:?}", text, back.to_string()));
            }
            Ok(())
        });
        match r {
            Ok(Ok(())) => {
                acc.bump("api-state-round-trips");
                acc.sample(|| label.clone());
            }
            Ok(Err(e)) => acc.viol("U-api-state", label, None, e),
            Err(p) => acc.viol("U-api-state", label, None, format!("panic: {}", p)),
        }
    };
    // (a) vacated slots
    for n in 1..=4usize {
        for mask in 1u32..(1 << n) {
            let vals: Vec<i64> = (1..=n as i64).collect();
            let left: Vec<i64> = (0..n).filter(|i| mask & (1 << i) == 0).map(|i| vals[i]).collect();
            for parsed in [false, true] {
                let mut doc = if parsed {
                    format!("a = [{}]\nz = 0\n", vals.iter().map(|v| v.to_string()).collect::<Vec<_>>().join(", ")).parse::<DocumentMut>().unwrap()
                } else {
                    let mut d = DocumentMut::new();
                    d["a"] = toml_edit::value(Array::from_iter(vals.iter().copied()));
                    d["z"] = toml_edit::value(0);
                    d
                };
                for i in 0..n {
                    if mask & (1 << i) != 0 {
                        let _ = std::mem::take(&mut doc["a"][i]);
                    }
                }
                judge(&mut acc, format!("array of {} ({}), slots {:#b} vacated with mem::take(&mut doc[\"a\"][i])", n, if parsed { "parsed" } else { "built" }, mask), &doc, T::Tab(vec![("a".into(), ints(&left)), ("z".into(), T::Leaf(Leaf::I(0)))]));
                // array of tables (not every element vacated: an element-less array of tables is the known finding)
                if left.is_empty() {
                    continue;
                }
                let mut doc = if parsed {
                    vals.iter().map(|v| format!("[[t]]\nx = {}\n", v)).collect::<String>().parse::<DocumentMut>().unwrap()
                } else {
                    let mut d = DocumentMut::new();
                    let mut a = ArrayOfTables::new();
                    for v in &vals {
                        let mut t = Table::new();
                        t.insert("x", toml_edit::value(*v));
                        a.push(t);
                    }
                    d.insert("t", Item::ArrayOfTables(a));
                    d
                };
                for i in 0..n {
                    if mask & (1 << i) != 0 {
                        let _ = std::mem::take(&mut doc["t"][i]);
                    }
                }
                let want = T::Tab(vec![("t".into(), T::Aot(left.iter().map(|v| vec![("x".to_string(), T::Leaf(Leaf::I(*v)))]).collect()))]);
                judge(&mut acc, format!("array of tables of {} ({}), slots {:#b} vacated", n, if parsed { "parsed" } else { "built" }, mask), &doc, want.clone());
                // ... and the same array of tables turned into an inline array afterwards
                let mut d2 = doc.clone();
                d2["t"].make_value();
                let want_inline = T::Tab(vec![("t".into(), T::Arr(left.iter().map(|v| T::Inl(vec![("x".to_string(), T::Leaf(Leaf::I(*v)))])).collect()))]);
                judge(&mut acc, format!("array of tables of {} ({}), slots {:#b} vacated, then make_value()", n, if parsed { "parsed" } else { "built" }, mask), &d2, want_inline);
            }
        }
    }
    // (b) value objects with a previous life
    let sources: Vec<(&str, Box<dyn Fn() -> Value>)> = vec![
        ("Value::from(7).decorated(\"  \", \" # note\")", Box::new(|| Value::from(7).decorated("  ", " # note"))),
        ("lifted from `k = 7 # c`", Box::new(|| "k = 7 # c\n".parse::<DocumentMut>().unwrap().remove("k").unwrap().into_value().unwrap())),
        ("lifted from `k = 7 # c` (no final newline)", Box::new(|| "k = 7 # c".parse::<DocumentMut>().unwrap().remove("k").unwrap().into_value().unwrap())),
        ("taken out of `[ 1, 7 # c\\n ]`", Box::new(|| "[ 1, 7 # c\n ]".parse::<Value>().unwrap().as_array().unwrap().get(1).unwrap().clone())),
    ];
    for (sname, src) in &sources {
        for start in [vec![], vec![1i64], vec![1, 2]] {
            for entry in 0..4 {
                let mut a = Array::from_iter(start.iter().copied());
                let mut want = start.clone();
                let ename = match entry {
                    0 => {
                        a.push(src());
                        want.push(7);
                        "Array::push"
                    }
                    1 => {
                        a.insert(0, src());
                        want.insert(0, 7);
                        "Array::insert(0, ..)"
                    }
                    2 => {
                        a.insert(start.len(), src());
                        want.push(7);
                        "Array::insert(len, ..)"
                    }
                    3 => {
                        if start.is_empty() {
                            continue;
                        }
                        a.replace(0, src());
                        want[0] = 7;
                        "Array::replace(0, ..)"
                    }
                    // (Array::extend and FromIterator are `push_formatted` in a loop: they keep the caller's decor by
                    // design, like every *_formatted entry point, so what the decor contains is the caller's business)
                    _ => continue,
                };
                let mut doc = DocumentMut::new();
                doc["a"] = toml_edit::value(a);
                doc["z"] = toml_edit::value(0);
                judge(&mut acc, format!("{} with a value {} into an array of {}", ename, sname, start.len()), &doc, T::Tab(vec![("a".into(), ints(&want)), ("z".into(), T::Leaf(Leaf::I(0)))]));
            }
        }
    }
    // (d) tables shaped through set_implicit / set_dotted: a table that shows only through its children
    for direct in [false, true] {
        for dotted_child in [false, true] {
            for sub in [false, true] {
                for implicit in [false, true] {
                    let mut doc = DocumentMut::new();
                    doc["top"] = toml_edit::value(0);
                    let mut first = Table::new();
                    first.insert("f", toml_edit::value(1));
                    doc.insert("first", Item::Table(first));
                    let mut p = Table::new();
                    p.set_implicit(implicit);
                    let mut want_p: Vec<(String, T)> = Vec::new();
                    if direct {
                        p.insert("v", toml_edit::value(2));
                        want_p.push(("v".into(), T::Leaf(Leaf::I(2))));
                    }
                    if dotted_child {
                        let mut d = Table::new();
                        d.set_dotted(true);
                        d.insert("x", toml_edit::value(3));
                        d.insert("y", toml_edit::value(4));
                        p.insert("d", Item::Table(d));
                        want_p.push(("d".into(), T::Tab(vec![("x".into(), T::Leaf(Leaf::I(3))), ("y".into(), T::Leaf(Leaf::I(4)))])));
                    }
                    if sub {
                        let mut c = Table::new();
                        c.insert("z", toml_edit::value(5));
                        p.insert("c", Item::Table(c));
                        want_p.push(("c".into(), T::Tab(vec![("z".into(), T::Leaf(Leaf::I(5)))])));
                    }
                    if want_p.is_empty() && implicit {
                        continue; // an implicit table without anything below it has no spelling
                    }
                    doc.insert("p", Item::Table(p));
                    let want = T::Tab(vec![("top".into(), T::Leaf(Leaf::I(0))), ("first".into(), T::Tab(vec![("f".into(), T::Leaf(Leaf::I(1)))])), ("p".into(), T::Tab(want_p))]);
                    judge(&mut acc, format!("table p (implicit: {}) with direct value: {}, dotted child table: {}, sub-table: {}, after another table", implicit, direct, dotted_child, sub), &doc, want);
                }
            }
        }
    }
    // (e) inline tables that were marked dotted (`set_dotted(true)`: printed as `k.a = 1` inside a parent) and are then
    // converted and placed where only a `[header]` / `[[header]]` can spell them
    for dotted in [false, true] {
        for pairs in [vec![("a", 1i64)], vec![("cpu", 1), ("mem", 2)]] {
            let mk = || {
                let mut t = InlineTable::new();
                for (k, v) in &pairs {
                    t.insert(*k, Value::from(*v));
                }
                t.set_dotted(dotted);
                t
            };
            let want_t = || T::Tab(pairs.iter().map(|(k, v)| (k.to_string(), T::Leaf(Leaf::I(*v)))).collect());
            let want_i = || T::Inl(pairs.iter().map(|(k, v)| (k.to_string(), T::Leaf(Leaf::I(*v)))).collect());
            for place in 0..7usize {
                let mut doc = DocumentMut::new();
                doc["name"] = toml_edit::value("x");
                let (pname, want): (&str, T) = match place {
                    0 => {
                        let mut a = Array::new();
                        a.push(Value::InlineTable(mk()));
                        a.push(Value::InlineTable(mk()));
                        doc.insert("l", Item::Value(Value::Array(a)));
                        ("elements of an array value", T::Arr(vec![want_i(), want_i()]))
                    }
                    1 => {
                        let mut a = Array::new();
                        a.push(Value::InlineTable(mk()));
                        a.push(Value::InlineTable(mk()));
                        let Ok(aot) = Item::Value(Value::Array(a)).into_array_of_tables() else { continue };
                        doc.insert("l", Item::ArrayOfTables(aot));
                        ("Item::into_array_of_tables", T::Aot(vec![pairs.iter().map(|(k, v)| (k.to_string(), T::Leaf(Leaf::I(*v)))).collect(), pairs.iter().map(|(k, v)| (k.to_string(), T::Leaf(Leaf::I(*v)))).collect()]))
                    }
                    2 => {
                        let Ok(t) = Item::Value(Value::InlineTable(mk())).into_table() else { continue };
                        let mut aot = toml_edit::ArrayOfTables::new();
                        aot.push(t);
                        doc.insert("l", Item::ArrayOfTables(aot));
                        ("Item::into_table, pushed into an array of tables", T::Aot(vec![pairs.iter().map(|(k, v)| (k.to_string(), T::Leaf(Leaf::I(*v)))).collect()]))
                    }
                    3 => {
                        let Ok(t) = Item::Value(Value::InlineTable(mk())).into_table() else { continue };
                        doc.insert("l", Item::Table(t));
                        ("Item::into_table, inserted as a table", want_t())
                    }
                    4 => {
                        // (index assignment of a table-valued item goes through the same conversion helpers)
                        doc["l"] = Item::Table(mk().into_table());
                        ("InlineTable::into_table, assigned by index", want_t())
                    }
                    5 => {
                        let mut sub = Table::new();
                        sub.insert("in", Item::Value(Value::InlineTable(mk())));
                        doc.insert("l", Item::Table(sub));
                        ("value of a sub-table", T::Tab(vec![("in".to_string(), want_i())]))
                    }
                    _ => {
                        let t = mk().into_table();
                        let mut outer = Table::new();
                        outer.insert("k", toml_edit::value(1));
                        outer.insert("in", Item::Table(t));
                        doc.insert("l", Item::Table(outer));
                        ("InlineTable::into_table below a table", T::Tab(vec![("k".to_string(), T::Leaf(Leaf::I(1))), ("in".to_string(), want_t())]))
                    }
                };
                let want_doc = T::Tab(vec![("name".into(), T::Leaf(Leaf::S("x".into()))), ("l".into(), want)]);
                judge(&mut acc, format!("inline table {:?} (set_dotted: {}) as {}", pairs, dotted, pname), &doc, want_doc);
            }
            // as the ROOT of a document
            let t = mk().into_table();
            let doc = DocumentMut::from(t);
            judge(&mut acc, format!("inline table {:?} (set_dotted: {}) converted with into_table and made the document root", pairs, dotted), &doc, want_t());
        }
    }
    // (c) wide documents: tables created through the API carry no position of their own and are printed relative to
    // their neighbours; with more than 20 of them any instability in that ordering shows
    for n in [0usize, 1, 2, 3, 19, 20, 21, 22, 23, 33, 48] {
        for parsed_prefix in [0usize, 1, 2] {
            // prefix 2: headers out of TREE order (`[b.x]` before `[b]`), so the positions met while walking the tree are
            // not already sorted when the API-made tables (which all tie) are appended
            let prefix_text = ["", "[zz]\nq = 0\n[aa]\nq = 1\n", "[b.x]\nq = 0\n[a]\nq = 1\n[b]\nq = 2\n[c.y.z]\nq = 3\n[c]\nq = 4\n"][parsed_prefix];
            let q = |i: i64| ("q".to_string(), T::Leaf(Leaf::I(i)));
            let prefix_want: Vec<(String, T)> = match parsed_prefix {
                0 => vec![],
                1 => vec![("zz".into(), T::Tab(vec![q(0)])), ("aa".into(), T::Tab(vec![q(1)]))],
                _ => vec![("b".into(), T::Tab(vec![q(2), ("x".into(), T::Tab(vec![q(0)]))])), ("a".into(), T::Tab(vec![q(1)])), ("c".into(), T::Tab(vec![q(4), ("y".into(), T::Tab(vec![("z".into(), T::Tab(vec![q(3)]))]))]))],
            };
            // n standard tables
            let mut doc: DocumentMut = prefix_text.parse().unwrap();
            let mut want: Vec<(String, T)> = prefix_want.clone();
            for i in 0..n {
                let mut t = Table::new();
                t.insert("x", toml_edit::value(i as i64));
                let mut sub = Table::new();
                sub.insert("y", toml_edit::value(i as i64));
                t.insert("s", Item::Table(sub));
                // (keys chosen so that tree order, insertion order and alphabetical order all differ)
                let step = (7..).find(|s| gcd(*s, n.max(1)) == 1).unwrap();
                let k = format!("t{:02}", (i * step) % n.max(1));
                doc.insert(&k, Item::Table(t));
                want.push((k, T::Tab(vec![("x".into(), T::Leaf(Leaf::I(i as i64))), ("s".into(), T::Tab(vec![("y".into(), T::Leaf(Leaf::I(i as i64)))]))])));
            }
            judge(&mut acc, format!("{} tables inserted through the API after the parsed prefix {:?}", n, prefix_text), &doc, T::Tab(want));
            // one array of tables with n elements, each with a sub-table and a nested array of tables
            if n > 0 {
                let mut doc: DocumentMut = prefix_text.parse().unwrap();
                let mut a = ArrayOfTables::new();
                let mut els = Vec::new();
                for i in 0..n {
                    let mut t = Table::new();
                    t.insert("x", toml_edit::value(i as i64));
                    let mut sub = Table::new();
                    sub.insert("y", toml_edit::value(i as i64));
                    t.insert("s", Item::Table(sub));
                    let mut inner = ArrayOfTables::new();
                    let mut it = Table::new();
                    it.insert("z", toml_edit::value(i as i64));
                    inner.push(it);
                    t.insert("n", Item::ArrayOfTables(inner));
                    a.push(t);
                    els.push(vec![("x".to_string(), T::Leaf(Leaf::I(i as i64))), ("s".to_string(), T::Tab(vec![("y".into(), T::Leaf(Leaf::I(i as i64)))])), ("n".to_string(), T::Aot(vec![vec![("z".to_string(), T::Leaf(Leaf::I(i as i64)))]]))]);
                }
                doc.insert("item", Item::ArrayOfTables(a));
                let mut want: Vec<(String, T)> = prefix_want.clone();
                want.push(("item".into(), T::Aot(els)));
                judge(&mut acc, format!("an array of {} tables (each with a sub-table and a nested array of tables) inserted through the API after the parsed prefix {:?}", n, prefix_text), &doc, T::Tab(want));
            }
        }
    }
    let n = acc.evals;
    rep.absorb("U-api-state", "arrays / arrays of tables of 1-4 elements (built and parsed) with every non-empty set of slots vacated through mutable indexing (+ make_value afterwards); values carrying decor from a previous life x the 4 entry points of Array documented to apply default formatting (push, insert at both ends, replace) x 3 start arrays; wide documents (0-48 tables / array-of-tables elements with sub-tables inserted through the API, with and without parsed out-of-order headers before them)", n, true, t0, acc);
}

pub fn c06(tier: Tier) -> i32 {
    let mut rep = Report::new(
        "C06",
        tier,
        "model_checking",
        "every tree shape with <= s nodes over {leaf, array, inline table, table, array of tables} is built through five construction routes (insert; entry().or_insert + value()/table() + get_or_insert; index assignment + From/FromIterator; build-as-inline-then-into_table / into_array_of_tables; insert_formatted) and as toml::Table; keys from 14 adversarial keys and leaves from ~240 adversarial leaves (incl. every pair of byte-class representatives) with <= d positions deviating from the defaults; printed text must be valid (specification model) and accepted by the parser, decode to the built tree (order among values and among tables), be a fixed point and print identically twice (differences between construction routes are tallied, not demanded away); non-trivial = every distinct tree",
    );
    rep.assumptions = vec![
        "TOML puts a table's own values before its sub-tables, so key order is compared separately among value entries and among table / array-of-tables entries; NaN payloads have no spelling: NaNs compare by sign only".into(),
    ];
    // (shape size, deviating positions, leaf alphabet) per pass; nothing is materialised: shapes are the parallel
    // work items and the deviation sets are enumerated inside each
    let ks = keys10();
    let ls_full = leaves();
    // the reduced leaf alphabet for position PAIRS: everything except the byte-class pair strings
    let ls_small: Vec<Leaf> = ls_full.iter().filter(|l| !matches!(l, Leaf::S(s) if s.chars().count() == 2 && !["é😀", "{}", "\r\n"].contains(&s.as_str()))).cloned().collect();
    let passes: Vec<(usize, usize, &Vec<Leaf>, &str)> = match tier {
        Tier::Quick => vec![(4, 1, &ls_full, "full")],
        Tier::Thorough => vec![(5, 1, &ls_full, "full"), (4, 2, &ls_small, "reduced (no byte-class pair strings)")],
    };
    use rayon::prelude::*;
    for (s, d, ls, lsname) in passes {
        let t0 = std::time::Instant::now();
        let shapes = root_shapes(s);
        let run_one = |t: &T, devs: &[(bool, usize, usize)], acc: &mut Acc| {
            let mut t = t.clone();
            for (is_key, pos, alt) in devs {
                let mut idx = 0;
                if *is_key {
                    set_key(&mut t, &mut idx, *pos, &ks[*alt]);
                } else {
                    set_leaf(&mut t, &mut idx, *pos, &ls[*alt]);
                }
            }
            acc.evals += 1;
            check_tree(&t, acc);
        };
        let acc = shapes
            .par_iter()
            .fold(Acc::default, |mut acc, sh| {
                let (mut nk, mut nl) = (0, 0);
                count_positions(sh, &mut nk, &mut nl);
                run_one(sh, &[], &mut acc);
                let mut singles: Vec<(bool, usize, usize)> = Vec::new();
                for p in 0..nk {
                    for a in 0..ks.len() {
                        singles.push((true, p, a));
                    }
                }
                for p in 0..nl {
                    for a in 0..ls.len() {
                        singles.push((false, p, a));
                    }
                }
                for x in &singles {
                    run_one(sh, &[*x], &mut acc);
                }
                if d >= 2 {
                    for (i, x) in singles.iter().enumerate() {
                        for y in &singles[i + 1..] {
                            if (x.0, x.1) != (y.0, y.1) {
                                run_one(sh, &[*x, *y], &mut acc);
                            }
                        }
                    }
                }
                acc
            })
            .reduce(Acc::default, Acc::merge);
        let n = acc.evals;
        rep.absorb("U-tree", &format!("{} shapes with <= {} nodes x every assignment with <= {} deviating positions over 10 keys / {} leaves ({}) x 5 construction routes + toml::Table", shapes.len(), s, d, ls.len(), lsname), n, true, t0, acc);
    }
    // nesting chains: every sequence of <= 6 container kinds around one leaf (the formatters decide per level whether an
    // inline table may be promoted to a [table]; a wrong decision only shows some levels down)
    {
        let t0 = std::time::Instant::now();
        let depth = tier.pick(5, 7);
        // 0: array with a scalar sibling, 1: single-element array, 2: inline table, 3: table (only while still at table level)
        let mut chains: Vec<Vec<u8>> = vec![vec![]];
        let mut all: Vec<Vec<u8>> = Vec::new();
        for _ in 0..depth {
            let mut next = Vec::new();
            for c in &chains {
                for k in 0..4u8 {
                    if k == 3 && c.iter().any(|x| *x != 3) {
                        continue;
                    }
                    let mut d = c.clone();
                    d.push(k);
                    next.push(d);
                }
            }
            all.extend(next.iter().cloned());
            chains = next;
        }
        fn build(chain: &[u8]) -> T {
            match chain.first() {
                None => T::Leaf(Leaf::I(1)),
                Some(0) => T::Arr(vec![T::Leaf(Leaf::S("s".into())), build(&chain[1..])]),
                Some(1) => T::Arr(vec![build(&chain[1..])]),
                Some(2) => T::Inl(vec![("a".to_string(), build(&chain[1..])), ("z".to_string(), T::Leaf(Leaf::I(2)))]),
                _ => T::Tab(vec![("y".to_string(), T::Leaf(Leaf::I(3))), ("t".to_string(), build(&chain[1..]))]),
            }
        }
        let acc = all
            .par_iter()
            .fold(Acc::default, |mut acc, c| {
                let root = T::Tab(vec![("x".to_string(), build(c)), ("w".to_string(), T::Leaf(Leaf::B(true)))]);
                acc.evals += 1;
                check_tree(&root, &mut acc);
                acc
            })
            .reduce(Acc::default, Acc::merge);
        rep.absorb("U-chain", &format!("every chain of <= {} nested containers (mixed array, array, inline table, table) around one leaf", depth), all.len() as u64, true, t0, acc);
    }
    // every scalar value as a key and as a string leaf (alone, before a quotation mark, before a backslash), in every
    // kind of container, through every construction route
    {
        let t0 = std::time::Instant::now();
        let top = tier.pick(0xFFFFu32, 0x10FFFF);
        let chars: Vec<char> = (0..=top).filter_map(char::from_u32).collect();
        let acc = chars
            .par_iter()
            .fold(Acc::default, |mut acc, c| {
                let k = c.to_string();
                let s = |x: &str| T::Leaf(Leaf::S(x.to_string()));
                let root = T::Tab(vec![
                    (k.clone(), s(&k)),
                    ("qq".to_string(), T::Arr(vec![s(&format!("{}\"", c)), s(&format!("{}\\", c))])),
                    ("ii".to_string(), T::Inl(vec![(k.clone(), s(&k))])),
                    ("tt".to_string(), T::Tab(vec![(k.clone(), T::Arr(vec![s(&k)]))])),
                    ("uu".to_string(), T::Aot(vec![vec![(k.clone(), s(&k))]])),
                ]);
                acc.evals += 1;
                check_tree(&root, &mut acc);
                acc
            })
            .reduce(Acc::default, Acc::merge);
        rep.absorb("U-char", &format!("every scalar value up to U+{:X} as a key and as a string leaf (alone, before a quotation mark, before a backslash) in a table, array, inline table, sub-table and array of tables", top), chars.len() as u64, true, t0, acc);
    }
    api_state_family(&mut rep);
    rep.finish()
}

pub fn replay(path: &str) -> i32 {
    let j = read_replay(path);
    println!("tree  : {}", j["input"].as_str().unwrap_or(""));
    println!("detail: {}", j["detail"].as_str().unwrap_or(""));
    println!("replay: trees are regenerated by the enumeration; re-run ./run.sh C06 quick");
    2
}
