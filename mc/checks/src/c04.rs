//! C04 — no input makes the library panic, abort, read out of bounds or hang.
//!
//! Built in profile `mc` (release + debug assertions + overflow checks), so the checked branch of
//! `from_utf8_unchecked`, every `debug_assert!` and arithmetic overflow are live.

use crate::common::*;
use crate::docu;
use crate::universe::T24;
use serde::de::IntoDeserializer;
use std::io::{BufRead, Write};
use std::sync::atomic::{AtomicU64, Ordering};
use std::sync::Mutex;
use std::time::{Duration, Instant, SystemTime, UNIX_EPOCH};

/// everything a caller can do with one input; returns how many results were produced (for the vacuity count)
pub fn exercise(bytes: &[u8]) -> usize {
    let mut produced = 0usize;
    // byte entry point
    match toml_edit::de::from_slice::<toml::Value>(bytes) {
        Ok(v) => {
            produced += 1;
            use_toml_value(&v);
        }
        Err(e) => use_err(&e.to_string(), &format!("{:?}", e)),
    }
    let Ok(text) = std::str::from_utf8(bytes) else { return produced };
    // documents
    match text.parse::<toml_edit::DocumentMut>() {
        Ok(d) => {
            produced += 1;
            let s = d.to_string();
            let _ = format!("{:?}", d);
            let c = d.clone();
            drop(d);
            let _ = c.to_string() == s;
            // turn it back into text and parse again
            let _ = s.parse::<toml_edit::DocumentMut>().map(|d2| d2.to_string());
            // deserialize it
            let r: Result<toml::Value, _> = toml_edit::de::from_document(c);
            if let Ok(v) = r {
                use_toml_value(&v);
            }
        }
        Err(e) => {
            use_err(&e.to_string(), &format!("{:?}", e));
            let _ = (e.message().len(), e.span());
        }
    }
    match toml_edit::ImDocument::parse(text) {
        Ok(im) => {
            produced += 1;
            let _ = format!("{:?}", im);
            let _ = im.as_table().iter().count();
            let _ = im.trailing().as_str();
            // printing the parts of an immutable document (their text still lives in the source buffer)
            let _ = im.to_string();
            let _ = im.as_item().to_string();
            for (k, item) in im.as_table().iter() {
                let _ = (k.len(), item.to_string(), format!("{:?}", item).len());
                if let Some(t) = item.as_table_like() {
                    for (_, x) in t.iter() {
                        let _ = x.to_string();
                    }
                }
                if let Some(a) = item.as_array() {
                    let _ = a.to_string();
                    for v in a.iter() {
                        let _ = v.to_string();
                    }
                }
                if let Some(a) = item.as_array_of_tables() {
                    let _ = a.to_string();
                }
            }
            let c = im.clone();
            let m = im.into_mut();
            let _ = m.to_string();
            let de = toml_edit::de::Deserializer::from(c);
            let r: Result<toml::Table, _> = serde::Deserialize::deserialize(de);
            if let Ok(t) = r {
                let _ = t.to_string();
            }
        }
        Err(e) => use_err(&e.to_string(), &format!("{:?}", e)),
    }
    // serde front ends
    match toml::from_str::<toml::Value>(text) {
        Ok(v) => {
            produced += 1;
            use_toml_value(&v)
        }
        Err(e) => {
            use_err(&e.to_string(), &format!("{:?}", e));
            let _ = (e.message().len(), e.span());
        }
    }
    match toml::from_str::<toml::Table>(text) {
        Ok(t) => {
            produced += 1;
            let _ = t.to_string();
            let _ = format!("{:?}", t);
            let _ = toml::to_string_pretty(&t);
        }
        Err(e) => use_err(&e.to_string(), &format!("{:?}", e)),
    }
    match toml_edit::de::from_str::<toml::Value>(text) {
        Ok(v) => {
            produced += 1;
            use_toml_value(&v)
        }
        Err(e) => use_err(&e.to_string(), &format!("{:?}", e)),
    }
    // values and keys
    match text.parse::<toml_edit::Value>() {
        Ok(v) => {
            produced += 1;
            let _ = v.to_string();
            let _ = format!("{:?}", v);
            let c = v.clone();
            let _ = (c.span(), c.type_name());
            let r: Result<toml::Value, _> = serde::Deserialize::deserialize(c.into_deserializer());
            if let Ok(tv) = r {
                use_toml_value(&tv);
            }
        }
        Err(e) => use_err(&e.to_string(), &format!("{:?}", e)),
    }
    match text.parse::<toml_edit::de::ValueDeserializer>() {
        Ok(d) => {
            produced += 1;
            let r: Result<toml::Value, _> = serde::Deserialize::deserialize(d);
            if let Ok(tv) = r {
                use_toml_value(&tv);
            }
        }
        Err(e) => use_err(&e.to_string(), &format!("{:?}", e)),
    }
    {
        let r: Result<toml::Value, _> = serde::Deserialize::deserialize(toml::de::ValueDeserializer::new(text));
        match r {
            Ok(tv) => {
                produced += 1;
                use_toml_value(&tv);
            }
            Err(e) => use_err(&e.to_string(), &format!("{:?}", e)),
        }
        let r: Result<toml::Table, _> = serde::Deserialize::deserialize(toml::de::Deserializer::new(text));
        if let Err(e) = r {
            use_err(&e.to_string(), &format!("{:?}", e));
        }
    }
    match text.parse::<toml_edit::Key>() {
        Ok(k) => {
            produced += 1;
            let _ = k.to_string();
            let _ = format!("{:?}", k);
            let _ = (k.get().len(), k.clone().display_repr().len());
        }
        Err(e) => use_err(&e.to_string(), &format!("{:?}", e)),
    }
    match toml_edit::Key::parse(text) {
        Ok(ks) => {
            produced += 1;
            for k in &ks {
                let _ = k.to_string();
            }
            let _ = format!("{:?}", ks);
        }
        Err(e) => use_err(&e.to_string(), &format!("{:?}", e)),
    }
    match text.parse::<toml_datetime::Datetime>() {
        Ok(d) => {
            produced += 1;
            let s = d.to_string();
            let _ = format!("{:?}", d);
            let _ = s.parse::<toml_datetime::Datetime>();
        }
        Err(e) => use_err(&e.to_string(), &format!("{:?}", e)),
    }
    produced
}

fn use_toml_value(v: &toml::Value) {
    let s = v.to_string();
    let _ = format!("{:?}", v);
    let c = v.clone();
    let _ = c == *v;
    if let toml::Value::Table(t) = v {
        let _ = toml::to_string(t);
        let _ = toml::to_string_pretty(t);
        let _ = toml_edit::ser::to_document(t).map(|d| d.to_string());
    }
    let _ = s.len();
    let _ = c.try_into::<toml::Table>();
}

fn use_err(display: &str, debug: &str) {
    let _ = (display.len(), debug.len());
}

// ---- watchdog: a case that runs longer than the budget is a hang verdict, not a machinery crash

static SLOTS: [AtomicU64; 64] = [const { AtomicU64::new(0) }; 64];
static SLOT_INPUT: Mutex<Vec<(usize, Vec<u8>)>> = Mutex::new(Vec::new());
const HANG_SECS: u64 = 30;

fn now_ms() -> u64 {
    SystemTime::now().duration_since(UNIX_EPOCH).unwrap().as_millis() as u64
}

fn slot() -> usize {
    rayon::current_thread_index().unwrap_or(63).min(63)
}

fn start_watchdog(prop: &'static str) {
    std::thread::spawn(move || loop {
        std::thread::sleep(Duration::from_millis(500));
        let now = now_ms();
        for (i, s) in SLOTS.iter().enumerate() {
            let t = s.load(Ordering::Relaxed);
            if t != 0 && now.saturating_sub(t) > HANG_SECS * 1000 {
                let input = SLOT_INPUT.lock().unwrap().iter().find(|(k, _)| *k == i).map(|(_, b)| b.clone()).unwrap_or_default();
                let dir = format!("{}/replays/{}", verif_dir(), prop);
                let _ = std::fs::create_dir_all(&dir);
                let path = format!("{}/hang.json", dir);
                let j = serde_json::json!({"property": prop, "universe": "watchdog", "input": crate::c_docs::show(&input), "class": null, "detail": format!("no result after {} s", HANG_SECS)});
                let _ = std::fs::write(&path, serde_json::to_string_pretty(&j).unwrap());
                println!("VIOLATION property={} replay={}", prop, path);
                let _ = std::io::stdout().flush();
                std::process::exit(1);
            }
        }
    });
}

/// wall time is noisy on a loaded machine (a descheduled thread can lose hundreds of milliseconds): an input only
/// counts as over budget if it is over budget on EVERY one of five further measurements
fn remeasure(bytes: &[u8]) -> Duration {
    let mut best = Duration::from_secs(3600);
    for _ in 0..5 {
        let t0 = Instant::now();
        let _ = guarded(|| exercise(bytes));
        best = best.min(t0.elapsed());
    }
    best
}

pub fn c04_eval(bytes: &[u8], uni: &'static str, acc: &mut Acc) {
    let sl = slot();
    if bytes.len() > 64 {
        // only long inputs can plausibly hang; short ones are bounded by construction of the budget below
        let mut g = SLOT_INPUT.lock().unwrap();
        g.retain(|(k, _)| *k != sl);
        g.push((sl, bytes.to_vec()));
    }
    SLOTS[sl].store(now_ms(), Ordering::Relaxed);
    let t0 = Instant::now();
    let r = guarded(|| exercise(bytes));
    let dt = t0.elapsed();
    SLOTS[sl].store(0, Ordering::Relaxed);
    match r {
        Ok(n) => {
            if n > 0 {
                acc.bump("some-entry-point-accepted");
                acc.nontrivial(bytes);
                acc.sample(|| crate::c_docs::show(bytes));
            } else {
                acc.bump("all-entry-points-rejected");
                if bytes.len() >= 3 {
                    acc.nontrivial(bytes);
                }
            }
            // linear budget: 50 us per byte (measured ~0.03-0.3 us per byte per entry point), floor 50 ms
            let budget = Duration::from_micros(50 * bytes.len() as u64).max(Duration::from_millis(250));
            if dt > budget && remeasure(bytes) > budget {
                acc.viol(uni, crate::c_docs::show(bytes), Some("over-linear-budget"), format!("{} bytes took {:?} (budget {:?})", bytes.len(), dt, budget));
            }
        }
        Err(p) => {
            acc.panics += 1;
            acc.viol(uni, crate::c_docs::show(bytes), None, format!("panic: {}", p));
        }
    }
}


// ---- release differential and memcheck: the same inputs in the build users ship (no debug assertions, wrapping
// arithmetic: profile `mcrel`) must give the same observable outcomes as in the checked build, and run clean under
// valgrind's memcheck (out-of-bounds reads that neither panic nor crash)

/// every observable outcome of one input, as text
pub fn outcomes(bytes: &[u8]) -> String {
    use std::fmt::Write as _;
    let mut o = String::new();
    let r = guarded(|| {
        let mut o = String::new();
        match toml_edit::de::from_slice::<toml::Value>(bytes) {
            Ok(v) => {
                let _ = write!(o, "slice:OK:{}|", v);
            }
            Err(e) => {
                let _ = write!(o, "slice:ERR:{}:{:?}|", e.message(), e.span());
            }
        }
        let Ok(text) = std::str::from_utf8(bytes) else { return o };
        match text.parse::<toml_edit::DocumentMut>() {
            Ok(d) => {
                let _ = write!(o, "doc:OK:{}:{:?}|", d, d);
            }
            Err(e) => {
                let _ = write!(o, "doc:ERR:{}:{:?}:{}|", e.message(), e.span(), e);
            }
        }
        match toml::from_str::<toml::Table>(text) {
            Ok(t) => {
                let _ = write!(o, "table:OK:{}:{:?}|", t, t);
            }
            Err(e) => {
                let _ = write!(o, "table:ERR:{}:{:?}|", e.message(), e.span());
            }
        }
        match text.parse::<toml_edit::Value>() {
            Ok(v) => {
                let _ = write!(o, "value:OK:{}:{:?}|", v, v);
            }
            Err(e) => {
                let _ = write!(o, "value:ERR:{}:{:?}|", e.message(), e.span());
            }
        }
        match text.parse::<toml_edit::Key>() {
            Ok(k) => {
                let _ = write!(o, "key:OK:{}:{:?}|", k, k.get());
            }
            Err(e) => {
                let _ = write!(o, "key:ERR:{}:{:?}|", e.message(), e.span());
            }
        }
        match toml_edit::Key::parse(text) {
            Ok(ks) => {
                let _ = write!(o, "keys:OK:{:?}|", ks.iter().map(|k| k.get().to_string()).collect::<Vec<_>>());
            }
            Err(e) => {
                let _ = write!(o, "keys:ERR:{}:{:?}|", e.message(), e.span());
            }
        }
        match text.parse::<toml_datetime::Datetime>() {
            Ok(d) => {
                let _ = write!(o, "dt:OK:{}|", d);
            }
            Err(e) => {
                let _ = write!(o, "dt:ERR:{}|", e);
            }
        }
        o
    });
    match r {
        Ok(x) => o.push_str(&x),
        Err(p) => {
            let _ = write!(o, "PANIC:{}", p.lines().next().unwrap_or(""));
        }
    }
    o
}

const DIFF_UNIVERSES: [&str; 11] = ["byte", "tok-small", "ctx", "esc", "num", "edge", "dt", "raw", "utf8", "vtok", "stmt-small"];
static DIFF_SUM: AtomicU64 = AtomicU64::new(0);
static DIFF_DUMP: Mutex<Option<std::fs::File>> = Mutex::new(None);

fn diff_eval(bytes: &[u8], _uni: &'static str, acc: &mut Acc) {
    let o = outcomes(bytes);
    let mut h = hash64(bytes);
    h = h.rotate_left(17) ^ hash64(o.as_bytes());
    // order-independent: the enumeration is parallel
    DIFF_SUM.fetch_add(h.wrapping_mul(0x9E3779B97F4A7C15) | 1, Ordering::Relaxed);
    if let Some(f) = DIFF_DUMP.lock().unwrap().as_mut() {
        let hex: String = bytes.iter().map(|b| format!("{:02x}", b)).collect();
        let _ = writeln!(f, "{} {:016x} {}", hex, hash64(o.as_bytes()), o.replace('\n', "\\n").chars().take(400).collect::<String>());
    }
    acc.bump("outcome-recorded");
}

/// child: `mc C04-digest-worker <tier> [dump <universe> <file>]`
pub fn digest_worker(tier: Tier, dump: Option<(String, String)>) -> i32 {
    std::panic::set_hook(Box::new(|_| {}));
    for u in DIFF_UNIVERSES {
        if let Some((du, file)) = &dump {
            if du != u {
                continue;
            }
            *DIFF_DUMP.lock().unwrap() = Some(std::fs::File::create(file).expect("dump file"));
        }
        DIFF_SUM.store(0, Ordering::Relaxed);
        println!("BEGIN {}", u);
        let _ = std::io::stdout().flush();
        let mut rep = Report::new("C04", tier, "exploration", "worker");
        docu::run(&mut rep, tier, &[u], &diff_eval);
        let n: u64 = rep.universes.iter().map(|x| x.size).sum();
        println!("SUM {} {} {:016x}", u, n, DIFF_SUM.load(Ordering::Relaxed));
    }
    0
}

fn run_digest(exe: &std::path::Path, tier: Tier, dump: Option<(&str, &str)>) -> Result<Vec<(String, u64, String)>, String> {
    let mut cmd = std::process::Command::new(exe);
    cmd.args(["C04-digest-worker", tier.name()]);
    if let Some((u, f)) = dump {
        cmd.args(["dump", u, f]);
    }
    let out = cmd.output().map_err(|e| format!("cannot run {}: {}", exe.display(), e))?;
    let mut v = Vec::new();
    if !out.status.success() {
        // the worker guards every library call against panics: dying anyway (signal, abort, stack exhaustion) is a
        // result of that build, reported as such by the caller
        let so = String::from_utf8_lossy(&out.stdout);
        let at = so.lines().filter_map(|l| l.strip_prefix("BEGIN ")).last().unwrap_or("?").to_string();
        v.push((format!("DIED in universe {} with {:?}", at, out.status), 0, String::new()));
        return Ok(v);
    }
    for l in String::from_utf8_lossy(&out.stdout).lines() {
        if let Some(r) = l.strip_prefix("SUM ") {
            let p: Vec<&str> = r.split(' ').collect();
            if p.len() == 3 {
                v.push((p[0].to_string(), p[1].parse().unwrap_or(0), p[2].to_string()));
            }
        }
    }
    Ok(v)
}

fn release_differential(rep: &mut Report, tier: Tier, exe: &std::path::Path, rel: &std::path::Path) -> Result<(), String> {
    let t0 = Instant::now();
    let a = run_digest(exe, tier, None)?;
    let b = run_digest(rel, tier, None)?;
    for (which, r) in [("checked", &a), ("release (no debug assertions)", &b)] {
        if let Some(d) = r.iter().find(|x| x.0.starts_with("DIED")) {
            let mut acc = Acc::default();
            acc.evals = 1;
            acc.nontrivial(d.0.as_bytes());
            acc.sample(|| d.0.clone());
            acc.viol("U-release", format!("{} build: worker process {}", which, d.0), None, format!("the {} build of the library crashed the worker process (every call is guarded against panics, so this is a signal / abort): {}", which, d.0));
            rep.absorb("U-release", "universes re-run in the build users ship", 1, true, t0, acc);
            return Ok(());
        }
    }
    if a.len() != DIFF_UNIVERSES.len() || b.len() != a.len() {
        return Err(format!("digest workers reported {} / {} universes instead of {}", a.len(), b.len(), DIFF_UNIVERSES.len()));
    }
    let mut acc = Acc::default();
    let mut total = 0u64;
    for (x, y) in a.iter().zip(b.iter()) {
        total += x.1;
        acc.evals += x.1;
        acc.nontrivial_overflow += x.1;
        if x.1 != y.1 {
            return Err(format!("universe {} has {} cases in one build and {} in the other", x.0, x.1, y.1));
        }
        if x.2 == y.2 {
            acc.bump("universe-digests-agree");
            acc.sample(|| format!("{}: {} cases, digest {} in both builds", x.0, x.1, x.2));
            continue;
        }
        // locate the differing inputs
        let dir = format!("{}/mc/target/diff", verif_dir());
        let _ = std::fs::create_dir_all(&dir);
        let (fa, fb) = (format!("{}/{}.checked", dir, x.0), format!("{}/{}.release", dir, x.0));
        run_digest(exe, tier, Some((&x.0, &fa)))?;
        run_digest(rel, tier, Some((&x.0, &fb)))?;
        let load = |f: &str| -> std::collections::BTreeMap<String, String> {
            std::fs::read_to_string(f).unwrap_or_default().lines().filter_map(|l| l.split_once(' ').map(|(k, v)| (k.to_string(), v.to_string()))).collect()
        };
        let (ma, mb) = (load(&fa), load(&fb));
        let mut shown = 0;
        for (k, va) in &ma {
            let vb = mb.get(k).cloned().unwrap_or_default();
            if *va != vb {
                let bytes: Vec<u8> = (0..k.len() / 2).filter_map(|i| u8::from_str_radix(&k[2 * i..2 * i + 2], 16).ok()).collect();
                acc.viol("U-release", crate::c_docs::show(&bytes), None, format!("the build without debug assertions / overflow checks behaves differently from the checked build: checked = {} ; release = {}", va.chars().take(300).collect::<String>(), vb.chars().take(300).collect::<String>()));
                shown += 1;
                if shown >= 50 {
                    break;
                }
            }
        }
        if shown == 0 {
            acc.viol("U-release", format!("universe {}", x.0), None, "digests differ between the checked and the release build but no single differing input was located".into());
        }
        let _ = std::fs::remove_file(&fa);
        let _ = std::fs::remove_file(&fb);
    }
    rep.absorb("U-release", &format!("{} universes re-run in the build users ship (profile mcrel: no debug assertions, no overflow checks); outcomes (verdict, printed text, Debug text, error message and span of 7 entry points) compared with the checked build", DIFF_UNIVERSES.len()), total, true, t0, acc);
    Ok(())
}

const MEM_VALUES: [u8; 13] = [0u8, 0x0a, 0x0d, 0x22, 0x27, 0x5c, 0x7f, 0x80, 0xbf, 0xc3, 0xe2, 0xf0, 0xff];

/// child: `mc C04-mem-worker <tier> <shard> <nshards>` - single-threaded, meant to run under valgrind
pub fn mem_worker(tier: Tier, shard: usize, nshards: usize) -> i32 {
    let values: Vec<u8> = match tier {
        Tier::Quick => MEM_VALUES.to_vec(),
        Tier::Thorough => (0..=255u8).collect(),
    };
    std::panic::set_hook(Box::new(|_| {}));
    let mut n = 0usize;
    let mut i = 0usize;
    for f in docu::BYTE_FRAMES {
        let fb = f.as_bytes();
        for pos in 0..=fb.len() {
            for &v in &values {
                i += 1;
                if i % nshards != shard {
                    continue;
                }
                let mut c = fb[..pos].to_vec();
                c.push(v);
                c.extend_from_slice(&fb[pos..]);
                n += guarded(|| exercise(&c)).unwrap_or(0);
                if pos < fb.len() {
                    let mut c = fb.to_vec();
                    c[pos] = v;
                    n += guarded(|| exercise(&c)).unwrap_or(0);
                }
            }
            i += 1;
            if i % nshards == shard {
                n += guarded(|| exercise(&fb[..pos])).unwrap_or(0);
            }
        }
    }
    println!("MEM-DONE {}", n);
    0
}

fn memcheck(rep: &mut Report, tier: Tier, rel: &std::path::Path) -> Result<(), String> {
    let nvalues = tier.pick(MEM_VALUES.len() as u64, 256);
    let t0 = Instant::now();
    let nshards = 16usize;
    use rayon::prelude::*;
    let results: Vec<Result<(i32, String), String>> = (0..nshards)
        .into_par_iter()
        .map(|sh| {
            let out = std::process::Command::new("valgrind")
                .args(["--quiet", "--error-exitcode=9", "--errors-for-leak-kinds=none", "--leak-check=no"])
                .arg(rel)
                .args(["C04-mem-worker", tier.name(), &sh.to_string(), &nshards.to_string()])
                .output()
                .map_err(|e| format!("cannot run valgrind: {}", e))?;
            let so = String::from_utf8_lossy(&out.stdout).to_string();
            let se = String::from_utf8_lossy(&out.stderr).to_string();
            Ok((out.status.code().unwrap_or(-1), format!("{}\n{}", so, se)))
        })
        .collect();
    let mut acc = Acc::default();
    let mut cases = 0u64;
    for f in docu::BYTE_FRAMES {
        cases += (f.len() as u64 + 1) * nvalues * 2 + f.len() as u64 + 1;
    }
    acc.evals = cases;
    acc.nontrivial_overflow = cases;
    for (sh, r) in results.into_iter().enumerate() {
        let (code, log) = r?;
        if code == 0 && log.contains("MEM-DONE") {
            acc.bump("memcheck-shard-clean");
            acc.sample(|| format!("shard {}: {}", sh, log.lines().find(|l| l.starts_with("MEM-DONE")).unwrap_or("")));
        } else if code == 9 || log.contains("Invalid read") || log.contains("Invalid write") || log.contains("uninitialised") {
            acc.viol("U-memcheck", format!("memcheck shard {} of {}", sh, nshards), None, format!("valgrind reports a memory error in the release build: {}", log.lines().filter(|l| l.starts_with("==")).take(14).collect::<Vec<_>>().join(" / ")));
        } else {
            return Err(format!("memcheck shard {} ended with code {} without a verdict: {}", sh, code, log.lines().rev().take(3).collect::<Vec<_>>().join(" | ")));
        }
    }
    rep.absorb("U-memcheck", &format!("40 seed frames x every position x {} byte values (insert, substitute) + truncations, all 12 entry points, single-threaded under valgrind memcheck in the release build (16 shards)", nvalues), cases, true, t0, acc);
    Ok(())
}


// ---- typed targets: "deserialize it" is not only `toml::Value`; every text is also decoded into a family of Rust
// types through the text route, the toml_edit route and the Value route.  Whether that succeeds is irrelevant here;
// it must return.

#[derive(serde::Deserialize)]
#[allow(dead_code)]
struct TA<X> {
    #[serde(default = "none")]
    a: Option<X>,
    #[serde(default = "none")]
    b: Option<X>,
    #[serde(default = "none")]
    k: Option<X>,
    #[serde(default = "none")]
    t: Option<X>,
}
fn none<X>() -> Option<X> {
    None
}
#[derive(serde::Deserialize)]
#[allow(dead_code)]
struct TR<X> {
    k: X,
}
#[derive(serde::Deserialize)]
#[allow(dead_code)]
enum TE {
    Unit,
    New(toml_datetime::Datetime),
    Tup(i64, String),
    Str { a: Option<toml_datetime::Datetime> },
}
#[derive(serde::Deserialize)]
#[allow(dead_code)]
struct TUnit;
#[derive(serde::Deserialize)]
#[allow(dead_code)]
struct TNewt(toml_datetime::Datetime);
#[derive(serde::Deserialize)]
#[allow(dead_code)]
struct TTup(toml_datetime::Date, toml_datetime::Time);

macro_rules! typed_routes {
    ($text:expr, $n:ident, $($x:ty),+ $(,)?) => {{
        $(
            $n += toml::from_str::<TA<$x>>($text).is_ok() as usize;
            $n += toml_edit::de::from_str::<TR<$x>>($text).is_ok() as usize;
            if let Ok(v) = toml::from_str::<toml::Value>($text) {
                $n += v.try_into::<TA<$x>>().is_ok() as usize;
            }
        )+
    }};
}

pub fn typed_exercise(bytes: &[u8]) -> usize {
    let Ok(text) = std::str::from_utf8(bytes) else { return 0 };
    if text.parse::<toml_edit::DocumentMut>().is_err() {
        return 0;
    }
    let mut n = 0usize;
    typed_routes!(
        text,
        n,
        i8,
        u64,
        f32,
        bool,
        char,
        String,
        toml_datetime::Datetime,
        toml_datetime::Date,
        toml_datetime::Time,
        Vec<toml_datetime::Datetime>,
        Vec<Option<i64>>,
        (i64, String),
        [toml_datetime::Date; 2],
        std::collections::BTreeMap<String, toml_datetime::Datetime>,
        std::collections::BTreeMap<String, Vec<TTup>>,
        TE,
        Vec<TE>,
        TUnit,
        TNewt,
        TTup,
        (),
        serde_spanned::Spanned<toml_datetime::Datetime>,
        serde_spanned::Spanned<Vec<serde_spanned::Spanned<toml_datetime::Time>>>,
        Box<TR<toml_datetime::Datetime>>,
        serde::de::IgnoredAny,
        toml::Value,
    );
    n
}

/// every shape a value can have, under the key the typed targets look at
fn typed_shape_docs() -> Vec<String> {
    let lits = ["{}", "[]", "[{}]", "[[]]", "[[], {}]", "{a = {}}", "{k = {}}", "1", "-1", "1.5", "nan", "true", "\"s\"", "\"\"", "'c'", "1979-05-27", "07:32:00", "1979-05-27T07:32:00", "1979-05-27T07:32:00.5Z", "[1979-05-27, {}]", "[1979-05-27, 07:32:00]", "{\"$__toml_private_datetime\" = \"x\"}", "{\"$__toml_private_datetime\" = \"07:32:00Z\"}", "{\"$__toml_private_datetime\" = \"07:32:00+01:00\"}", "{\"$__toml_private_datetime\" = \"1979-05-27Z\"}", "{\"$__toml_private_datetime\" = \"1979-05-27T07:32:00\"}", "{\"$__toml_private_datetime\" = \"07:32:00\"}", "{\"$__toml_private_datetime\" = 1}", "{\"$__toml_private_datetime\" = \"1979-05-27\", a = 1}", "\"Unit\"", "{New = {}}", "{New = 1979-05-27}", "{Tup = []}", "{Tup = [1]}", "{Str = {}}", "{Str = {a = {}}}", "{Unit = 1}", "{}"];
    let mut out = Vec::new();
    for l in lits {
        out.push(format!("k = {}\n", l));
        out.push(format!("k = [{}]\n", l));
        out.push(format!("k = [{}, {}]\n", l, l));
        out.push(format!("k = {{ a = {} }}\n", l));
        out.push(format!("a = {}\nb = {}\n", l, l));
        out.push(format!("[k]\na = {}\n", l));
        out.push(format!("[[k]]\na = {}\n[[k]]\n", l));
        out.push(format!("[t]\nk = {}\n[k]\n", l));
    }
    out.push("[k]\n".into());
    out.push("[[k]]\n".into());
    out.push("[[k]]\n[[k]]\n".into());
    out.push("[k.a]\n".into());
    out.push("[[k.a]]\n".into());
    out.push("".into());
    out
}

fn typed_eval(bytes: &[u8], uni: &'static str, acc: &mut Acc) {
    match guarded(|| typed_exercise(bytes)) {
        Ok(n) => {
            if n > 0 {
                acc.bump("typed: some target decoded");
                acc.nontrivial(bytes);
                acc.sample(|| crate::c_docs::show(bytes));
            } else {
                acc.bump("typed: no target decoded");
            }
        }
        Err(p) => {
            acc.panics += 1;
            acc.viol(uni, crate::c_docs::show(bytes), None, format!("panic while deserializing into a typed target: {}", p));
        }
    }
}

fn typed(rep: &mut Report, tier: Tier) {
    let t0 = Instant::now();
    let cases = typed_shape_docs();
    let f = |s: &str, acc: &mut Acc| typed_eval(s.as_bytes(), "U-typed", acc);
    let (total, acc) = crate::universe::sweep_list(&cases, &f);
    rep.absorb("U-typed", "38 value shapes (empty containers, scalars, the four date-time kinds, the private date-time struct spelled by hand, enum payloads) x 8 frames under the keys the targets read, decoded into 26 target types through 3 routes", total, true, t0, acc);
    docu::run(rep, tier, &["tok-small", "stmt-small", "dt", "edge"], &typed_eval);
}

// ---- growth family, each shard in a sacrificial worker process

const GROWTH_FRAMES: [(&str, &str); 8] = [("", ""), ("k=", "\n"), ("k=[", "]"), ("k={a=", "}"), ("[", "]"), ("k=\"\"\"", "\"\"\""), ("k='''", "'''"), ("k=\"", "\"")];

fn growth_cases(tier: Tier) -> Vec<Vec<u8>> {
    let mut units: Vec<String> = T24.iter().map(|s| s.to_string()).collect();
    for a in T24 {
        for b in T24 {
            units.push(format!("{}{}", a, b));
        }
    }
    for extra in ["é", "😀", "\\", "\\\"", "'", "''", "\"\"", "a.", "{a=", "[[", "a={", "1,", "\\u00e9", "\t", "\r", "\u{0}", "[a.", "a]\n[a.", "#\n", "\"'"] {
        units.push(extra.to_string());
    }
    let ks: &[usize] = match tier {
        Tier::Quick => &[64, 255, 256, 257, 1024],
        Tier::Thorough => &[64, 255, 256, 257, 1024, 4096, 16384],
    };
    let mut out = Vec::new();
    // nests whose every layer stays below the recursion limit but whose depths multiply: a dotted key of d segments
    // in front of each of r nested inline tables / arrays / headers (valid documents, closed properly)
    {
        let l = calibrated_limit();
        for d in [2usize, l / 2, l - 2, l - 1] {
            for r in [1usize, 2, 5, 10, 25] {
                let key = vec!["a"; d].join(".");
                out.push(format!("k = {}1{}\n", format!("{{ {} = ", key).repeat(r), " }".repeat(r)).into_bytes());
                out.push(format!("{} = {}1{}\n", key, format!("{{ {} = ", key).repeat(r), " }".repeat(r)).into_bytes());
                out.push(format!("k = {}1{}\n", format!("[{{ {} = ", key).repeat(r), " }]".repeat(r)).into_bytes());
                out.push(format!("[{}]\n{} = {}1{}\n", key, key, format!("{{ {} = ", key).repeat(r), " }".repeat(r)).into_bytes());
                out.push(format!("[[{}]]\n{} = {}[]{}\n", key, key, format!("[{{ {} = ", key).repeat(r), " }]".repeat(r)).into_bytes());
            }
        }
    }
    for (pre, suf) in GROWTH_FRAMES {
        for u in &units {
            for k in ks {
                if u.len() * k > 70_000 {
                    continue;
                }
                let mut s = String::with_capacity(pre.len() + u.len() * k + suf.len());
                s.push_str(pre);
                for _ in 0..*k {
                    s.push_str(u);
                }
                s.push_str(suf);
                out.push(s.into_bytes());
            }
        }
    }
    out
}

/// child: `mc C04-growth-worker <tier> <shard> <nshards>`
pub fn growth_worker(tier: Tier, shard: usize, nshards: usize) -> i32 {
    let cases = growth_cases(tier);
    let out = std::io::stdout();
    for (i, c) in cases.iter().enumerate() {
        if i % nshards != shard {
            continue;
        }
        {
            let mut o = out.lock();
            let _ = writeln!(o, "BEGIN {}", i);
            let _ = o.flush();
        }
        let t0 = Instant::now();
        let r = guarded(|| exercise(c));
        let dt = t0.elapsed();
        let verdict = match r {
            Ok(n) => {
                let budget = Duration::from_micros(50 * c.len() as u64).max(Duration::from_millis(250));
                if dt > budget && remeasure(c) > budget {
                    format!("SLOW {} {}", dt.as_micros(), n)
                } else {
                    format!("OK {} {}", dt.as_micros(), n)
                }
            }
            Err(p) => format!("PANIC {}", p.replace('\n', " ")),
        };
        let mut o = out.lock();
        let _ = writeln!(o, "END {} {}", i, verdict);
        let _ = o.flush();
    }
    0
}

fn growth(rep: &mut Report, tier: Tier) -> Result<(), String> {
    let t0 = Instant::now();
    let cases = growth_cases(tier);
    let nshards = 16usize;
    let exe = std::env::current_exe().map_err(|e| e.to_string())?;
    let mut children = Vec::new();
    for s in 0..nshards {
        let ch = std::process::Command::new(&exe)
            .args(["C04-growth-worker", tier.name(), &s.to_string(), &nshards.to_string()])
            .stdout(std::process::Stdio::piped())
            .stderr(std::process::Stdio::null())
            .spawn()
            .map_err(|e| format!("cannot start worker: {}", e))?;
        children.push(ch);
    }
    let mut acc = Acc::default();
    let deadline = Instant::now() + Duration::from_secs(tier.pick(240, 1800));
    for mut ch in children {
        let stdout = ch.stdout.take().unwrap();
        let reader = std::io::BufReader::new(stdout);
        let mut open: Option<usize> = None;
        for line in reader.lines() {
            let Ok(line) = line else { break };
            let mut it = line.split(' ');
            match it.next() {
                Some("BEGIN") => open = it.next().and_then(|x| x.parse().ok()),
                Some("END") => {
                    let i: usize = it.next().and_then(|x| x.parse().ok()).unwrap_or(0);
                    open = None;
                    acc.evals += 1;
                    let v = it.next().unwrap_or("");
                    let rest: Vec<&str> = it.collect();
                    match v {
                        "OK" => {
                            acc.bump("growth-ok");
                            acc.nontrivial(&cases[i]);
                        }
                        "SLOW" => acc.viol("U-growth", growth_label(&cases[i]), Some("over-linear-budget"), format!("{} bytes took {} us", cases[i].len(), rest.first().unwrap_or(&"?"))),
                        _ => acc.viol("U-growth", growth_label(&cases[i]), None, format!("panic: {}", rest.join(" "))),
                    }
                }
                _ => {}
            }
            if Instant::now() > deadline {
                let _ = ch.kill();
                break;
            }
        }
        let status = ch.wait().map_err(|e| e.to_string())?;
        if let Some(i) = open {
            acc.evals += 1;
            acc.viol("U-growth", growth_label(&cases[i]), None, format!("worker process died or hung inside this case: {:?} (stack exhaustion, abort or no result within the tier's wall budget)", status));
        } else if !status.success() {
            return Err(format!("growth worker failed outside a case: {:?}", status));
        }
    }
    let n = cases.len() as u64;
    let complete = acc.evals == n;
    rep.absorb("U-growth", &format!("{} frames x (T24^<=2 + 20 extra units) repeated k times, k in {:?}; each shard in a sacrificial worker process", GROWTH_FRAMES.len(), match tier { Tier::Quick => vec![64, 255, 256, 257, 1024], Tier::Thorough => vec![64, 255, 256, 257, 1024, 4096, 16384] }), n, complete, t0, acc);
    Ok(())
}

fn growth_label(b: &[u8]) -> String {
    // compact, replayable: the full input can be long
    let s = crate::c_docs::show(b);
    if s.len() <= 120 {
        s
    } else {
        format!("<growth:len={}:hash={:016x}:head={:?}>", b.len(), hash64(b), &s.chars().take(40).collect::<String>())
    }
}

pub fn c04(tier: Tier) -> i32 {
    let mut rep = Report::new(
        "C04",
        tier,
        "exploration",
        "every input of each universe is given to 12 entry points (document, ImDocument, value, key, key path, serde from_str/from_slice into Value and Table, both ValueDeserializers, Datetime::from_str) and everything returned is printed, debug-printed, cloned, dropped, re-parsed, converted with into_mut / into_deserializer and re-serialized; oracle: no panic (debug assertions and overflow checks on), no worker death, wall time within a linear budget; non-trivial = distinct inputs of >= 3 bytes or accepted by some entry point",
    );
    rep.assumptions = vec![
        "the property quantifies over all inputs; what is decided is its bounded instance over the listed universes plus a growth family up to 16-70 KiB".into(),
        "the main enumeration runs in a build with debug assertions and overflow checks (the checked from_utf8 branch, slice indexing and arithmetic turn the reachable faults into panics); the build users ship is covered by the release differential (same outcomes) and, in the thorough tier, by valgrind memcheck over the byte-substitution universe".into(),
    ];
    start_watchdog("C04");
    docu::run(&mut rep, tier, &["byte", "tok-wide", "ctx", "esc", "num", "edge", "dt", "raw", "corpus", "decor", "stmt-small", "cp", "utf8", "bom", "vtok"], &c04_eval);
    typed(&mut rep, tier);
    if let Err(e) = growth(&mut rep, tier) {
        println!("MACHINERY-ERROR {}", e);
        return 2;
    }
    let exe = match std::env::current_exe() {
        Ok(e) => e,
        Err(e) => {
            println!("MACHINERY-ERROR {}", e);
            return 2;
        }
    };
    let rel = std::path::PathBuf::from(exe.to_string_lossy().replace("/target/mc/", "/target/mcrel/"));
    if !rel.exists() {
        println!("MACHINERY-ERROR release build {} is missing (run.sh builds it for C04)", rel.display());
        return 2;
    }
    if let Err(e) = release_differential(&mut rep, tier, &exe, &rel) {
        println!("MACHINERY-ERROR {}", e);
        return 2;
    }
    if let Err(e) = memcheck(&mut rep, tier, &rel) {
        println!("MACHINERY-ERROR {}", e);
        return 2;
    }
    rep.finish()
}

pub fn replay(path: &str) -> i32 {
    let j = read_replay(path);
    let input = j["input"].as_str().unwrap_or("").to_string();
    if input.starts_with("<growth:") {
        println!("replay: long growth-family input; re-run ./run.sh C04 quick (the label carries length and hash)");
        return 2;
    }
    let bytes = crate::c_docs::bytes_of_show(&input);
    let mut acc = Acc::default();
    // run in a child so that an abort is visible as a verdict
    c04_eval(&bytes, "replay", &mut acc);
    println!("input: {:?}", input);
    if acc.viols.is_empty() {
        println!("replay: property holds on this case");
        0
    } else {
        for v in &acc.viols {
            println!("replay: {}", v.detail);
        }
        println!("VIOLATION property=C04 replay={}", path);
        1
    }
}
