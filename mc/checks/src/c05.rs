//! C05 — nesting is bounded so no document can exhaust a 2 MiB stack.
//!
//! Every case runs on a thread with a 2 MiB stack inside a sacrificial worker process, in two builds
//! of this binary: profile `mc` (release + debug assertions) and profile `mcdev` (opt-level 0).

use crate::common::*;
use std::io::{BufRead, Write};
use std::time::Instant;

/// bound on the decoded nesting depth of an accepted document: one header path (< limit) plus one counted nest (< limit)
pub fn k_depth() -> usize {
    2 * calibrated_limit()
}
const STACK: usize = 2 * 1024 * 1024;

#[derive(Clone, Copy, Debug, PartialEq)]
pub enum VKind {
    Array,
    Inline,
    DottedInInline,
    FlatArrays,
    FlatInlines,
}
#[derive(Clone, Copy, Debug, PartialEq)]
pub enum HKind {
    None,
    Std,
    Aot,
}

#[derive(Clone, Debug)]
pub struct Case {
    pub header: (HKind, usize),
    pub dotted: usize,
    pub values: Vec<(VKind, usize)>,
}

impl Case {
    pub fn text(&self) -> String {
        let mut s = String::new();
        let path = |d: usize| vec!["a"; d].join(".");
        match self.header.0 {
            HKind::None => {}
            HKind::Std => {
                s.push('[');
                s.push_str(&path(self.header.1));
                s.push_str("]\n");
            }
            HKind::Aot => {
                s.push_str("[[");
                s.push_str(&path(self.header.1));
                s.push_str("]]\n");
            }
        }
        s.push_str(&path(self.dotted));
        s.push_str(" = ");
        let mut close = Vec::new();
        for (k, d) in &self.values {
            match k {
                VKind::Array => {
                    for _ in 0..*d {
                        s.push('[');
                    }
                    close.push("]".repeat(*d));
                }
                VKind::Inline => {
                    for _ in 0..*d {
                        s.push_str("{a=");
                    }
                    close.push("}".repeat(*d));
                }
                VKind::DottedInInline => {
                    s.push('{');
                    s.push_str(&path(*d));
                    s.push('=');
                    close.push("}".to_string());
                }
                // d EMPTY containers next to each other (no nesting beyond the enclosing array): `[[], [], .. , 1]`
                VKind::FlatArrays => {
                    s.push('[');
                    for _ in 0..*d {
                        s.push_str("[], ");
                    }
                    close.push("]".to_string());
                }
                VKind::FlatInlines => {
                    s.push('[');
                    for _ in 0..*d {
                        s.push_str("{}, ");
                    }
                    close.push("]".to_string());
                }
            }
        }
        s.push('1');
        for c in close.iter().rev() {
            s.push_str(c);
        }
        s.push('\n');
        s
    }
    pub fn label(&self) -> String {
        format!("header={:?}x{} dotted-key x{} values={:?}", self.header.0, self.header.1, self.dotted, self.values)
    }
    /// exactly one construct is nested (all others absent or at depth 1): returns its depth
    pub fn is_flat(&self) -> bool {
        self.values.iter().any(|(k, _)| matches!(k, VKind::FlatArrays | VKind::FlatInlines))
    }
    pub fn single(&self) -> Option<usize> {
        if self.is_flat() {
            return None;
        }
        let mut deep = Vec::new();
        if self.header.0 != HKind::None && self.header.1 > 1 {
            deep.push(self.header.1);
        }
        if self.dotted > 1 {
            deep.push(self.dotted);
        }
        for (_, d) in &self.values {
            if *d > 1 {
                deep.push(*d);
            }
        }
        let extra_levels = self.values.iter().filter(|(_, d)| *d == 1).count() + usize::from(self.header.0 != HKind::None);
        if deep.len() == 1 && extra_levels == 0 {
            Some(deep[0])
        } else if deep.is_empty() && self.values.len() <= 1 && self.header.0 == HKind::None {
            Some(1)
        } else {
            None
        }
    }
}

pub fn cases(tier: Tier) -> Vec<Case> {
    let l = calibrated_limit();
    let ds: Vec<usize> = match tier {
        Tier::Quick => vec![1, 2, l / 2, l - 1, l, 2 * l + 40],
        Tier::Thorough => vec![1, 2, l / 2 - 1, l / 2, l - 2, l - 1, l, l + 1, 2 * l + 40, 3000.max(4 * l)],
    };
    let mut headers = vec![(HKind::None, 0)];
    for d in &ds {
        headers.push((HKind::Std, *d));
        headers.push((HKind::Aot, *d));
    }
    let kinds = [VKind::Array, VKind::Inline, VKind::DottedInInline];
    let mut value_seqs: Vec<Vec<(VKind, usize)>> = vec![vec![]];
    let mut singles = Vec::new();
    for k in kinds {
        for d in &ds {
            singles.push((k, *d));
        }
    }
    for a in &singles {
        value_seqs.push(vec![*a]);
    }
    for a in &singles {
        for b in &singles {
            value_seqs.push(vec![*a, *b]);
        }
    }
    if tier == Tier::Thorough {
        // three layers over a reduced depth set: the alternations that multiply
        let small = [2usize, l / 2, l - 1];
        for a in kinds {
            for b in kinds {
                for c in kinds {
                    for da in small {
                        for db in small {
                            for dc in small {
                                value_seqs.push(vec![(a, da), (b, db), (c, dc)]);
                            }
                        }
                    }
                }
            }
        }
    }
    let mut out = Vec::new();
    for h in &headers {
        for dk in &ds {
            for vs in &value_seqs {
                let c = Case { header: *h, dotted: *dk, values: vs.clone() };
                // size cap: keep documents below 200 KiB (excluded combinations are counted by the caller)
                let est: usize = h.1 * 2 + dk * 2 + vs.iter().map(|(k, d)| if *k == VKind::Inline { d * 4 } else { d * 2 }).sum::<usize>();
                if est <= 200_000 {
                    out.push(c);
                }
            }
        }
    }
    // the ten-fold alternation of DESIGN D4 and its relatives
    for reps in [2usize, 3, 5, 10] {
        for d in [l / 2, l - 1] {
            out.push(Case { header: (HKind::None, 0), dotted: 1, values: vec![(VKind::DottedInInline, d); reps] });
            out.push(Case { header: (HKind::Std, d), dotted: d, values: vec![(VKind::DottedInInline, d); reps] });
        }
    }
    // flat documents: many EMPTY containers side by side, nested at most two deep - a recursion counter that is not
    // given back on some path (an early return between enter and exit) turns them into "too deep"
    for n in [l - 1, l, l + 1, 4 * l] {
        for k in [VKind::FlatArrays, VKind::FlatInlines] {
            out.push(Case { header: (HKind::None, 0), dotted: 1, values: vec![(k, n)] });
            out.push(Case { header: (HKind::Std, 2), dotted: 2, values: vec![(VKind::Array, 1), (k, n)] });
            out.push(Case { header: (HKind::Aot, 1), dotted: 1, values: vec![(VKind::Inline, 1), (k, n)] });
        }
    }
    // depths at which a NARROWER counter wraps around (u8, u16): far beyond the limit, so they must be refused
    for d in [255usize, 256, 257, 65535, 65536, 65537, 65536 + l - 1] {
        out.push(Case { header: (HKind::Std, d), dotted: 1, values: vec![] });
        out.push(Case { header: (HKind::Aot, d), dotted: 1, values: vec![] });
        out.push(Case { header: (HKind::None, 0), dotted: d, values: vec![] });
        out.push(Case { header: (HKind::None, 0), dotted: 1, values: vec![(VKind::DottedInInline, d)] });
        out.push(Case { header: (HKind::None, 0), dotted: 1, values: vec![(VKind::Array, d)] });
    }
    out
}

/// iterative depth of a toml_edit tree (no recursion: the measurement must not be what overflows)
fn depth_of(doc: &toml_edit::DocumentMut) -> usize {
    use toml_edit::{Item, Value};
    enum N<'a> {
        I(&'a Item),
        V(&'a Value),
    }
    let mut max = 0;
    let mut stack: Vec<(N<'_>, usize)> = vec![(N::I(doc.as_item()), 0)];
    while let Some((n, d)) = stack.pop() {
        max = max.max(d);
        match n {
            N::I(Item::Table(t)) => {
                for (_, i) in t.iter() {
                    stack.push((N::I(i), d + 1));
                }
            }
            N::I(Item::ArrayOfTables(a)) => {
                for t in a.iter() {
                    for (_, i) in t.iter() {
                        stack.push((N::I(i), d + 2));
                    }
                }
            }
            N::I(Item::Value(v)) => stack.push((N::V(v), d)),
            N::I(Item::None) => {}
            N::V(Value::Array(a)) => {
                for x in a.iter() {
                    stack.push((N::V(x), d + 1));
                }
            }
            N::V(Value::InlineTable(t)) => {
                for (_, x) in t.iter() {
                    stack.push((N::V(x), d + 1));
                }
            }
            N::V(_) => {}
        }
    }
    // the root table itself is level 0; a scalar directly in the root is depth 1
    max
}

/// The recursion-limit error is recognised by what the library itself says for two reference documents far
/// beyond the limit (300 nested arrays, 300 nested inline tables), not by a fixed wording: a reworded message
/// is still the recursion-limit error - unless it is what the library also says for a shallow malformed document
/// (then it is a syntax error and a deep document rejected with it was not rejected for its depth).  Calibrated once
/// per worker on a large stack.
fn limit_messages() -> &'static Vec<String> {
    static M: std::sync::OnceLock<Vec<String>> = std::sync::OnceLock::new();
    M.get_or_init(|| {
        std::thread::Builder::new()
            .stack_size(256 << 20)
            .spawn(|| {
                let core = |text: &str| -> Option<String> {
                    // the cause is the last line; lines before it are context labels ("invalid table header", ...)
                    text.parse::<toml_edit::DocumentMut>().err().and_then(|e| e.message().lines().last().map(|l| l.trim().to_string()))
                };
                // what the library says for SHALLOW malformed documents is a syntax error, whatever else it is said for:
                // a deep document rejected with one of these lines was not rejected "with a recursion-limit error"
                let syntax: Vec<String> = ["k=[", "k=[1", "k=[1 2]", "k=[[1]", "k={", "k={a=", "k={a=1", "k={a={b=1}", "k={a=1,}", "k=", "a.=1", "a.b", "[a", "[[a]", "[a.]", "k=[{a=1]", "k={a=[1}"].iter().filter_map(|t| core(t)).collect();
                let mut v = Vec::new();
                for text in [format!("k={}{}", "[".repeat(300), "]".repeat(300)), format!("k={}1{}", "{a=".repeat(300), "}".repeat(300))] {
                    if let Some(c) = core(&text) {
                        if !syntax.contains(&c) {
                            v.push(c);
                        }
                    }
                }
                v
            })
            .expect("spawn")
            .join()
            .unwrap_or_default()
    })
}

fn is_limit_message(m: &str) -> bool {
    m.contains("recursion limit") || m.lines().any(|l| limit_messages().iter().any(|x| !x.is_empty() && x == l.trim()))
}

fn run_case(text: String) -> String {
    // executed on the 2 MiB thread
    match text.parse::<toml_edit::DocumentMut>() {
        Err(e) => {
            let m = e.message().to_string();
            let _ = e.to_string();
            let _ = toml::from_str::<toml::Value>(&text).map(|v| v.to_string());
            if is_limit_message(&m) {
                "REJ-LIMIT".to_string()
            } else {
                format!("REJ-OTHER {}", m.replace('\n', " "))
            }
        }
        Ok(doc) => {
            let depth = depth_of(&doc);
            let printed = doc.to_string();
            let dbg = format!("{:?}", doc);
            let c = doc.clone();
            drop(doc);
            let _ = c.to_string().len() + dbg.len() + printed.len();
            drop(c);
            if let Ok(im) = toml_edit::ImDocument::parse(text.as_str()) {
                let m = im.into_mut();
                drop(m);
            }
            match toml::from_str::<toml::Value>(&text) {
                Ok(v) => {
                    let s = v.to_string();
                    let _ = format!("{:?}", v).len() + s.len();
                    let c = v.clone();
                    drop(v);
                    drop(c);
                }
                Err(_) => return format!("ACC-SERDE-REJECTS depth={}", depth),
            }
            let r: Result<toml::Table, _> = toml_edit::de::from_str(&text);
            drop(r);
            format!("ACC depth={}", depth)
        }
    }
}

/// child: `mc C05-worker <tier> <start> <shard> <nshards>`
pub fn worker(tier: Tier, start: usize, shard: usize, nshards: usize) -> i32 {
    let cs = cases(tier);
    let out = std::io::stdout();
    for (i, c) in cs.iter().enumerate() {
        if i < start || i % nshards != shard {
            continue;
        }
        {
            let mut o = out.lock();
            let _ = writeln!(o, "BEGIN {}", i);
            let _ = o.flush();
        }
        let text = c.text();
        let h = std::thread::Builder::new().stack_size(STACK).spawn(move || guarded(|| run_case(text))).expect("spawn");
        let verdict = match h.join() {
            Ok(Ok(v)) => v,
            Ok(Err(p)) => format!("PANIC {}", p.replace('\n', " ")),
            Err(_) => "PANIC thread".to_string(),
        };
        let mut o = out.lock();
        let _ = writeln!(o, "END {} {}", i, verdict);
        let _ = o.flush();
    }
    0
}

fn run_build(rep: &mut Report, tier: Tier, exe: &std::path::Path, build: &'static str) -> Result<(), String> {
    let t0 = Instant::now();
    let cs = cases(tier);
    let nshards = 16usize;
    let mut acc = Acc::default();
    let results: Vec<Result<Vec<(usize, String)>, String>> = {
        use rayon::prelude::*;
        (0..nshards)
            .into_par_iter()
            .map(|shard| -> Result<Vec<(usize, String)>, String> {
                let mut out: Vec<(usize, String)> = Vec::new();
                let mut start = 0usize;
                let mut restarts = 0;
                loop {
                    let mut ch = std::process::Command::new(exe)
                        .args(["C05-worker", tier.name(), &start.to_string(), &shard.to_string(), &nshards.to_string()])
                        .stdout(std::process::Stdio::piped())
                        .stderr(std::process::Stdio::null())
                        .spawn()
                        .map_err(|e| format!("cannot start worker {}: {}", exe.display(), e))?;
                    let reader = std::io::BufReader::new(ch.stdout.take().unwrap());
                    let mut open: Option<usize> = None;
                    for line in reader.lines() {
                        let Ok(line) = line else { break };
                        if let Some(r) = line.strip_prefix("BEGIN ") {
                            open = r.trim().parse().ok();
                        } else if let Some(r) = line.strip_prefix("END ") {
                            let (i, v) = r.split_once(' ').unwrap_or((r, ""));
                            out.push((i.parse().unwrap_or(usize::MAX), v.to_string()));
                            open = None;
                        }
                    }
                    let status = ch.wait().map_err(|e| e.to_string())?;
                    match open {
                        Some(i) => {
                            out.push((i, format!("DIED {:?}", status)));
                            start = i + 1;
                            restarts += 1;
                            if restarts > 20_000 {
                                return Err("too many worker deaths".into());
                            }
                        }
                        None => {
                            if !status.success() {
                                return Err(format!("worker failed outside a case: {:?}", status));
                            }
                            return Ok(out);
                        }
                    }
                }
            })
            .collect()
    };
    let mut all: Vec<(usize, String)> = Vec::new();
    for r in results {
        all.extend(r?);
    }
    all.sort();
    if all.len() != cs.len() {
        return Err(format!("{}: {} results for {} cases", build, all.len(), cs.len()));
    }
    for (i, v) in all {
        let c = &cs[i];
        acc.evals += 1;
        let label = format!("[{}] {}", build, c.label());
        let single = c.single();
        if v.starts_with("DIED") {
            acc.bump("worker-died");
            acc.nontrivial(label.as_bytes());
            acc.viol("U-nest", label, multiplicative_class(c), format!("the worker process died inside this case on a 2 MiB stack ({}); document of {} bytes", v, c.text().len()));
            continue;
        }
        if v.starts_with("PANIC") {
            acc.viol("U-nest", label, None, v);
            continue;
        }
        if let Some(rest) = v.strip_prefix("REJ-OTHER") {
            acc.viol("U-nest", label, None, format!("rejected, but not with the recursion-limit error: {}", rest));
            continue;
        }
        if v == "REJ-LIMIT" {
            acc.bump("rejected-recursion-limit");
            acc.nontrivial(label.as_bytes());
            if c.is_flat() {
                acc.viol("U-nest", label, None, "a flat document (empty containers side by side, nested at most 3 deep) was rejected with the recursion-limit error".into());
                continue;
            }
            if let Some(d) = single {
                if d < calibrated_limit() {
                    acc.viol("U-nest", label, None, format!("a single construct nested {} deep (below the limit the library enforces on its reference constructs) was rejected", d));
                }
            }
            continue;
        }
        // accepted
        let depth: usize = v.rsplit("depth=").next().and_then(|x| x.trim().parse().ok()).unwrap_or(usize::MAX);
        acc.bump("accepted");
        if depth > 2 {
            acc.nontrivial(label.as_bytes());
        }
        acc.sample(|| format!("{} -> {}", label, v));
        if v.starts_with("ACC-SERDE-REJECTS") {
            acc.viol("U-nest", label.clone(), None, "toml_edit accepts but toml::from_str rejects".into());
        }
        if depth > k_depth() {
            acc.viol("U-nest", label.clone(), multiplicative_class(c), format!("accepted with decoded nesting depth {} > K = {}", depth, k_depth()));
        }
        if let Some(d) = single {
            if d >= calibrated_limit() {
                acc.viol("U-nest", label, None, format!("a single construct nested {} deep (at or beyond the limit) was accepted", d));
            }
        }
    }
    let n = cs.len() as u64;
    rep.absorb(&format!("U-nest[{}]", build), &format!("{} cases: header kind x depth, dotted key depth, <= 2-3 value constructs x depth; 2 MiB worker threads in sacrificial processes", n), n, true, t0, acc);
    Ok(())
}

/// the known multiplicative class (D4): every layer is individually below the limit, depths multiply across
/// alternating dotted keys and inline tables / arrays
fn multiplicative_class(c: &Case) -> Option<&'static str> {
    let l = calibrated_limit();
    let all_below = c.header.1 < l && c.dotted < l && c.values.iter().all(|(_, d)| *d < l);
    let has_dotted = c.dotted > 1 || c.values.iter().any(|(k, d)| *k == VKind::DottedInInline && *d > 1);
    if all_below && has_dotted {
        Some("dotted-key-depth-not-counted")
    } else {
        None
    }
}

pub fn c05(tier: Tier) -> i32 {
    let mut rep = Report::new(
        "C05",
        tier,
        "exploration",
        "every combination of (header kind x depth) x (dotted key depth) x (<= 2-3 value constructs from {array, inline table, dotted key inside inline table} x depth) over the depth set around the limit; each document is parsed, printed, debug-printed, cloned, dropped, despanned and deserialized on a 2 MiB thread in a sacrificial process, in an opt-level-0 build and in a release build; oracle: the worker survives, rejection only with the recursion-limit error, accepted trees no deeper than K = 2 x L, single constructs accepted below L and rejected from L on, where L is the limit the library is observed to enforce on four reference constructs (80); non-trivial = distinct cases rejected for the limit or accepted with depth > 2",
    );
    rep.assumptions = vec![
        "K = 2 x L = one header path (< L) plus one counted nest (< L); L is observed, not assumed (the largest first-refused depth among nested arrays, nested inline tables, a top-level dotted key and a dotted key in an inline table), so a changed constant moves the expectations while a limit lowered for one construct only still shows; measured: a tree of depth 160 is handled on 2 MiB in a debug build".into(),
        "the property quantifies over all inputs; this decides the bounded instance over the stated construct combinations".into(),
    ];
    let exe = match std::env::current_exe() {
        Ok(e) => e,
        Err(e) => {
            println!("MACHINERY-ERROR {}", e);
            return 2;
        }
    };
    let dev = std::path::PathBuf::from(exe.to_string_lossy().replace("/target/mc/", "/target/mcdev/"));
    if !dev.exists() {
        println!("MACHINERY-ERROR opt-level-0 build {} is missing (run.sh builds it for C05)", dev.display());
        return 2;
    }
    for (path, name) in [(exe.clone(), "release+debug-assertions"), (dev, "opt-level-0")] {
        if let Err(e) = run_build(&mut rep, tier, &path, name) {
            println!("MACHINERY-ERROR {}", e);
            return 2;
        }
    }
    rep.finish()
}

pub fn replay(path: &str) -> i32 {
    let j = read_replay(path);
    println!("case: {}", j["input"].as_str().unwrap_or(""));
    println!("replay: cases are generated; re-run ./run.sh C05 quick (each case runs in a sacrificial worker)");
    2
}
