//! The document universes shared by C01 C02 C03 C04 C09 C14 C15 C20 and the driver that runs a
//! per-document oracle over them.

use crate::common::{Acc, Report, Tier};
use crate::universe::*;
use std::collections::BTreeSet;
use std::time::Instant;

pub type Eval<'a> = &'a (dyn Fn(&[u8], &'static str, &mut Acc) + Sync);

pub fn run(rep: &mut Report, tier: Tier, sel: &[&str], eval: Eval<'_>) {
    for u in sel {
        match *u {
            "tok" => u_tok(rep, tier, eval),
            "tok-small" => u_tok_n(rep, tier.pick(4, 5), eval),
            // for evaluators that run many entry points per text: 4 tokens on every change, the full 6 in the thorough tier
            "tok-wide" => u_tok_n(rep, tier.pick(4, 6), eval),
            "ctx" => u_ctx(rep, tier, eval),
            "num" => u_num(rep, tier, eval),
            "edge" => u_edge(rep, eval),
            "dt" => u_dt(rep, tier, eval),
            "raw" => u_raw(rep, tier, eval),
            "esc" => u_esc(rep, tier, eval),
            "stmt" => u_stmt(rep, tier, eval),
            "stmt3" => u_stmt3(rep, tier, eval),
            "inline-stmt" => u_inline_stmt(rep, tier, eval),
            "stmt-small" => u_stmt_small(rep, tier, eval),
            "byte" => u_byte(rep, tier, eval),
            "corpus" => u_corpus(rep, tier, eval),
            "decor" => u_decor(rep, tier, eval),
            "cp" => u_cp(rep, tier, eval),
            "vtok" => u_vtok(rep, tier, eval),
            "nest" => u_nest(rep, tier, eval),
            "reopen" => u_reopen(rep, tier, eval),
            "stmt-values" => u_stmt_values(rep, tier, eval),
            "utf8" => u_utf8(rep, tier, eval),
            "bom" => u_bom(rep, eval),
            other => panic!("unknown universe {}", other),
        }
    }
}

fn tok_n(tier: Tier) -> usize {
    let d = tier.pick(5, 6);
    std::env::var("MC_TOK_N").ok().and_then(|s| s.parse().ok()).unwrap_or(d)
}

fn u_tok(rep: &mut Report, tier: Tier, eval: Eval<'_>) {
    u_tok_n(rep, tok_n(tier), eval)
}
fn u_tok_n(rep: &mut Report, n: usize, eval: Eval<'_>) {
    let t0 = Instant::now();
    let f = |s: &str, acc: &mut Acc| eval(s.as_bytes(), "U-tok", acc);
    let (total, acc) = sweep_upto(&T24, n, "", "", &f);
    rep.absorb("U-tok", &format!("all sequences of <= {} tokens over T24", n), total, true, t0, acc);
}

fn u_ctx(rep: &mut Report, tier: Tier, eval: Eval<'_>) {
    let n = tier.pick(4, 5);
    for (name, pre, suf, extra) in contexts() {
        let t0 = Instant::now();
        let alpha = ctx_alphabet(&extra);
        let f = |s: &str, acc: &mut Acc| eval(s.as_bytes(), "U-ctx", acc);
        let (total, acc) = sweep_upto(&alpha, n, pre, suf, &f);
        rep.absorb(&format!("U-ctx({})", name), &format!("frame {:?}+x+{:?}, x in alphabet({})^<={}", pre, suf, alpha.len(), n), total, true, t0, acc);
    }
}

fn u_num(rep: &mut Report, tier: Tier, eval: Eval<'_>) {
    let n = tier.pick(5, 6);
    for (pre, suf) in [("k=", "\n"), ("k=[", ",]"), ("k={a=", "}")] {
        let n = if pre == "k=" { n } else { n - 1 };
        let t0 = Instant::now();
        let f = |s: &str, acc: &mut Acc| eval(s.as_bytes(), "U-num", acc);
        let (total, acc) = sweep_upto(&NUM17, n, pre, suf, &f);
        rep.absorb("U-num", &format!("frame {:?}+x+{:?}, x in NUM17^<={}", pre, suf, n), total, true, t0, acc);
    }
}

pub fn edge_literals() -> Vec<String> {
    let mut v: BTreeSet<String> = BTreeSet::new();
    // integers around the i64 edges in all bases, with signs and one underscore at each digit boundary
    let edges: [i128; 8] = [i64::MAX as i128 - 1, i64::MAX as i128, i64::MAX as i128 + 1, -(i64::MAX as i128) - 2, i64::MIN as i128, i64::MIN as i128 + 1, 0, u64::MAX as i128];
    for e in edges {
        let mag = e.unsigned_abs();
        for (prefix, digits) in [("", format!("{}", mag)), ("0x", format!("{:x}", mag)), ("0x", format!("{:X}", mag)), ("0o", format!("{:o}", mag)), ("0b", format!("{:b}", mag))] {
            let signs: &[&str] = if prefix.is_empty() { &["", "+", "-"] } else { &["", "+", "-"] };
            for sign in signs {
                if prefix.is_empty() && *sign == "" && e < 0 {
                    continue;
                }
                v.insert(format!("{}{}{}", sign, prefix, digits));
                if digits.len() <= 20 {
                    for i in 1..digits.len() {
                        v.insert(format!("{}{}{}_{}", sign, prefix, &digits[..i], &digits[i..]));
                    }
                }
                v.insert(format!("{}{}0{}", sign, prefix, digits));
                v.insert(format!("{}{}_{}", sign, prefix, digits));
                v.insert(format!("{}{}{}_", sign, prefix, digits));
            }
        }
    }
    // floats around the overflow / underflow thresholds
    let mants = ["1", "9", "1.7976931348623157", "1.7976931348623158", "1.7976931348623159", "1.797693134862315807", "1.797693134862315708", "17976931348623157", "2.2250738585072014", "2.2250738585072011", "4.9", "5", "2.4703282292062327", "2.4703282292062328", "0.1", "1.0", "0.0", "0"];
    let exps = ["", "e0", "e1", "e-1", "e307", "e308", "E308", "e+308", "e309", "e400", "e99999", "e-307", "e-308", "e-323", "e-324", "e-325", "e-400", "e-99999", "e292", "e293", "e1_0", "e_1", "e1_", "e+", "e"];
    for m in mants {
        for e in exps {
            for s in ["", "+", "-"] {
                v.insert(format!("{}{}{}", s, m, e));
            }
        }
    }
    let big = "1".to_string() + &"0".repeat(308);
    let bigger = "1".to_string() + &"0".repeat(309);
    let maxint = "179769313486231570814527423731704356798070567525844996598917476803157260780028538760589558632766878171540458953514382464234321326889464182768467546703537516986049910576551282076245490090389328944075868508455133942304583236903222948165808559332123348274797826204144723168738177180919299881250404026184124858368";
    let thresh = "179769313486231580793728971405303415079934132710037826936173778980444968292764750946649017977587207096330286416692887910946555547851940402630657488671505820681908902000708383676273854845817711531764475730270069855571366959622842914819860834936475292719074168444365510704342711559699508093042880177904174497791";
    let thresh1 = "179769313486231580793728971405303415079934132710037826936173778980444968292764750946649017977587207096330286416692887910946555547851940402630657488671505820681908902000708383676273854845817711531764475730270069855571366959622842914819860834936475292719074168444365510704342711559699508093042880177904174497792";
    for m in [big.as_str(), bigger.as_str(), maxint, thresh, thresh1] {
        for s in ["", "+", "-"] {
            v.insert(format!("{}{}.0", s, m));
            v.insert(format!("{}{}e0", s, m));
            v.insert(format!("{}{}", s, m));
        }
    }
    // long literals WITH separators (a literal has no length limit; conversion buffers do): zero-padded prefixed
    // integers, grouped decimal floats, zero-padded exponents, around 64 / 128 / 309 characters
    for n in [31usize, 32, 33, 62, 63, 64, 65, 66, 70, 100, 127, 128, 129, 200] {
        for (prefix, one, max, over) in [("0x", "1", "7fffffffffffffff", "8000000000000000"), ("0o", "1", "777777777777777777777", "1000000000000000000000"), ("0b", "1", "111111111111111111111111111111111111111111111111111111111111111", "1000000000000000000000000000000000000000000000000000000000000000")] {
            v.insert(format!("{}0_{}{}", prefix, "0".repeat(n.saturating_sub(2)), one));
            v.insert(format!("{}{}_{}", prefix, "0".repeat(n), max));
            v.insert(format!("{}{}_{}", prefix, "0".repeat(n), over));
            v.insert(format!("{}{}{}", prefix, "0".repeat(n), max));
        }
        v.insert(format!("1_{}.0", "0".repeat(n - 1)));
        v.insert(format!("-1_{}.5e-1_0", "0".repeat(n - 1)));
        v.insert(format!("0.0_{}1", "0".repeat(n)));
        v.insert(format!("1e{}_5", "0".repeat(n)));
        v.insert(format!("1.{}e3_0_8", "0".repeat(n)));
        v.insert(format!("1.{}e3_0_9", "0".repeat(n)));
        v.insert(format!("1_{}", "0".repeat(n)));
        v.insert(format!("9_223_372_036_854_775_807{}", "_0".repeat(n / 32)));
    }
    for n in [307usize, 308, 309, 310, 400] {
        for sgn in ["", "-", "+"] {
            v.insert(format!("{}1_{}.0", sgn, "0".repeat(n - 1)));
            v.insert(format!("{}1{}.0", sgn, "_000".repeat(n / 3)));
            v.insert(format!("{}1_{}e-1_0", sgn, "0".repeat(n - 1)));
        }
    }
    for sp in ["inf", "nan", "Inf", "NaN", "infinity", "in", "na", "INF"] {
        for s in ["", "+", "-", "--", "+-"] {
            v.insert(format!("{}{}", s, sp));
        }
    }
    v.into_iter().collect()
}

fn u_edge(rep: &mut Report, eval: Eval<'_>) {
    let t0 = Instant::now();
    let mut cases = Vec::new();
    for l in edge_literals() {
        cases.push(format!("k={}\n", l));
        cases.push(format!("k=[{}]", l));
        cases.push(format!("k={{a={}}} # c", l));
    }
    let f = |s: &str, acc: &mut Acc| eval(s.as_bytes(), "U-edge", acc);
    let (total, acc) = sweep_list(&cases, &f);
    rep.absorb("U-edge", "range-edge integer and float literals x 3 frames", total, true, t0, acc);
}

pub const DT_ALPHA: [&str; 16] = ["0", "1", "2", "3", "5", "6", "9", "-", ":", ".", "+", "T", "t", "Z", "z", " "];
pub const DT_SEEDS: [&str; 14] = [
    "1979-05-27T07:32:00Z",
    "1979-05-27t07:32:00z",
    "1979-05-27 07:32:00-07:00",
    "1979-05-27T00:32:00.999999+23:59",
    "2000-02-29T23:59:60.5-00:00",
    "1979-05-27T07:32:00",
    "1979-05-27 07:32:00.123456789123",
    "1979-05-27",
    "2024-02-29",
    "0000-01-01",
    "9999-12-31",
    "07:32:00",
    "00:32:00.999999",
    "23:59:60.0",
];

pub fn dt_strings(k: usize) -> Vec<String> {
    let mut set: BTreeSet<String> = BTreeSet::new();
    let mut frontier: BTreeSet<String> = DT_SEEDS.iter().map(|s| s.to_string()).collect();
    set.extend(frontier.iter().cloned());
    for _ in 0..k {
        let mut next = BTreeSet::new();
        for s in &frontier {
            let chars: Vec<char> = s.chars().collect();
            for i in 0..=chars.len() {
                // truncate
                let t: String = chars[..i].iter().collect();
                next.insert(t);
                // insert
                for a in DT_ALPHA {
                    let mut t: String = chars[..i].iter().collect();
                    t.push_str(a);
                    t.extend(chars[i..].iter());
                    next.insert(t);
                }
                if i < chars.len() {
                    // delete
                    let mut t: String = chars[..i].iter().collect();
                    t.extend(chars[i + 1..].iter());
                    next.insert(t);
                    // substitute
                    for a in DT_ALPHA {
                        let mut t: String = chars[..i].iter().collect();
                        t.push_str(a);
                        t.extend(chars[i + 1..].iter());
                        next.insert(t);
                    }
                }
            }
        }
        frontier = next.difference(&set).cloned().collect();
        set.extend(frontier.iter().cloned());
    }
    // full field sweeps
    for y in ["0000", "1900", "2000", "2023", "2024", "9999"] {
        for m in 0..=13 {
            for d in 0..=32 {
                set.insert(format!("{}-{:02}-{:02}", y, m, d));
                if d >= 28 || d == 0 {
                    set.insert(format!("{}-{:02}-{:02}T00:00:00Z", y, m, d));
                }
            }
        }
    }
    for h in 0..=25 {
        set.insert(format!("{:02}:00:00", h));
        set.insert(format!("2000-01-01T{:02}:00:00", h));
        set.insert(format!("2000-01-01 {:02}:59:60Z", h));
    }
    for x in 0..=61 {
        set.insert(format!("00:{:02}:00", x));
        set.insert(format!("00:00:{:02}", x));
        set.insert(format!("2000-01-01T00:{:02}:00Z", x));
        set.insert(format!("2000-01-01T00:00:{:02}+01:00", x));
    }
    for sign in ["+", "-"] {
        for oh in 0..=25 {
            for om in [0, 1, 30, 59, 60, 61, 99] {
                set.insert(format!("2000-01-01T00:00:00{}{:02}:{:02}", sign, oh, om));
            }
        }
        for om in 0..=61 {
            set.insert(format!("2000-01-01T00:00:00{}00:{:02}", sign, om));
            set.insert(format!("2000-01-01T00:00:00{}23:{:02}", sign, om));
        }
    }
    // 1*DIGIT is unbounded: fractions far longer than any machine word must be accepted and truncated
    for n in (1..=12).chain([15, 18, 19, 20, 21, 25, 40, 100]) {
        for d in ["1", "9", "5"] {
            set.insert(format!("00:00:00.{}", d.repeat(n)));
            set.insert(format!("2000-01-01T00:00:00.{}Z", d.repeat(n)));
            set.insert(format!("2000-01-01T00:00:00.{}{}", "0".repeat(n - 1), d));
        }
    }
    set.into_iter().collect()
}

fn u_dt(rep: &mut Report, tier: Tier, eval: Eval<'_>) {
    let t0 = Instant::now();
    let k = tier.pick(1, 2);
    let strs = dt_strings(k);
    let mut cases = Vec::with_capacity(strs.len() * 2);
    for s in &strs {
        cases.push(format!("k={}\n", s));
        cases.push(format!("k=[{} ,{}]#", s, s));
    }
    let f = |s: &str, acc: &mut Acc| eval(s.as_bytes(), "U-dt", acc);
    let (total, acc) = sweep_list(&cases, &f);
    rep.absorb("U-dt", &format!("edit distance <= {} from {} seed date-times + field sweeps, 2 frames", k, DT_SEEDS.len()), total, true, t0, acc);
}

/// the value-level strings on their own (no `k=` frame): for the value, key and date-time entry points
fn u_raw(rep: &mut Report, tier: Tier, eval: Eval<'_>) {
    let t0 = Instant::now();
    let mut cases: Vec<String> = dt_strings(tier.pick(1, 2));
    cases.extend(edge_literals());
    for f in BYTE_FRAMES {
        if let Some((_, v)) = f.split_once(" = ") {
            cases.push(v.trim_end().to_string());
        }
    }
    let f = |s: &str, acc: &mut Acc| eval(s.as_bytes(), "U-raw", acc);
    let (total, acc) = sweep_list(&cases, &f);
    rep.absorb("U-raw", "date-time strings (edit neighbourhood + sweeps), range-edge number literals and the values of the seed frames, unframed", total, true, t0, acc);
    let n = tier.pick(4, 5);
    let t0 = Instant::now();
    let f = |s: &str, acc: &mut Acc| eval(s.as_bytes(), "U-raw", acc);
    let (total, acc) = sweep_upto(&NUM17, n, "", "", &f);
    rep.absorb("U-raw(num)", &format!("all strings <= {} over NUM17, unframed", n), total, true, t0, acc);
}

/// unicode escapes: every \\uXXXX over a hex alphabet that reaches the surrogate and range edges in each string kind
fn u_esc(rep: &mut Report, tier: Tier, eval: Eval<'_>) {
    let t0 = Instant::now();
    let hex4 = ["0", "1", "7", "8", "9", "a", "A", "d", "D", "f", "F", "g"];
    let mut cases: Vec<String> = Vec::new();
    let n = hex4.len();
    for idx in 0..n.pow(4) {
        let mut i = idx;
        let mut x = String::new();
        for _ in 0..4 {
            x.push_str(hex4[i % n]);
            i /= n;
        }
        cases.push(format!("k=\"\\u{}\"\n", x));
        if tier == Tier::Thorough || idx % 7 == 0 {
            cases.push(format!("k=\"\"\"a\\u{}\"\"\"", x));
            cases.push(format!("\"\\u{}\"=1", x));
        }
    }
    let hex8 = ["0", "1", "D", "F"];
    let m = hex8.len();
    for idx in 0..m.pow(8) {
        let mut i = idx;
        let mut x = String::new();
        for _ in 0..8 {
            x.push_str(hex8[i % m]);
            i /= m;
        }
        cases.push(format!("k=\"\\U{}\"\n", x));
    }
    // truncated escapes and every escape letter
    for e in ["\\", "\\u", "\\u0", "\\u00", "\\u000", "\\U0000000", "\\x41", "\\a", "\\e", "\\b", "\\t", "\\n", "\\f", "\\r", "\\\"", "\\\\", "\\/", "\\ ", "\\'", "\\0"] {
        cases.push(format!("k=\"{}\"\n", e));
        cases.push(format!("k=\"\"\"{}\"\"\"\n", e));
        cases.push(format!("k='{}'\n", e));
        cases.push(format!("\"{}\"=1\n", e));
    }
    let f = |s: &str, acc: &mut Acc| eval(s.as_bytes(), "U-esc", acc);
    let (total, acc) = sweep_list(&cases, &f);
    rep.absorb("U-esc", "every \\\\uXXXX over 12 hex symbols (surrogate and range edges), every \\\\UXXXXXXXX over {0,1,D,F}, truncated escapes and every escape letter, in basic / multi-line basic strings and quoted keys", total, true, t0, acc);
}

fn u_stmt(rep: &mut Report, tier: Tier, eval: Eval<'_>) {
    let configs: Vec<(Vec<&str>, usize, usize, bool)> = match tier {
        Tier::Quick => vec![(vec!["a", "b"], 2, 4, true), (vec!["a", "b"], 3, 3, false)],
        Tier::Thorough => vec![(vec!["a", "b"], 2, 5, true), (vec!["a", "b"], 3, 4, false), (vec!["a", "b", "c"], 2, 4, false)],
    };
    for (alpha, l, n, q) in configs {
        let t0 = Instant::now();
        let st = statements(&alpha, l, q);
        let refs: Vec<&str> = st.iter().map(|s| s.as_str()).collect();
        let f = |s: &str, acc: &mut Acc| eval(s.as_bytes(), "U-stmt", acc);
        let (total, acc) = sweep_upto(&refs, n, "", "", &f);
        rep.absorb("U-stmt", &format!("alphabet {:?}, path length <= {}, <= {} statements, {} statement forms, quoted variants: {}", alpha, l, n, st.len(), q), total, true, t0, acc);
    }
}

/// three-letter alphabet: needed for effects on *unrelated siblings* (e.g. an order-destroying removal)
fn u_stmt3(rep: &mut Report, tier: Tier, eval: Eval<'_>) {
    if tier == Tier::Thorough {
        return; // already part of "stmt" in the thorough tier
    }
    let (alpha, l, n) = (vec!["a", "b", "c"], 2, 4);
    let t0 = Instant::now();
    let st: Vec<String> = statements(&alpha, l, false).into_iter().filter(|s| !s.contains('{') && !s.contains("[1]")).collect();
    let refs: Vec<&str> = st.iter().map(|s| s.as_str()).collect();
    let f = |s: &str, acc: &mut Acc| eval(s.as_bytes(), "U-stmt", acc);
    let (total, acc) = sweep_upto(&refs, n, "", "", &f);
    rep.absorb("U-stmt", &format!("alphabet {:?}, path length <= {}, <= {} statements, {} statement forms ([p], [[p]], p = 1 only)", alpha, l, n, st.len()), total, true, t0, acc);
}

/// the definition rules inside ONE inline table: every sequence of <= 3 key/value pairs over paths of length <= 3
fn u_inline_stmt(rep: &mut Report, tier: Tier, eval: Eval<'_>) {
    let t0 = Instant::now();
    let mut kvs: Vec<String> = Vec::new();
    for p in key_paths(&["a", "b"], 3, false) {
        for v in ["1", "{}", "{a=1}", "{b.a=1}", "[]"] {
            kvs.push(format!("{}={}", p, v));
        }
    }
    let n = tier.pick(3, 3);
    let mut cases: Vec<String> = Vec::new();
    let k = kvs.len();
    for len in 0..=n {
        for idx in 0..k.pow(len as u32) {
            let mut i = idx;
            let mut parts = Vec::new();
            for _ in 0..len {
                parts.push(kvs[i % k].as_str());
                i /= k;
            }
            parts.reverse();
            cases.push(format!("t = {{{}}}\n", parts.join(", ")));
        }
    }
    if tier == Tier::Thorough {
        // the same pairs one level down: inside an inline table inside an array of an array-of-tables element
        let extra: Vec<String> = cases.iter().take(k * k + k + 1).map(|c| format!("[[x]]\ny = [{}]\n", c.trim_start_matches("t = ").trim_end())).collect();
        cases.extend(extra);
    }
    let f = |s: &str, acc: &mut Acc| eval(s.as_bytes(), "U-inline-stmt", acc);
    let (total, acc) = sweep_list(&cases, &f);
    rep.absorb("U-inline-stmt", &format!("t = {{ ... }} with every sequence of <= {} pairs from {} (paths of length <= 3 over {{a,b}} x 5 values)", n, k), total, true, t0, acc);
}

fn u_stmt_small(rep: &mut Report, tier: Tier, eval: Eval<'_>) {
    let (alpha, l, n) = (vec!["a", "b"], 2, tier.pick(3, 4));
    let t0 = Instant::now();
    let st = statements(&alpha, l, true);
    let refs: Vec<&str> = st.iter().map(|s| s.as_str()).collect();
    let f = |s: &str, acc: &mut Acc| eval(s.as_bytes(), "U-stmt", acc);
    let (total, acc) = sweep_upto(&refs, n, "", "", &f);
    rep.absorb("U-stmt", &format!("alphabet {:?}, path length <= {}, <= {} statements, {} statement forms", alpha, l, n, st.len()), total, true, t0, acc);
}

/// seed frames for U-byte(ii): every lexical context appears in at least one
pub const BYTE_FRAMES: [&str; 40] = [
    "a=1\n",
    "a = 1 # c\n",
    "\"a\" = \"b\"\n",
    "'a' = 'b'\n",
    "a.b.c = 1\n",
    "a . \"b\" . 'c' = 1\n",
    "a = \"\"\"\nb\\\n  c\"\"\"\n",
    "a = '''\nb\nc'''\n",
    "a = \"\\u00e9\\U0001F600\\t\"\n",
    "a = [1, 2, 3]\n",
    "a = [ 1 , [ 2 ] , ]\n",
    "a = [\n 1, # c\n 2\n]\n",
    "a = { b = 1, c = 2 }\n",
    "a = { b.c = { d = [ { e = 1 } ] } }\n",
    "[a]\nb = 1\n",
    "[a.b]\nc = 1\n[a]\nd = 2\n",
    "[[a]]\nb = 1\n[[a]]\nb = 2\n",
    "[[a.b]]\n[a.b.c]\nd = 1\n",
    "[ a . b ]\n",
    "[[ a . \"b\" ]]\n",
    "a = 0x1F\n",
    "a = 0o17\n",
    "a = 0b11\n",
    "a = +1_000\n",
    "a = -1.5e+1_0\n",
    "a = 1e5\n",
    "a = inf\n",
    "a = -nan\n",
    "a = true\n",
    "a = false\n",
    "a = 1979-05-27T07:32:00.5Z\n",
    "a = 1979-05-27 07:32:00-07:00\n",
    "a = 1979-05-27\n",
    "a = 07:32:00.123\n",
    "# c\na = 1\n",
    "\u{feff}a = 1\r\nb = 2\r\n",
    "a = 'é😀'\n",
    "é = 1\n",
    "a = \"\"\"\"\"b\"\"\"\"\"\n",
    "a = '''''b'''''\n",
];

/// byte-order marks: 0-3 whole marks and every proper prefix of one in front of each seed frame, after its first line,
/// at its end and on their own; a mark is only permitted once, at the very start (two entry-point layers each
/// stripping "the" mark would accept two)
fn u_bom(rep: &mut Report, eval: Eval<'_>) {
    let t0 = Instant::now();
    const BOM: &[u8] = b"\xEF\xBB\xBF";
    let mut heads: Vec<Vec<u8>> = Vec::new();
    for k in 0..=3usize {
        for partial in [0usize, 1, 2] {
            let mut h = BOM.repeat(k);
            h.extend_from_slice(&BOM[..partial]);
            heads.push(h);
        }
    }
    let mut cases: Vec<Vec<u8>> = Vec::new();
    let mut bodies: Vec<Vec<u8>> = BYTE_FRAMES.iter().map(|f| f.trim_start_matches('\u{feff}').as_bytes().to_vec()).collect();
    bodies.push(Vec::new());
    bodies.push(b"\n".to_vec());
    bodies.push(b"# c".to_vec());
    bodies.push(b"[t]\nk = 'v'\n[[u]]\n".to_vec());
    for b in &bodies {
        for h in &heads {
            let mut c = h.clone();
            c.extend_from_slice(b);
            cases.push(c);
            // a mark that is not at the start: after the first line, at the end
            if !h.is_empty() {
                if let Some(p) = b.iter().position(|x| *x == b'\n') {
                    let mut c = b[..=p].to_vec();
                    c.extend_from_slice(h);
                    c.extend_from_slice(&b[p + 1..]);
                    cases.push(c);
                }
                let mut c = b.clone();
                c.extend_from_slice(h);
                cases.push(c);
                let mut c = BOM.to_vec();
                c.extend_from_slice(b"\n");
                c.extend_from_slice(h);
                c.extend_from_slice(b);
                cases.push(c);
            }
        }
    }
    let f = |s: &[u8], acc: &mut Acc| eval(s, "U-bom", acc);
    let (total, acc) = sweep_bytes_list(&cases, &f);
    rep.absorb("U-bom", "44 bodies x {0-3 byte-order marks + 0-2 leading bytes of another} at the start, after the first line, at the end, after a marked first line", total, true, t0, acc);
}

fn u_byte(rep: &mut Report, tier: Tier, eval: Eval<'_>) {
    // (i) all byte strings of length <= 2 (quick) / <= 3 (thorough)
    let n = tier.pick(2usize, 3usize);
    let t0 = Instant::now();
    use rayon::prelude::*;
    let mut total = 0u64;
    let mut acc = Acc::default();
    for len in 0..=n {
        let count = 256u64.pow(len as u32);
        let a = (0..count)
            .into_par_iter()
            .fold(Acc::default, |mut acc, idx| {
                let mut b = [0u8; 4];
                let mut i = idx;
                for d in (0..len).rev() {
                    b[d] = (i & 0xff) as u8;
                    i >>= 8;
                }
                acc.evals += 1;
                eval(&b[..len], "U-byte", &mut acc);
                acc
            })
            .reduce(Acc::default, Acc::merge);
        total += count;
        acc = acc.merge(a);
    }
    rep.absorb("U-byte(i)", &format!("all byte strings of length <= {}", n), total, true, t0, acc);

    // (ii) every frame, every position, all 256 byte values substituted and inserted
    let t0 = Instant::now();
    let mut cases: Vec<Vec<u8>> = Vec::new();
    for f in BYTE_FRAMES {
        let fb = f.as_bytes();
        for pos in 0..=fb.len() {
            for v in 0..=255u8 {
                if pos < fb.len() {
                    let mut c = fb.to_vec();
                    c[pos] = v;
                    cases.push(c);
                }
                let mut c = fb[..pos].to_vec();
                c.push(v);
                c.extend_from_slice(&fb[pos..]);
                cases.push(c);
            }
            // truncation
            cases.push(fb[..pos].to_vec());
        }
    }
    let f = |s: &[u8], acc: &mut Acc| eval(s, "U-byte", acc);
    let (total, acc) = sweep_bytes_list(&cases, &f);
    rep.absorb("U-byte(ii)", &format!("{} seed frames x every position x all 256 byte values (substitute, insert) + truncations", BYTE_FRAMES.len()), total, true, t0, acc);

    // (iii) adjacent pairs of positions x SIGMA14^2
    let t0 = Instant::now();
    let mut cases: Vec<Vec<u8>> = Vec::new();
    let nframes = tier.pick(16, BYTE_FRAMES.len());
    for f in BYTE_FRAMES.iter().take(nframes) {
        let chars: Vec<char> = f.chars().collect();
        for pos in 0..chars.len().saturating_sub(1) {
            for x in SIGMA14 {
                for y in SIGMA14 {
                    let mut s: String = chars[..pos].iter().collect();
                    s.push_str(x);
                    s.push_str(y);
                    s.extend(chars[pos + 2..].iter());
                    cases.push(s.into_bytes());
                }
            }
        }
    }
    let (total, acc) = sweep_bytes_list(&cases, &f);
    rep.absorb("U-byte(iii)", &format!("{} seed frames x every adjacent pair of positions x SIGMA14^2", nframes), total, true, t0, acc);
}

fn u_corpus(rep: &mut Report, tier: Tier, eval: Eval<'_>) {
    let t0 = Instant::now();
    let files = corpus();
    let max_len = tier.pick(100, 400);
    let mut cases: Vec<Vec<u8>> = Vec::new();
    for (_, bytes, _) in &files {
        cases.push(bytes.clone());
    }
    let nfiles = cases.len();
    for (_, bytes, _) in &files {
        if bytes.len() > max_len {
            continue;
        }
        let Ok(text) = std::str::from_utf8(bytes) else { continue };
        let chars: Vec<char> = text.chars().collect();
        for pos in 0..=chars.len() {
            if pos < chars.len() {
                let mut s: String = chars[..pos].iter().collect();
                s.extend(chars[pos + 1..].iter());
                cases.push(s.into_bytes());
            }
            for x in SIGMA14 {
                let mut s: String = chars[..pos].iter().collect();
                s.push_str(x);
                s.extend(chars[pos..].iter());
                cases.push(s.into_bytes());
                if pos < chars.len() {
                    let mut s: String = chars[..pos].iter().collect();
                    s.push_str(x);
                    s.extend(chars[pos + 1..].iter());
                    cases.push(s.into_bytes());
                }
            }
        }
    }
    let f = |s: &[u8], acc: &mut Acc| eval(s, "U-corpus", acc);
    let (total, acc) = sweep_bytes_list(&cases, &f);
    rep.absorb("U-corpus", &format!("{} toml-test 1.0.0 files + every single-edit mutant (delete, insert/substitute SIGMA14) of files <= {} bytes", nfiles, max_len), total, true, t0, acc);
}

// ------------------------------------------------------------------------------------------------
// U-decor: structural skeletons with decor slots
//
// Slot markers inside a skeleton:
//   ~  inline whitespace slot (around dots, '=', inside headers and inline tables)
//   §  ws-comment-newline slot (inside arrays)
//   ¶  line slot before a statement (blank lines / comment lines)
//   ¤  trailer slot after a statement, before its line ending
//   ↵  the line ending itself (LF / CRLF)
pub const DECOR_SKELETONS: [&str; 46] = [
    "¶~a~=~1~¤↵",
    "¶~a~.~b~=~1~¤↵¶~a~.~c~=~2~¤↵",
    "¶~\"a\"~.~'b'~=~\"x\"~¤↵",
    "¶~a~=~[§1§,§2§]~¤↵",
    "¶~a~=~[§1§,§2§,§]~¤↵",
    "¶~a~=~[§]~¤↵",
    "¶~a~=~[§[§1§]§,§[§]§]~¤↵",
    "¶~a~=~{~b~=~1~,~c~=~2~}~¤↵",
    "¶~a~=~{~}~¤↵",
    "¶~a~=~{~b~.~c~=~[§1§]~}~¤↵",
    "¶~a~=~[§{~b~=~1~}§,§{~b~=~2~}§]~¤↵",
    "¶~[~a~]~¤↵¶~b~=~1~¤↵",
    "¶~[~a~.~b~]~¤↵¶~c~=~1~¤↵¶~[~a~]~¤↵¶~d~=~2~¤↵",
    "¶~[[~a~]]~¤↵¶~b~=~1~¤↵¶~[[~a~]]~¤↵¶~b~=~2~¤↵",
    "¶~[[~a~.~b~]]~¤↵¶~[~a~.~b~.~c~]~¤↵¶~d~=~1~¤↵",
    "¶~a~=~1~¤↵¶~[~b~]~¤↵¶~c~=~2~¤↵¶~[~d~]~¤↵",
    "¶~a~=~\"\"\"x\ny\"\"\"~¤↵¶~b~=~1~¤↵",
    "¶~a~=~'''x\r\ny'''~¤↵",
    "¶~a~=~\"\"\"\\\r\n  y\"\"\"~¤↵",
    "¶~é~=~'😀'~¤↵¶~b~=~1~¤↵",
    "¶~a~=~1979-05-27T07:32:00Z~¤↵¶~b~=~-0.0~¤↵¶~c~=~0x1F~¤↵",
    "¶~a~=~true~¤↵¶~b~=~+inf~¤↵¶~c~=~1_000~¤↵",
    "¶~[~a~]~¤↵¶~[~a~.~b~]~¤↵¶~[~c~]~¤↵¶~[~a~.~d~]~¤↵",
    "¶~[[~a~]]~¤↵¶~[~b~]~¤↵¶~[[~a~]]~¤↵",
    "¶~a~.~b~.~c~=~1~¤↵¶~a~.~b~.~d~=~2~¤↵¶~a~.~e~=~3~¤↵",
    "¶~[~a~]~¤↵¶~b~.~c~=~1~¤↵¶~[~a~.~b~.~d~]~¤↵",
    "¶~a~=~[§1§,§'x'§,§{~b~=~[§]~}§]~¤↵",
    "¶~a~=~{~b~=~{~c~=~{~}~}~}~¤↵",
    "¶¶~a~=~1~¤↵¶¶~b~=~2~¤↵¶",
    "¶~[~\"a b\"~.~'c.d'~]~¤↵¶~\"\"~=~''~¤↵",
    "¶~[[~a~]]~¤↵¶~[[~a~.~b~]]~¤↵¶~c~=~1~¤↵¶~[[~a~.~b~]]~¤↵¶~[[~a~]]~¤↵",
    "¶~a~=~[§1§,§2§]~¤↵¶~[~t~]~¤↵¶~a~=~[§[§]§]~¤↵",
    "¶~[~a~]~¤↵¶~[~b~]~¤↵¶~[~a~.~c~]~¤↵¶~x~=~1~¤↵",
    "¶~a~=~1~¤↵¶~b~.~c~=~2~¤↵¶~d~=~3~¤↵",
    "¶~[~a~]~¤↵¶~[[~a~.~b~]]~¤↵¶~x~=~1~¤↵¶~[[~a~.~b~]]~¤↵¶~[~a~.~c~]~¤↵",
    "¶~[[~a~]]~¤↵¶~[~a~.~t~]~¤↵¶~k~=~1~¤↵¶~[[~a~]]~¤↵¶~[~a~.~t~]~¤↵¶~k~=~2~¤↵",
    "¶~a~=~[§{~x~=~1~,~y~=~[§2§,§]~}§,§]~¤↵",
    "¶~a~=~'#x'~¤↵¶~b~=~\"#y\"~¤↵",
    "¶~\"a\"~.~b~=~1~¤↵¶~'a'~.~c~=~2~¤↵",
    "¶~a~=~[§\"\"\"x\ny\"\"\"§,§'''z'''§]~¤↵",
    "¶~t~.~a~=~{~}~¤↵¶~t~.~b~=~[§]~¤↵¶~[~u~]~¤↵",
    "¶~[~a~]~¤↵¶~[~a~.~b~]~¤↵¶~[~a~.~b~.~c~]~¤↵¶~z~=~0~¤↵",
    "¶~[[~a~]]~¤↵¶~[[~a~]]~¤↵¶~[[~a~]]~¤↵",
    "¶~k~=~-1.5e+3~¤↵¶~l~=~07:32:00.5~¤↵¶~m~=~1979-05-27 07:32:00-07:00~¤↵",
    "¶~a~.~b~=~1~¤↵¶~[~c~]~¤↵¶~a~.~b~=~2~¤↵",
    "¶~a~=~{~b~=~1~}~¤↵¶~[~c~.~d~]~¤↵¶~e~=~{~f~.~g~=~2~}~¤↵",
];

const F_INLINE: [&str; 4] = ["", " ", "\t", "  \t"];
const F_ARRAY: [&str; 7] = ["", " ", "\n", "# c\n", "\r\n", "\t", " #é\r\n  "];
const F_LINE: [&str; 6] = ["", "\n", "# c\n", "\r\n", " \t\n", "  # c😀\r\n"];
const F_TRAIL: [&str; 5] = ["", " ", "# c", " #c", "\t# é\t"];
const F_EOL: [&str; 2] = ["\n", "\r\n"];

fn slot_fillers(c: char) -> Option<&'static [&'static str]> {
    match c {
        '~' => Some(&F_INLINE),
        '§' => Some(&F_ARRAY),
        '¶' => Some(&F_LINE),
        '¤' => Some(&F_TRAIL),
        '↵' => Some(&F_EOL),
        _ => None,
    }
}

/// every assignment with <= k slots deviating from the default (filler 0), x {BOM, no BOM} x {final newline, none}
pub fn decor_cases(k: usize) -> Vec<String> {
    let mut out = Vec::new();
    for sk in DECOR_SKELETONS {
        let parts: Vec<char> = sk.chars().collect();
        let slots: Vec<usize> = parts.iter().enumerate().filter(|(_, c)| slot_fillers(**c).is_some()).map(|(i, _)| i).collect();
        // enumerate deviation sets of size <= k
        let mut choice: Vec<usize> = vec![0; parts.len()];
        fn rec(parts: &[char], slots: &[usize], from: usize, left: usize, choice: &mut Vec<usize>, out: &mut Vec<String>) {
            // emit current
            let mut s = String::new();
            for (i, c) in parts.iter().enumerate() {
                match slot_fillers(*c) {
                    Some(f) => s.push_str(f[choice[i]]),
                    None => s.push(*c),
                }
            }
            out.push(s.clone());
            // variants: BOM, no final newline
            if left == 0 || from == 0 {
                out.push(format!("\u{feff}{}", s));
                if s.ends_with("\r\n") {
                    out.push(s[..s.len() - 2].to_string());
                } else if s.ends_with('\n') {
                    out.push(s[..s.len() - 1].to_string());
                }
            }
            if left == 0 {
                return;
            }
            for si in from..slots.len() {
                let p = slots[si];
                let f = slot_fillers(parts[p]).unwrap();
                for v in 1..f.len() {
                    choice[p] = v;
                    rec(parts, slots, si + 1, left - 1, choice, out);
                }
                choice[p] = 0;
            }
        }
        rec(&parts, &slots, 0, k, &mut choice, &mut out);
    }
    out
}

fn u_decor(rep: &mut Report, tier: Tier, eval: Eval<'_>) {
    let t0 = Instant::now();
    let k = tier.pick(2, 3);
    let cases = decor_cases(k);
    let f = |s: &str, acc: &mut Acc| eval(s.as_bytes(), "U-decor", acc);
    let (total, acc) = sweep_list(&cases, &f);
    rep.absorb("U-decor", &format!("{} skeletons x every filler assignment with <= {} deviating slots x BOM / no final newline variants", DECOR_SKELETONS.len(), k), total, true, t0, acc);
}


/// frames for the code point universes: the ten lexical contexts plus frames whose error lies AFTER the character
/// (line / column arithmetic over multi-byte text) and frames where the character touches a token boundary
pub fn cp_frames() -> Vec<(&'static str, &'static str)> {
    let mut v: Vec<(&'static str, &'static str)> = contexts().into_iter().map(|(_, pre, suf, _)| (pre, suf)).collect();
    v.extend([("k='", "' x\n"), ("#", "\n=1\n"), ("k=\"\"\"\n", "\\\n  \"\"\"\n"), ("'", "'.b=1\n"), ("[a]\nb='", "'\n[a]\n"), ("k=[1,#", "\n2]\n"), ("", ""), ("a=1\n", "")]);
    v
}

fn cp_list(tier: Tier) -> Vec<char> {
    match tier {
        Tier::Thorough => (0..=0x10FFFFu32).filter_map(char::from_u32).collect(),
        Tier::Quick => {
            let mut v: Vec<char> = (0..=0xFFFFu32).filter_map(char::from_u32).collect();
            for plane in 1..=16u32 {
                for off in [0u32, 1, 0xFFFE, 0xFFFF] {
                    v.extend(char::from_u32(plane * 0x10000 + off));
                }
            }
            v
        }
    }
}

/// every Unicode scalar value (quick: the whole BMP plus the first and last two code points of every supplementary
/// plane) in every lexical context
fn u_cp(rep: &mut Report, tier: Tier, eval: Eval<'_>) {
    use rayon::prelude::*;
    let t0 = Instant::now();
    let frames = cp_frames();
    let cps = cp_list(tier);
    let total = (frames.len() * cps.len()) as u64;
    let acc = (0..total)
        .into_par_iter()
        .fold(
            || (Acc::default(), String::with_capacity(64)),
            |(mut acc, mut s), idx| {
                let (pre, suf) = frames[idx as usize / cps.len()];
                s.clear();
                s.push_str(pre);
                s.push(cps[idx as usize % cps.len()]);
                s.push_str(suf);
                acc.evals += 1;
                eval(s.as_bytes(), "U-cp", &mut acc);
                (acc, s)
            },
        )
        .map(|(a, _)| a)
        .reduce(Acc::default, Acc::merge);
    rep.absorb("U-cp", &format!("{} Unicode scalar values ({}) x {} frames (string kinds, comment, key, header, array, inline table, trailer, before an error, at a line continuation, bare)", cps.len(), if tier == Tier::Thorough { "all of them" } else { "whole BMP + edges of every supplementary plane" }, frames.len()), total, true, t0, acc);
}

/// byte sequences that are NOT UTF-8 (and the well-formed neighbours) inside each frame: every 2-byte sequence with a
/// non-ASCII first byte; every 3-byte sequence lead x c1 x c2 and 4-byte sequence lead x c1 x c2 x c3 over the
/// boundary values of each position (overlong forms, surrogates, beyond U+10FFFF, truncated and stray continuations)
fn u_utf8(rep: &mut Report, tier: Tier, eval: Eval<'_>) {
    let t0 = Instant::now();
    let mut seqs: Vec<Vec<u8>> = Vec::new();
    for a in 0x80..=0xFFu8 {
        seqs.push(vec![a]);
        for b in 0..=0xFFu8 {
            seqs.push(vec![a, b]);
        }
    }
    let conts: [u8; 10] = [0x00, 0x7F, 0x80, 0x8F, 0x90, 0x9F, 0xA0, 0xBF, 0xC0, 0xFF];
    for lead in [0xE0u8, 0xE1, 0xEC, 0xED, 0xEE, 0xEF] {
        for c1 in conts {
            for c2 in conts {
                seqs.push(vec![lead, c1, c2]);
            }
        }
    }
    for lead in [0xF0u8, 0xF1, 0xF3, 0xF4, 0xF5, 0xF7, 0xF8, 0xFF] {
        for c1 in conts {
            for c2 in [0x7Fu8, 0x80, 0xBF, 0xC0] {
                for c3 in [0x7Fu8, 0x80, 0xBF, 0xC0] {
                    seqs.push(vec![lead, c1, c2, c3]);
                }
            }
        }
    }
    let frames = cp_frames();
    let nframes = tier.pick(10, frames.len());
    let mut cases: Vec<Vec<u8>> = Vec::with_capacity(seqs.len() * nframes);
    for (pre, suf) in frames.iter().take(nframes) {
        for q in &seqs {
            let mut c = pre.as_bytes().to_vec();
            c.extend_from_slice(q);
            c.extend_from_slice(suf.as_bytes());
            cases.push(c);
        }
    }
    let f = |s: &[u8], acc: &mut Acc| eval(s, "U-utf8", acc);
    let (total, acc) = sweep_bytes_list(&cases, &f);
    rep.absorb("U-utf8", &format!("{} byte sequences around the UTF-8 well-formedness boundaries (all 1- and 2-byte sequences with a non-ASCII lead, 3- and 4-byte sequences over boundary continuation values) x {} frames", seqs.len(), nframes), total, true, t0, acc);
}


/// V16: token alphabet for the value / key entry points (no `k =` frame)
pub const V16: [&str; 16] = ["1", "'a'", "\"b\"", "[", "]", "{", "}", ",", "=", "a", " ", "\n", "#c", ".", "é", "\r"];

fn u_vtok(rep: &mut Report, tier: Tier, eval: Eval<'_>) {
    let n = tier.pick(4, 5);
    let t0 = Instant::now();
    let f = |s: &str, acc: &mut Acc| eval(s.as_bytes(), "U-vtok", acc);
    let (total, acc) = sweep_upto(&V16, n, "", "", &f);
    rep.absorb("U-vtok", &format!("all sequences of <= {} tokens over V16 (value / key level, unframed)", n), total, true, t0, acc);
}


/// single constructs and simple combinations nested just below, at and beyond the recursion limit: below it every
/// document is valid and must be accepted; from the limit on a refusal is permitted
pub fn nest_docs() -> Vec<String> {
    let mut out = Vec::new();
    let l = crate::common::calibrated_limit();
    for d in [1usize, 2, 3, l / 2, l - 3, l - 2, l - 1, l, l + 1, l + 2, l + 20, l + 48] {
        out.push(format!("k = {}1{}\n", "[".repeat(d), "]".repeat(d)));
        out.push(format!("k = {}{}\n", "[".repeat(d), "]".repeat(d)));
        out.push(format!("k = {}1{}\n", "{a = ".repeat(d), "}".repeat(d)));
        out.push(format!("k = {}{{}}{}\n", "{a = ".repeat(d.saturating_sub(1)), "}".repeat(d.saturating_sub(1))));
        out.push(format!("{} = 1\n", vec!["a"; d].join(".")));
        out.push(format!("[{}]\nx = 1\n", vec!["a"; d].join(".")));
        out.push(format!("[[{}]]\nx = 1\n", vec!["a"; d].join(".")));
        out.push(format!("k = {{ {} = 1 }}\n", vec!["a"; d].join(".")));
        out.push(format!("k = {}'v'{}\n", "[{a = ".repeat(d / 2), "}]".repeat(d / 2)));
        // a dotted key as the innermost construct below other nesting
        for outer in [1usize, 2, 3] {
            if d > outer {
                out.push(format!("k = {}{{ {} = 1 }}{}\n", "[".repeat(outer), vec!["a"; d - outer].join("."), "]".repeat(outer)));
                out.push(format!("k = {}{{ {} = 1 }}{}\n", "{a = ".repeat(outer), vec!["b"; d - outer].join("."), "}".repeat(outer)));
            }
        }
    }
    out
}

fn u_nest(rep: &mut Report, _tier: Tier, eval: Eval<'_>) {
    let t0 = Instant::now();
    let cases = nest_docs();
    let f = |s: &str, acc: &mut Acc| eval(s.as_bytes(), "U-nest", acc);
    let (total, acc) = sweep_list(&cases, &f);
    rep.absorb("U-nest", "9 nesting constructs + dotted keys below 1-3 outer levels x depths {1, 2, 3, L/2, L-3 .. L+2, L+20, L+48} around the limit L the library enforces (80)", total, true, t0, acc);
}


/// headers in every order, inside-out and interleaved, each section with 0-3 key/value lines: re-opening an implicit
/// table, sub-table before super-table, siblings between, arrays of tables as the outer level
pub fn reopen_docs() -> Vec<String> {
    let paths = ["p", "p.c", "p.c.x", "p.d", "q"];
    let bodies = ["", "k1 = 1\n", "k1 = 1\nk2 = 2\n", "k3 = 3\nk1 = 1\nk2 = 2\n"];
    let mut seqs: Vec<Vec<usize>> = vec![vec![]];
    let mut all: Vec<Vec<usize>> = Vec::new();
    for _ in 0..4 {
        let mut next = Vec::new();
        for sq in &seqs {
            for i in 0..paths.len() {
                if !sq.contains(&i) {
                    let mut t = sq.clone();
                    t.push(i);
                    next.push(t);
                }
            }
        }
        all.extend(next.iter().cloned());
        seqs = next;
    }
    let mut out = Vec::new();
    for sq in &all {
        for body in bodies {
            for aot in [false, true] {
                // (with `aot`, the outermost table `p` is an array of tables and everything below hangs off its last element)
                let mut d = String::from("top = 0\n");
                for i in sq {
                    if aot && paths[*i] == "p" {
                        d.push_str("[[p]]\n");
                    } else {
                        d.push_str(&format!("[{}]\n", paths[*i]));
                    }
                    d.push_str(body);
                }
                out.push(d);
            }
        }
    }
    out
}

fn u_reopen(rep: &mut Report, _tier: Tier, eval: Eval<'_>) {
    let t0 = Instant::now();
    let cases = reopen_docs();
    let f = |s: &str, acc: &mut Acc| eval(s.as_bytes(), "U-reopen", acc);
    let (total, acc) = sweep_list(&cases, &f);
    rep.absorb("U-reopen", "every ordered selection of <= 4 headers from {p, p.c, p.c.x, p.d, q} x 4 section bodies (0-3 key/value lines) x {[p], [[p]]}", total, true, t0, acc);
}


/// statements whose VALUE decides what a later statement may do: arrays of inline tables (which are not arrays of
/// tables), nested arrays, empty containers, inline tables with tables inside
fn u_stmt_values(rep: &mut Report, _tier: Tier, eval: Eval<'_>) {
    let t0 = Instant::now();
    let paths = ["a", "b", "a.a", "a.b", "b.a"];
    let vals = ["[{a = 1}]", "[{}]", "[[1]]", "[]", "{}", "{a = {}}", "{a = []}", "[{a = 1}, {a = 2}]", "1"];
    let mut st: Vec<String> = Vec::new();
    for p in paths {
        for v in vals {
            st.push(format!("{} = {}\n", p, v));
        }
        st.push(format!("[{}]\n", p));
        st.push(format!("[[{}]]\n", p));
    }
    let refs: Vec<&str> = st.iter().map(|s| s.as_str()).collect();
    let f = |s: &str, acc: &mut Acc| eval(s.as_bytes(), "U-stmt-values", acc);
    let (total, acc) = sweep_upto(&refs, 3, "", "", &f);
    rep.absorb("U-stmt-values", &format!("every sequence of <= 3 statements from {} (5 paths x 9 value forms incl. arrays of inline tables and empty containers, [p], [[p]])", st.len()), total, true, t0, acc);
}
