//! Adapters that turn the trees of the crates under test into the model's canonical data text
//! (see `refmodel::Node::canon`).  Only public accessors are used.

use refmodel::{canon_float, Dt, Off};
use std::fmt::Write;
use toml_edit::{Item, Table, Value};

pub fn dt_of(d: &toml_datetime::Datetime) -> Dt {
    Dt {
        date: d.date.map(|x| (x.year, x.month, x.day)),
        time: d.time.map(|t| (t.hour, t.minute, t.second, t.nanosecond)),
        offset: d.offset.map(|o| match o {
            toml_datetime::Offset::Z => Off::Z,
            toml_datetime::Offset::Custom { minutes } => Off::Minutes(minutes),
        }),
    }
}

pub fn canon_item(item: &Item, out: &mut String, sorted: bool) {
    match item {
        Item::None => out.push_str("NONE"),
        Item::Value(v) => canon_value(v, out, sorted),
        Item::Table(t) => canon_table(t, out, sorted),
        Item::ArrayOfTables(a) => {
            out.push('[');
            for (i, t) in a.iter().enumerate() {
                if i > 0 {
                    out.push(',');
                }
                canon_table(t, out, sorted);
            }
            out.push(']');
        }
    }
}

pub fn canon_table(t: &Table, out: &mut String, sorted: bool) {
    out.push('{');
    let mut items: Vec<(&str, &Item)> = t.iter().collect();
    if sorted {
        items.sort_by(|a, b| a.0.cmp(b.0));
    }
    for (n, (k, v)) in items.into_iter().enumerate() {
        if n > 0 {
            out.push(',');
        }
        let _ = write!(out, "{:?}:", k);
        canon_item(v, out, sorted);
    }
    out.push('}');
}

pub fn canon_value(v: &Value, out: &mut String, sorted: bool) {
    match v {
        Value::String(s) => {
            let _ = write!(out, "s{:?}", s.value());
        }
        Value::Integer(i) => {
            let _ = write!(out, "i{}", i.value());
        }
        Value::Float(f) => out.push_str(&canon_float(*f.value())),
        Value::Boolean(b) => {
            let _ = write!(out, "b{}", b.value());
        }
        Value::Datetime(d) => out.push_str(&refmodel::canon_dt(&dt_of(d.value()))),
        Value::Array(a) => {
            out.push('[');
            for (i, x) in a.iter().enumerate() {
                if i > 0 {
                    out.push(',');
                }
                canon_value(x, out, sorted);
            }
            out.push(']');
        }
        Value::InlineTable(t) => {
            out.push('{');
            let mut items: Vec<(&str, &Value)> = t.iter().collect();
            if sorted {
                items.sort_by(|a, b| a.0.cmp(b.0));
            }
            for (n, (k, x)) in items.into_iter().enumerate() {
                if n > 0 {
                    out.push(',');
                }
                let _ = write!(out, "{:?}:", k);
                canon_value(x, out, sorted);
            }
            out.push('}');
        }
    }
}

pub fn canon_doc_table(t: &Table, sorted: bool) -> String {
    let mut s = String::new();
    canon_table(t, &mut s, sorted);
    s
}

pub fn canon_tv(v: &toml::Value, out: &mut String, sorted: bool) {
    match v {
        toml::Value::String(s) => {
            let _ = write!(out, "s{:?}", s);
        }
        toml::Value::Integer(i) => {
            let _ = write!(out, "i{}", i);
        }
        toml::Value::Float(f) => out.push_str(&canon_float(*f)),
        toml::Value::Boolean(b) => {
            let _ = write!(out, "b{}", b);
        }
        toml::Value::Datetime(d) => out.push_str(&refmodel::canon_dt(&dt_of(d))),
        toml::Value::Array(a) => {
            out.push('[');
            for (i, x) in a.iter().enumerate() {
                if i > 0 {
                    out.push(',');
                }
                canon_tv(x, out, sorted);
            }
            out.push(']');
        }
        toml::Value::Table(t) => canon_tt(t, out, sorted),
    }
}

pub fn canon_tt(t: &toml::Table, out: &mut String, sorted: bool) {
    out.push('{');
    let mut items: Vec<(&String, &toml::Value)> = t.iter().collect();
    if sorted {
        items.sort_by(|a, b| a.0.cmp(b.0));
    }
    for (n, (k, x)) in items.into_iter().enumerate() {
        if n > 0 {
            out.push(',');
        }
        let _ = write!(out, "{:?}:", k);
        canon_tv(x, out, sorted);
    }
    out.push('}');
}

pub fn canon_toml_table(t: &toml::Table, sorted: bool) -> String {
    let mut s = String::new();
    canon_tt(t, &mut s, sorted);
    s
}

pub fn canon_toml_value(v: &toml::Value, sorted: bool) -> String {
    let mut s = String::new();
    canon_tv(v, &mut s, sorted);
    s
}

/// maximum nesting depth of a real tree (tables, arrays of tables, arrays, inline tables)
pub fn item_depth(item: &Item) -> usize {
    match item {
        Item::None => 0,
        Item::Value(v) => value_depth(v),
        Item::Table(t) => 1 + t.iter().map(|(_, i)| item_depth(i)).max().unwrap_or(0),
        Item::ArrayOfTables(a) => 1 + a.iter().map(|t| 1 + t.iter().map(|(_, i)| item_depth(i)).max().unwrap_or(0)).max().unwrap_or(0),
    }
}
pub fn value_depth(v: &Value) -> usize {
    match v {
        Value::Array(a) => 1 + a.iter().map(value_depth).max().unwrap_or(0),
        Value::InlineTable(t) => 1 + t.iter().map(|(_, x)| value_depth(x)).max().unwrap_or(0),
        _ => 0,
    }
}
