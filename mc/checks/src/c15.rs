//! C15 — every rejection is a well-formed, correctly located error.

use crate::common::*;
use crate::docu;
use crate::universe::sweep_list;
use refmodel::{ref_parse, Val, Verdict};
use serde::Deserialize;
use toml_edit::DocumentMut;

/// reference (line, column), 1-based, of byte offset `idx`: lines split at LF, columns count characters;
/// at end of input: one past the end of the last line
pub fn ref_pos(src: &str, idx: usize) -> (usize, usize) {
    if src.is_empty() {
        return (1, idx + 1);
    }
    let (i, extra) = if idx >= src.len() { (src.len() - 1, idx - (src.len() - 1)) } else { (idx, 0) };
    let before = &src.as_bytes()[..i];
    let line = 1 + before.iter().filter(|b| **b == b'\n').count();
    let line_start = before.iter().rposition(|b| *b == b'\n').map(|p| p + 1).unwrap_or(0);
    // characters strictly before i on this line (i may be inside a character only if the span is broken, checked separately)
    let mut j = i;
    while !src.is_char_boundary(j) {
        j -= 1;
    }
    let col = 1 + src[line_start..j].chars().count() + extra;
    (line, col)
}

fn parse_line_col(rendered: &str) -> Option<(usize, usize)> {
    let first = rendered.lines().next()?;
    let rest = first.strip_prefix("TOML parse error at line ")?;
    let (l, c) = rest.split_once(", column ")?;
    Some((l.trim().parse().ok()?, c.trim().parse().ok()?))
}

fn check_error(src: &str, message: &str, span: Option<std::ops::Range<usize>>, rendered: &str, debug: &str, who: &str) -> Result<(), (Option<&'static str>, String)> {
    if debug.is_empty() {
        return Err((None, format!("{}: empty Debug rendering", who)));
    }
    if let Some(sp) = &span {
        if sp.start > sp.end || sp.end > src.len() {
            return Err((None, format!("{}: span {:?} out of bounds (len {})", who, sp, src.len())));
        }
        if !src.is_char_boundary(sp.start) || !src.is_char_boundary(sp.end) {
            return Err((None, format!("{}: span {:?} not on character boundaries", who, sp)));
        }
        let want = ref_pos(src, sp.start);
        match parse_line_col(rendered) {
            Some(got) if got == want => {}
            Some(got) => {
                return Err((None, format!("{}: rendered position line {}, column {} but span start {} is line {}, column {}", who, got.0, got.1, sp.start, want.0, want.1)));
            }
            None => return Err((None, format!("{}: error has a span but its rendering has no position line: {:?}", who, rendered))),
        }
    }
    if message.trim().is_empty() {
        // classify the known shapes precisely
        let at = span.as_ref().map(|s| s.start).unwrap_or(usize::MAX);
        let class = if (at < src.len() && src.as_bytes()[at] == b'\r') || (at > 0 && at <= src.len() && src.as_bytes()[at - 1] == b'\r') {
            Some("empty-message-at-bare-cr")
        } else if at == src.len() {
            Some("empty-message-at-end-of-input")
        } else if at < src.len() && (src.as_bytes()[at] < 0x20 || src.as_bytes()[at] == 0x7f) {
            Some("empty-message-at-control-character")
        } else {
            None
        };
        return Err((class, format!("{}: empty error message (span {:?}, rendered {:?})", who, span, rendered)));
    }
    Ok(())
}

pub fn c15_eval(bytes: &[u8], uni: &'static str, acc: &mut Acc) {
    let Ok(text) = std::str::from_utf8(bytes) else {
        // byte entry point: must fail with a located, printable error
        let r = guarded(|| toml_edit::de::from_slice::<toml::Table>(bytes).map(|_| ()).map_err(|e| (e.message().to_string(), e.to_string(), format!("{:?}", e))));
        match r {
            Ok(Err((m, d, g))) => {
                acc.bump("invalid-utf8-error");
                if m.trim().is_empty() || d.is_empty() || g.is_empty() {
                    acc.viol(uni, crate::c_docs::show(bytes), None, "from_slice error on invalid UTF-8 has an empty message / rendering".into());
                }
            }
            Ok(Ok(())) => acc.viol(uni, crate::c_docs::show(bytes), None, "invalid UTF-8 accepted by from_slice".into()),
            Err(p) => acc.viol(uni, crate::c_docs::show(bytes), None, format!("panic: {}", p)),
        }
        return;
    };
    let r = guarded(|| -> Result<bool, (Option<&'static str>, String)> {
        let e = match text.parse::<DocumentMut>() {
            Ok(_) => return Ok(false),
            Err(e) => e,
        };
        check_error(text, e.message(), e.span(), &e.to_string(), &format!("{:?}", e), "toml_edit::TomlError")?;
        let e2 = match toml::from_str::<toml::Table>(text) {
            Ok(_) => return Err((None, "toml::from_str accepts what DocumentMut rejects".into())),
            Err(e) => e,
        };
        check_error(text, e2.message(), e2.span(), &e2.to_string(), &format!("{:?}", e2), "toml::de::Error")?;
        // same text, same rejection: the serde front end must point at the same place (the wording may differ)
        if e2.span() != e.span() {
            return Err((None, format!("toml::de::Error is located at {:?} ({:?}) but TomlError at {:?} ({:?})", e2.span(), e2.message(), e.span(), e.message())));
        }
        Ok(true)
    });
    match r {
        Ok(Ok(false)) => acc.bump("accepted-skipped"),
        Ok(Ok(true)) => {
            acc.bump("rejected-with-located-error");
            acc.nontrivial(bytes);
            acc.sample(|| format!("{:?}", text));
        }
        Ok(Err((class, e))) => {
            acc.nontrivial(bytes);
            acc.viol(uni, text.to_string(), class, e)
        }
        Err(p) => {
            acc.panics += 1;
            acc.viol(uni, text.to_string(), None, format!("panic while building / rendering the error: {}", p));
        }
    }
}

/// the entry points below the document level: value, key, key path, the two value deserializers and the standalone
/// date-time parser.  Whatever they reject must come with an error of the same quality.
pub fn c15_value_eval(bytes: &[u8], uni: &'static str, acc: &mut Acc) {
    let Ok(text) = std::str::from_utf8(bytes) else { return };
    let r = guarded(|| -> Result<usize, (Option<&'static str>, String)> {
        use serde::Deserialize as _;
        let mut rejected = 0;
        if let Err(e) = text.parse::<toml_edit::Value>() {
            rejected += 1;
            check_error(text, e.message(), e.span(), &e.to_string(), &format!("{:?}", e), "Value::from_str")?;
        }
        if let Err(e) = text.parse::<toml_edit::Key>() {
            rejected += 1;
            check_error(text, e.message(), e.span(), &e.to_string(), &format!("{:?}", e), "Key::from_str")?;
        }
        if let Err(e) = toml_edit::Key::parse(text) {
            rejected += 1;
            check_error(text, e.message(), e.span(), &e.to_string(), &format!("{:?}", e), "Key::parse")?;
        }
        if let Err(e) = text.parse::<toml_edit::de::ValueDeserializer>() {
            rejected += 1;
            check_error(text, e.message(), e.span(), &e.to_string(), &format!("{:?}", e), "toml_edit::de::ValueDeserializer::from_str")?;
        }
        if let Err(e) = toml::Value::deserialize(toml::de::ValueDeserializer::new(text)) {
            rejected += 1;
            check_error(text, e.message(), e.span(), &e.to_string(), &format!("{:?}", e), "toml::de::ValueDeserializer")?;
        }
        if let Err(e) = text.parse::<toml_datetime::Datetime>() {
            rejected += 1;
            if e.to_string().trim().is_empty() {
                return Err((None, "Datetime::from_str: error with an empty rendering".into()));
            }
        }
        Ok(rejected)
    });
    match r {
        Ok(Ok(0)) => acc.bump("accepted-by-every-entry-point"),
        Ok(Ok(_)) => {
            acc.bump("rejected-with-located-error");
            acc.nontrivial(bytes);
            acc.sample(|| format!("{:?}", text));
        }
        Ok(Err((class, e))) => {
            acc.nontrivial(bytes);
            acc.viol(uni, text.to_string(), class, e)
        }
        Err(p) => {
            acc.panics += 1;
            acc.viol(uni, text.to_string(), None, format!("panic while building / rendering the error: {}", p));
        }
    }
}

// ---- (b) typed mismatches

#[derive(Deserialize, Debug)]
#[allow(dead_code)]
struct L0<T> {
    x: T,
}
#[derive(Deserialize, Debug)]
#[allow(dead_code)]
struct L1<T> {
    t: L0<T>,
}
#[derive(Deserialize, Debug)]
#[allow(dead_code)]
struct L2<T> {
    t: L1<T>,
}
#[derive(Deserialize, Debug)]
#[allow(dead_code)]
struct A1<T> {
    a: Vec<L0<T>>,
}
#[derive(Deserialize, Debug)]
#[allow(dead_code)]
struct V1<T> {
    x: Vec<T>,
}
#[derive(Deserialize, Debug)]
#[allow(dead_code)]
struct O1<T> {
    t: Option<L0<T>>,
}
#[derive(Deserialize, Debug)]
#[allow(dead_code)]
struct Nt<T>(L0<T>);
#[derive(Deserialize, Debug)]
#[allow(dead_code)]
struct N1<T> {
    t: Nt<T>,
}
#[derive(Deserialize, Debug)]
#[allow(dead_code)]
struct OA<T> {
    a: Option<Vec<Option<L0<T>>>>,
}
/// a newtype STRUCT as the target for the whole document (not transparent): the document still is the source
#[derive(Deserialize, Debug)]
#[allow(dead_code)]
struct RN0<T>(L0<T>);
#[derive(Deserialize, Debug)]
#[allow(dead_code)]
struct RN1<T>(L1<T>);
#[derive(Deserialize, Debug)]
#[allow(dead_code)]
enum En {
    Unit,
    New(i64),
}

/// (document, key path of the value under test, index path inside arrays)
fn layouts(lit: &str) -> Vec<(String, &'static str, Vec<&'static str>)> {
    vec![
        (format!("x = {}\n", lit), "L0", vec!["x"]),
        (format!("x = {} # é\n", lit), "RN0", vec!["x"]),
        (format!("[t]\nx = {}\n", lit), "RN1", vec!["t", "x"]),
        (format!("t = {{ x = {} }}\n", lit), "RN1", vec!["t", "x"]),
        (format!("# é😀\nx = {} # é\n", lit), "L0", vec!["x"]),
        (format!("t.x = {}", lit), "L1", vec!["t", "x"]),
        (format!("[t]\n'x' = {}\n", lit), "L1", vec!["t", "x"]),
        (format!("t = {{ x = {} }}\n", lit), "L1", vec!["t", "x"]),
        (format!("[t.t]\n\"x\" = {}\n", lit), "L2", vec!["t", "t", "x"]),
        (format!("t.t.x = {}\n", lit), "L2", vec!["t", "t", "x"]),
        (format!("t = {{ t = {{ x = {} }} }}\n", lit), "L2", vec!["t", "t", "x"]),
        (format!("t = {{ t.x = {} }} # é\n", lit), "L2", vec!["t", "t", "x"]),
        (format!("# é\n[[a]]\nx = {}\n", lit), "A1", vec!["a", "x"]),
        (format!("a = [{{x = {}}}]\n", lit), "A1", vec!["a", "x"]),
        (format!("x = [{}]\n", lit), "V1", vec!["x"]),
        (format!("[t]\nx = {}\n", lit), "O1", vec!["t", "x"]),
        (format!("t = {{ x = {} }} # é\n", lit), "O1", vec!["t", "x"]),
        (format!("t.x = {}\n", lit), "O1", vec!["t", "x"]),
        (format!("[t]\nx = {}\n", lit), "N1", vec!["t", "x"]),
        (format!("t = {{ x = {} }}\n", lit), "N1", vec!["t", "x"]),
        (format!("[[a]]\nx = {}\n", lit), "OA", vec!["a", "x"]),
        (format!("a = [ {{ x = {} }} ]\n", lit), "OA", vec!["a", "x"]),
    ]
}

const LITS: [(&str, &str); 9] = [("1", "int"), ("'é'", "str"), ("true", "bool"), ("1.5", "float"), ("[1]", "arr"), ("1979-05-27", "dt"), ("{x = 1}", "tab"), ("\"Unit\"", "str"), ("{New = 1}", "tab")];

/// what a route reports: (route, has the source text, result)
pub struct EI {
    message: String,
    span: Option<std::ops::Range<usize>>,
    shown: String,
    dbg: String,
}
fn ei_t(e: toml::de::Error) -> EI {
    EI { message: e.message().to_string(), span: e.span(), shown: e.to_string(), dbg: format!("{:?}", e) }
}
fn ei_e(e: toml_edit::de::Error) -> EI {
    EI { message: e.message().to_string(), span: e.span(), shown: e.to_string(), dbg: format!("{:?}", e) }
}
type RouteRes = (&'static str, bool, Result<(), EI>);

/// every decoding route for a whole document into `$ty`
macro_rules! doc_routes {
    ($ty:ty, $doc:expr) => {{
        use serde::Deserialize as _;
        let doc: &str = $doc;
        let mut v: Vec<RouteRes> = Vec::new();
        v.push(("toml::from_str", true, toml::from_str::<$ty>(doc).map(|_| ()).map_err(ei_t)));
        v.push(("toml_edit::de::from_str", true, toml_edit::de::from_str::<$ty>(doc).map(|_| ()).map_err(ei_e)));
        v.push(("toml_edit::de::from_slice", true, toml_edit::de::from_slice::<$ty>(doc.as_bytes()).map(|_| ()).map_err(ei_e)));
        v.push(("toml_edit::de::from_document(ImDocument)", true, toml_edit::de::from_document::<$ty>(toml_edit::ImDocument::parse(doc.to_string()).unwrap()).map(|_| ()).map_err(ei_e)));
        v.push(("str::parse::<toml_edit::de::Deserializer>", true, doc.parse::<toml_edit::de::Deserializer>().map_err(ei_e).and_then(|d| <$ty>::deserialize(d).map(|_| ()).map_err(ei_e))));
        v.push(("toml_edit::de::Deserializer::parse", true, toml_edit::de::Deserializer::parse(doc).map_err(ei_e).and_then(|d| <$ty>::deserialize(d).map(|_| ()).map_err(ei_e))));
        v.push(("toml::Deserializer::new", true, <$ty>::deserialize(toml::Deserializer::new(doc)).map(|_| ()).map_err(ei_t)));
        v.push(("toml::Value::try_into", false, toml::from_str::<toml::Value>(doc).unwrap().try_into::<$ty>().map(|_| ()).map_err(ei_t)));
        v.push(("toml::Table::try_into", false, toml::from_str::<toml::Table>(doc).unwrap().try_into::<$ty>().map(|_| ()).map_err(ei_t)));
        v.push(("toml_edit::de::from_document(DocumentMut)", false, toml_edit::de::from_document::<$ty>(doc.parse::<toml_edit::DocumentMut>().unwrap()).map(|_| ()).map_err(ei_e)));
        v
    }};
}

/// routes that start from ONE value of the document (root key `$key`), decoded into `$ty`: none of them has the
/// source text, whether or not the value still carries its spans
macro_rules! value_routes {
    ($ty:ty, $doc:expr, $key:expr) => {{
        use serde::de::IntoDeserializer as _;
        use serde::Deserialize as _;
        let doc: &str = $doc;
        let mut v: Vec<RouteRes> = Vec::new();
        let im = toml_edit::ImDocument::parse(doc.to_string()).unwrap();
        if let Some(val) = im.get($key).and_then(|i| i.as_value()) {
            v.push(("spanned Value (from ImDocument).into_deserializer()", false, <$ty>::deserialize(val.clone().into_deserializer()).map(|_| ()).map_err(ei_e)));
            let dm = im.clone().into_mut();
            let val2 = dm.get($key).and_then(|i| i.as_value()).unwrap().clone();
            v.push(("despanned Value (from DocumentMut).into_deserializer()", false, <$ty>::deserialize(val2.clone().into_deserializer()).map(|_| ()).map_err(ei_e)));
            let mut bare = val2.clone();
            bare.decor_mut().clear();
            let text = bare.to_string();
            v.push(("toml::de::ValueDeserializer::new(text)", false, <$ty>::deserialize(toml::de::ValueDeserializer::new(text.trim())).map(|_| ()).map_err(ei_t)));
            v.push(("str::parse::<toml_edit::de::ValueDeserializer>", false, text.trim().parse::<toml_edit::de::ValueDeserializer>().map_err(ei_e).and_then(|d| <$ty>::deserialize(d).map(|_| ()).map_err(ei_e))));
            if let Ok(tv) = toml::Value::try_from(toml::from_str::<toml::Table>(doc).unwrap().get($key).unwrap()) {
                v.push(("toml::Value (sub-value).try_into", false, tv.try_into::<$ty>().map(|_| ()).map_err(ei_t)));
            }
        }
        v
    }};
}

macro_rules! try_targets {
    ($shape:ident, $doc:expr, $f:expr) => {{
        $f(stringify!(i64), doc_routes!($shape<i64>, $doc));
        $f(stringify!(String), doc_routes!($shape<String>, $doc));
        $f(stringify!(bool), doc_routes!($shape<bool>, $doc));
        $f(stringify!(f64), doc_routes!($shape<f64>, $doc));
        $f(stringify!(u8), doc_routes!($shape<u8>, $doc));
        $f(stringify!(Vec<i64>), doc_routes!($shape<Vec<i64>>, $doc));
        $f(stringify!(Datetime), doc_routes!($shape<toml_datetime::Datetime>, $doc));
        $f(stringify!(L0<i64>), doc_routes!($shape<L0<i64>>, $doc));
        $f(stringify!(En), doc_routes!($shape<En>, $doc));
    }};
}
macro_rules! try_value_targets {
    ($shape:ident, $doc:expr, $key:expr, $f:expr) => {{
        $f(stringify!(i64), value_routes!($shape<i64>, $doc, $key));
        $f(stringify!(String), value_routes!($shape<String>, $doc, $key));
        $f(stringify!(bool), value_routes!($shape<bool>, $doc, $key));
        $f(stringify!(f64), value_routes!($shape<f64>, $doc, $key));
        $f(stringify!(u8), value_routes!($shape<u8>, $doc, $key));
        $f(stringify!(Vec<i64>), value_routes!($shape<Vec<i64>>, $doc, $key));
        $f(stringify!(Datetime), value_routes!($shape<toml_datetime::Datetime>, $doc, $key));
        $f(stringify!(L0<i64>), value_routes!($shape<L0<i64>>, $doc, $key));
        $f(stringify!(En), value_routes!($shape<En>, $doc, $key));
    }};
}
type VecL0<T> = Vec<L0<T>>;

/// mismatches where the offending value is a TABLE defined by its own header: the error must point at that header (where
/// the table's span starts), whatever was declared before it - in particular a sub-table declared BEFORE its parent
fn typed_tables(rep: &mut Report) {
    let t0 = std::time::Instant::now();
    let mut acc = Acc::default();
    // (document, the header the error must start at)
    let docs: Vec<(String, &str)> = vec![
        ("[x]\ny = 1\n".into(), "[x]"),
        ("# é\nk = 1\n[x] # c\ny = 1\nz = 2\n".into(), "[x]"),
        ("[x.b]\nz = 1\n[x]\ny = 2\n".into(), "[x]\n"),
        ("# é😀\n[x.b.c]\nz = 1\n\n[x]\ny = 2\nw = 3\n[q]\n".into(), "[x]\n"),
        ("[x]\ny = 2\n[x.b]\nz = 1\n".into(), "[x]\n"),
        ("[[x.b]]\nz = 1\n[x]\ny = 2\n".into(), "[x]\n"),
        ("[q]\n[x.b]\nz = 1\n[x.c]\n[x]\ny = 2\n".into(), "[x]\n"),
    ];
    for (doc, header) in &docs {
        let want = doc.find(header).expect("header");
        let mut judge = |target: &str, routes: Vec<RouteRes>| {
            for (route, has_src, res) in routes {
                if !has_src {
                    continue;
                }
                acc.evals += 1;
                let label = format!("{:?} into {} via {}", doc, target, route);
                acc.nontrivial(label.as_bytes());
                match res {
                    Ok(()) => acc.viol("U-typed-table", label, None, "a table was accepted where the target type has no table".into()),
                    Err(e) => {
                        if let Err((c, m)) = check_error(doc, &e.message, e.span.clone(), &e.shown, &e.dbg, route) {
                            acc.viol("U-typed-table", label, c, m);
                            continue;
                        }
                        match e.span {
                            None => acc.viol("U-typed-table", label, None, format!("error without a span although the source is available: {}", e.message)),
                            Some(sp) if sp.start != want => acc.viol("U-typed-table", label, None, format!("the error about table x starts at byte {} (span {:?}), the table's own header is at byte {} ({})", sp.start, sp, want, e.message)),
                            Some(_) => acc.bump("table-mismatch-located-at-its-header"),
                        }
                    }
                }
            }
        };
        // x is a table where a scalar / array is wanted; x lacks a required field
        judge("L0<i64>", doc_routes!(L0<i64>, doc));
        judge("L0<String>", doc_routes!(L0<String>, doc));
        judge("L0<Vec<i64>>", doc_routes!(L0<Vec<i64>>, doc));
        #[derive(Deserialize, Debug)]
        #[allow(dead_code)]
        struct Need {
            y: i64,
            required: i64,
        }
        judge("L0<{y, required}> (missing field)", doc_routes!(L0<Need>, doc));
    }
    let n = acc.evals;
    rep.absorb("U-typed-table", "7 documents whose table x is defined by its own header before / after / between its sub-tables x 4 targets that fail AT the table x 7 routes with the source text: the error starts at the table's own header", n, true, t0, acc);
}

pub fn typed(rep: &mut Report) {
    let t0 = std::time::Instant::now();
    let mut cases: Vec<String> = Vec::new();
    for (lit, _) in LITS {
        for (doc, shape, path) in layouts(lit) {
            cases.push(format!("{}\u{1}{}\u{1}{}\u{1}{}", doc, shape, path.join("."), lit));
        }
    }
    let pairs = std::sync::atomic::AtomicU64::new(0);
    let f = |case: &str, acc: &mut Acc| {
        let parts: Vec<&str> = case.split('\u{1}').collect();
        let (doc, shape, path, lit) = (parts[0], parts[1], parts[2], parts[3]);
        // the value token under test, located by the specification model
        let Verdict::Valid { tree, .. } = ref_parse(doc) else { panic!("bad typed seed {:?}", doc) };
        fn find<'a>(n: &'a refmodel::Node, path: &[&str]) -> Option<&'a refmodel::Node> {
            match &n.val {
                Val::Table(t) => {
                    if path.is_empty() {
                        return Some(n);
                    }
                    let e = t.iter().find(|e| e.key == path[0])?;
                    find(&e.node, &path[1..])
                }
                Val::Array(a) => {
                    if path.is_empty() {
                        return Some(n);
                    }
                    find(a.last()?, path)
                }
                _ => {
                    if path.is_empty() {
                        Some(n)
                    } else {
                        None
                    }
                }
            }
        }
        let keys: Vec<&str> = path.split('.').collect();
        let node = find(&tree, &keys).expect("typed seed path");
        let node = if shape == "V1" {
            match &node.val {
                Val::Array(a) => a.last().unwrap(),
                _ => node,
            }
        } else {
            node
        };
        let tok = node.span.expect("value token");
        let scalar_lit = !matches!(lit, "[1]" | "{x = 1}" | "{New = 1}");
        // `rel_path`: the key path as seen from where the route starts (whole document or one root value)
        let judge = |acc: &mut Acc, target: &str, rel_path: &str, routes: Vec<RouteRes>| {
            if routes.is_empty() {
                return;
            }
            let oks = routes.iter().filter(|r| r.2.is_ok()).count();
            if oks == routes.len() {
                acc.evals += routes.len() as u64;
                acc.bump("types-compatible");
                return;
            }
            for (route, has_src, res) in routes {
                acc.evals += 1;
                pairs.fetch_add(1, std::sync::atomic::Ordering::Relaxed);
                let label = format!("{:?} into {}<{}> via {}", doc, shape, target, route);
                let e = match res {
                    // whether the routes agree on success is C13's question, not this property's
                    Ok(()) => {
                        acc.bump("routes-disagree-on-success (left to C13)");
                        continue;
                    }
                    Err(e) => e,
                };
                acc.nontrivial(label.as_bytes());
                if has_src {
                    acc.bump("mismatch-located-by-span");
                    if let Err((c, m)) = check_error(doc, &e.message, e.span.clone(), &e.shown, &e.dbg, route) {
                        acc.viol("U-typed", label, c, m);
                        continue;
                    }
                    match e.span {
                        None => acc.viol("U-typed", label, None, format!("deserialization error without a span although the source is available: {}", e.message)),
                        Some(sp) => {
                            // the error may sit at the value under test or at something inside it (e.g. the element of an array)
                            let inside = sp.start >= tok.start && sp.end <= tok.end;
                            let exact = (sp.start, sp.end) == (tok.start, tok.end);
                            if !(exact || (!scalar_lit && inside)) {
                                acc.viol("U-typed", label, None, format!("error span {:?} is not the offending value's span {}..{} ({})", sp, tok.start, tok.end, e.message));
                            }
                        }
                    }
                } else {
                    acc.bump("mismatch-located-by-key-path");
                    // a document that was made editable (or a value taken from one) has no spans any more: an error
                    // raised from it must not carry a stale range
                    if (route.contains("DocumentMut") || route.contains("despanned")) && e.span.is_some() {
                        acc.viol("U-typed", label, None, format!("the error carries the range {:?} although it was raised from a document / value whose spans were dropped by into_mut(): a stale location ({})", e.span, e.message));
                        continue;
                    }
                    if e.message.trim().is_empty() {
                        acc.viol("U-typed", label, None, "error with an empty message".into());
                    } else if !rel_path.is_empty() && !e.shown.contains(&format!("in `{}", rel_path)) && !(e.span.is_some() && parse_line_col(&e.shown).is_some()) {
                        // (located by span + rendered position instead: the route attached a text after all - also fine)
                        acc.viol("U-typed", label, None, format!("the source text is not available on this route and the error does not carry the key path `{}`: {:?}", rel_path, e.shown));
                    }
                }
            }
        };
        {
            let mut check = |target: &str, routes: Vec<RouteRes>| judge(acc, target, path, routes);
            match shape {
                "L0" => try_targets!(L0, doc, check),
                "RN0" => try_targets!(RN0, doc, check),
                "RN1" => try_targets!(RN1, doc, check),
                "L1" => try_targets!(L1, doc, check),
                "L2" => try_targets!(L2, doc, check),
                "A1" => try_targets!(A1, doc, check),
                "V1" => try_targets!(V1, doc, check),
                "O1" => try_targets!(O1, doc, check),
                "N1" => try_targets!(N1, doc, check),
                "OA" => try_targets!(OA, doc, check),
                _ => unreachable!(),
            }
        }
        // the same mismatch reached from one root value (an inline table / array) instead of from the document
        let rel = keys[1..].join(".");
        let mut check = |target: &str, routes: Vec<RouteRes>| judge(acc, target, &rel, routes);
        match shape {
            "L1" | "RN1" => try_value_targets!(L0, doc, keys[0], check),
            "L2" => try_value_targets!(L1, doc, keys[0], check),
            "A1" => try_value_targets!(VecL0, doc, keys[0], check),
            _ => {}
        }
    };
    let (total, mut acc) = sweep_list(&cases, &f);
    acc.evals -= total; // sweep_list counted the seed lines; the closure counted the real (document, target, route) triples
    let n = acc.evals;
    rep.absorb("U-typed", "9 literals x 22 layouts (inline, dotted, header, nested, array of tables, Option<struct>, newtype, Option<Vec<Option<struct>>>, multi-byte neighbours) x 9 target types x every decoding route (7 with the source text: span demanded; 3 document routes and 5 single-value routes without it: key path demanded)", n, true, t0, acc);
}

/// multi-byte seeds: every truncation and every single-character edit
fn mb_cases() -> Vec<String> {
    let seeds = [
        "é = 'é😀'\n[\"😀\"]\n'é' = [ 1, \"é\" ] # é\n",
        "# é😀\nk = \"\"\"é\n😀\"\"\"\n[[é.😀]]\nx = { 'é' = 1979-05-27T07:32:00Z }\n",
        "k='é'\r\n😀 = 1\r\n",
        "a = \"é\\u00e9\" # 😀😀\nb.'é'.c = [ 'é' , ] # é",
    ];
    let mut out = std::collections::BTreeSet::new();
    for s in seeds {
        let chars: Vec<char> = s.chars().collect();
        for i in 0..=chars.len() {
            out.insert(chars[..i].iter().collect::<String>());
            for x in crate::universe::SIGMA14 {
                let mut t: String = chars[..i].iter().collect();
                t.push_str(x);
                t.extend(chars[i..].iter());
                out.insert(t);
                if i < chars.len() {
                    let mut t: String = chars[..i].iter().collect();
                    t.push_str(x);
                    t.extend(chars[i + 1..].iter());
                    out.insert(t);
                }
            }
            if i < chars.len() {
                let mut t: String = chars[..i].iter().collect();
                t.extend(chars[i + 1..].iter());
                out.insert(t);
            }
        }
    }
    out.into_iter().collect()
}

pub fn c15(tier: Tier) -> i32 {
    let mut rep = Report::new(
        "C15",
        tier,
        "model_checking",
        "every rejected text of each universe: TomlError and toml::de::Error must have a non-empty message, a span in bounds on char boundaries, panic-free Display/Debug, and a rendered 'line L, column C' equal to the reference position of span.start (characters, not bytes; one past the last line's end at end of input); every (document, mismatching target type) pair of the typed family: from_str error carries the offending value's span, Value::try_into error carries the key path; non-trivial = distinct rejected texts / failing pairs",
    );
    rep.assumptions = vec!["the reference position is computed independently: line = 1 + LFs before the offset, column = 1 + characters since the line start".into()];
    docu::run(&mut rep, tier, &["tok", "ctx", "corpus", "byte", "num", "dt", "stmt-small", "cp", "utf8", "bom"], &c15_eval);
    {
        let t0 = std::time::Instant::now();
        let cases = mb_cases();
        let f = |s: &str, acc: &mut Acc| c15_eval(s.as_bytes(), "U-mb", acc);
        let (total, acc) = sweep_list(&cases, &f);
        rep.absorb("U-mb", "4 multi-byte seed documents: every truncation and every single-character insert / substitute (SIGMA14) / delete", total, true, t0, acc);
    }
    {
        // errors far into a long line: columns around the widths of narrow counters / formatting arguments
        let t0 = std::time::Instant::now();
        let mut cases = Vec::new();
        for n in [100usize, 254, 255, 256, 257, 4095, 4096, 32767, 32768, 65533, 65534, 65535, 65536, 65537, 70000, 131072, 200000] {
            for (unit, tail) in [("x", "\" junk\n"), ("é", "\" junk\n"), ("x", "\"\nb = \n"), ("😀", "\" = = 1")] {
                cases.push(format!("a = \"{}{}", unit.repeat(n), tail));
                cases.push(format!("# first line\nb = 1\na = \"{}{}", unit.repeat(n), tail));
            }
            cases.push(format!("a = [{}] junk", "1,".repeat(n / 2)));
            cases.push(format!("{} = 1 junk", "k".repeat(n)));
            cases.push(format!("a = {{ b = [{}], c = 1 }} junk\n", "1, ".repeat(n / 3)));
        }
        let f = |s: &str, acc: &mut Acc| c15_eval(s.as_bytes(), "U-long-line", acc);
        let (total, acc) = sweep_list(&cases, &f);
        rep.absorb("U-long-line", "errors located 100 ... 200 000 characters into one line (1-, 2- and 4-byte characters; first and third line; strings, arrays, keys, inline tables)", total, true, t0, acc);
    }
    docu::run(&mut rep, tier, &["raw", "vtok"], &c15_value_eval);
    typed(&mut rep);
    typed_tables(&mut rep);
    rep.finish()
}

pub fn replay(path: &str) -> i32 {
    let j = read_replay(path);
    let input = j["input"].as_str().unwrap_or("").to_string();
    let mut acc = Acc::default();
    if j["universe"].as_str() == Some("U-typed") {
        println!("typed pair: {}", input);
        println!("replay: re-run `./run.sh C15 quick` for the typed family (cases are (document, type) pairs compiled into the check)");
        return 2;
    }
    let bytes = crate::c_docs::bytes_of_show(&input);
    c15_eval(&bytes, "replay", &mut acc);
    println!("input: {:?}", input);
    if let Ok(t) = std::str::from_utf8(&bytes) {
        if let Err(e) = t.parse::<DocumentMut>() {
            println!("error: span={:?} message={:?}\n{}", e.span(), e.message(), e);
            if let Some(sp) = e.span() {
                println!("reference position of span.start: {:?}", ref_pos(t, sp.start));
            }
        }
    }
    if acc.viols.is_empty() && acc.known.is_empty() {
        println!("replay: property holds on this case");
        0
    } else {
        for v in &acc.viols {
            println!("replay: {}", v.detail);
        }
        for (k, _) in &acc.known {
            println!("replay: known finding {}", k);
        }
        if acc.viols.is_empty() {
            return 0;
        }
        println!("VIOLATION property=C15 replay={}", path);
        1
    }
}
