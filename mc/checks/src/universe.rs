//! Enumerators for the universes of DESIGN.md section 4.  Everything here is deterministic and
//! complete for its stated parameters; nothing is sampled.

use crate::common::Acc;
use rayon::prelude::*;

/// Σ14: one representative per byte class the parser or the writer distinguishes inside strings.
pub const SIGMA14: [&str; 14] = ["a", " ", "\"", "'", "\\", "\n", "\r", "\t", "\u{0}", "\u{1f}", "\u{7f}", "#", "é", "😀"];

/// T24 token alphabet for U-tok (uniquely decodable, so distinct sequences are distinct documents).
pub const T24: [&str; 24] = ["a", "b", "=", "1", "\n", " ", ".", "[", "]", "\"a\"", "'b'", "{", "}", ",", "0", "-", "_", "e", ":", "true", "inf", "\r\n", "#c", "\"\"\""];

pub const NUM17: [&str; 17] = ["0", "1", "7", "9", "_", "+", "-", ".", "e", "E", "x", "o", "b", "a", "f", "i", "n"];

/// all sequences of exactly `n` tokens: `eval(text, index, acc)`; text = prefix + tokens + suffix
pub fn sweep_exact<F>(toks: &[&str], n: usize, prefix: &str, suffix: &str, eval: &F) -> (u64, Acc)
where
    F: Fn(&str, &mut Acc) + Sync,
{
    let k = toks.len() as u64;
    let total = k.checked_pow(n as u32).expect("universe size overflows u64");
    let acc = (0..total)
        .into_par_iter()
        .fold(
            || (Acc::default(), String::with_capacity(64)),
            |(mut acc, mut s), idx| {
                s.clear();
                s.push_str(prefix);
                let mut i = idx;
                // most significant digit first so that index order is lexicographic order
                let mut digits = [0usize; 32];
                for d in (0..n).rev() {
                    digits[d] = (i % k) as usize;
                    i /= k;
                }
                for d in 0..n {
                    s.push_str(toks[digits[d]]);
                }
                s.push_str(suffix);
                acc.evals += 1;
                eval(&s, &mut acc);
                (acc, s)
            },
        )
        .map(|(a, _)| a)
        .reduce(Acc::default, Acc::merge);
    (total, acc)
}

/// all sequences of `0..=n_max` tokens
pub fn sweep_upto<F>(toks: &[&str], n_max: usize, prefix: &str, suffix: &str, eval: &F) -> (u64, Acc)
where
    F: Fn(&str, &mut Acc) + Sync,
{
    let mut total = 0;
    let mut acc = Acc::default();
    for n in 0..=n_max {
        let (t, a) = sweep_exact(toks, n, prefix, suffix, eval);
        total += t;
        acc = acc.merge(a);
    }
    (total, acc)
}

/// an explicit list of cases
pub fn sweep_list<F>(cases: &[String], eval: &F) -> (u64, Acc)
where
    F: Fn(&str, &mut Acc) + Sync,
{
    let acc = cases
        .par_iter()
        .fold(Acc::default, |mut acc, s| {
            acc.evals += 1;
            eval(s, &mut acc);
            acc
        })
        .reduce(Acc::default, Acc::merge);
    (cases.len() as u64, acc)
}

pub fn sweep_bytes_list<F>(cases: &[Vec<u8>], eval: &F) -> (u64, Acc)
where
    F: Fn(&[u8], &mut Acc) + Sync,
{
    let acc = cases
        .par_iter()
        .fold(Acc::default, |mut acc, s| {
            acc.evals += 1;
            eval(s, &mut acc);
            acc
        })
        .reduce(Acc::default, Acc::merge);
    (cases.len() as u64, acc)
}

/// key paths of length <= l over `alpha`, plus the quoted-spelling variants of DESIGN 4 (first segment quoted)
pub fn key_paths(alpha: &[&str], l: usize, quoted: bool) -> Vec<String> {
    let mut out: Vec<Vec<String>> = vec![vec![]];
    let mut all: Vec<Vec<String>> = Vec::new();
    for _ in 0..l {
        let mut next = Vec::new();
        for p in &out {
            for a in alpha {
                let mut q = p.clone();
                q.push(a.to_string());
                next.push(q);
            }
        }
        all.extend(next.iter().cloned());
        out = next;
    }
    let mut res: Vec<String> = all.iter().map(|p| p.join(".")).collect();
    if quoted {
        // the first letter of the alphabet in basic-quoted spelling alone and literal-quoted at the head of a 2-path
        let a = alpha[0];
        res.push(format!("\"{}\"", a));
        if l >= 2 {
            res.push(format!("'{}'.{}", a, alpha[alpha.len() - 1]));
        }
    }
    res
}

pub fn statements(alpha: &[&str], l: usize, quoted: bool) -> Vec<String> {
    let mut v = Vec::new();
    for p in key_paths(alpha, l, quoted) {
        v.push(format!("[{}]\n", p));
        v.push(format!("[[{}]]\n", p));
        v.push(format!("{} = 1\n", p));
        v.push(format!("{} = {{b.a = 1}}\n", p));
        v.push(format!("{} = [1]\n", p));
    }
    v
}

/// lexical contexts for U-ctx: (name, prefix, suffix, extra alphabet)
pub fn contexts() -> Vec<(&'static str, &'static str, &'static str, Vec<&'static str>)> {
    vec![
        ("basic", "k=\"", "\"\n", vec!["u", "0", "n", "F"]),
        ("literal", "k='", "'\n", vec![]),
        ("mlbasic", "k=\"\"\"", "\"\"\"\n", vec!["u", "0", "n"]),
        ("mlliteral", "k='''", "'''\n", vec![]),
        ("comment", "k=1#", "\n", vec![]),
        ("key", "", "=1\n", vec![".", "-"]),
        ("trailer", "k=1", "", vec![",", "]", "="]),
        ("header", "[", "]\n", vec![".", "]", "["]),
        ("array", "k=[", "]\n", vec![",", "1", "["]),
        ("inline", "k={", "}\n", vec![",", "=", "1", "."]),
    ]
}

pub fn ctx_alphabet(extra: &[&'static str]) -> Vec<&'static str> {
    let mut v: Vec<&'static str> = SIGMA14.to_vec();
    for e in extra {
        if !v.contains(e) {
            v.push(e);
        }
    }
    v
}

/// toml-test 1.0.0 corpus: (name, bytes, expected-valid)
pub fn corpus() -> Vec<(String, Vec<u8>, bool)> {
    let mut out = Vec::new();
    let versions = toml_test_data::version("1.0.0");
    let listed: std::collections::HashSet<&std::path::Path> = versions.collect();
    for v in toml_test_data::valid() {
        if listed.contains(v.name) {
            out.push((v.name.display().to_string(), v.fixture.to_vec(), true));
        }
    }
    for v in toml_test_data::invalid() {
        if listed.contains(v.name) {
            out.push((v.name.display().to_string(), v.fixture.to_vec(), false));
        }
    }
    out
}
