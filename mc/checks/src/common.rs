//! Shared machinery: accumulators, violation triage against known_findings.txt, evidence, replay files.

use std::collections::BTreeMap;
use std::io::Write;
use std::path::PathBuf;
use std::time::Instant;

pub fn verif_dir() -> String {
    std::env::var("VERIF_DIR").unwrap_or_else(|_| "/verif".to_string())
}

#[derive(Clone, Copy, Debug, PartialEq, Eq)]
pub enum Tier {
    Quick,
    Thorough,
}
impl Tier {
    pub fn name(self) -> &'static str {
        match self {
            Tier::Quick => "quick",
            Tier::Thorough => "thorough",
        }
    }
    pub fn pick<T>(self, q: T, t: T) -> T {
        match self {
            Tier::Quick => q,
            Tier::Thorough => t,
        }
    }
}

#[derive(Clone, Debug)]
pub struct Viol {
    /// the failing case, written out (input text, op list, value...)
    pub input: String,
    /// precise recogniser class, if one of the check's recognisers claims it
    pub class: Option<&'static str>,
    pub detail: String,
    /// which universe it came from
    pub universe: &'static str,
}

pub const VIOL_CAP: usize = 400;

#[derive(Default, Clone)]
pub struct Acc {
    pub evals: u64,
    pub nontrivial_hashes: Vec<u64>,
    pub nontrivial_overflow: u64,
    pub hist: BTreeMap<&'static str, u64>,
    pub viols: Vec<Viol>,
    pub viol_total: u64,
    pub samples: Vec<String>,
    pub panics: u64,
    /// violations matched against known_findings.txt at the moment they were found: key -> count
    pub known: BTreeMap<String, u64>,
    /// unknown violations per recogniser class ("-" = unclassified) and universe
    pub classes: BTreeMap<String, u64>,
}

static KNOWN: std::sync::OnceLock<Vec<Known>> = std::sync::OnceLock::new();

/// must be called once before any violation is recorded
pub fn init_known(prop: &str) {
    let _ = KNOWN.set(load_known(prop));
}
fn known() -> &'static [Known] {
    KNOWN.get().map(|v| v.as_slice()).unwrap_or(&[])
}

pub fn hash64(s: &[u8]) -> u64 {
    // FNV-1a 64
    let mut h: u64 = 0xcbf29ce484222325;
    for b in s {
        h ^= *b as u64;
        h = h.wrapping_mul(0x100000001b3);
    }
    h
}

const HASH_CAP: usize = 60_000_000;

impl Acc {
    pub fn bump(&mut self, k: &'static str) {
        *self.hist.entry(k).or_insert(0) += 1;
    }
    pub fn bump_by(&mut self, k: &'static str, n: u64) {
        *self.hist.entry(k).or_insert(0) += n;
    }
    pub fn nontrivial(&mut self, input: &[u8]) {
        if self.nontrivial_hashes.len() < HASH_CAP {
            self.nontrivial_hashes.push(hash64(input));
        } else {
            self.nontrivial_overflow += 1;
        }
    }
    pub fn sample(&mut self, s: impl FnOnce() -> String) {
        if self.samples.len() < 6 {
            self.samples.push(s());
        }
    }
    pub fn viol(&mut self, universe: &'static str, input: String, class: Option<&'static str>, detail: String) {
        let v = Viol { input, class, detail, universe };
        let keys = viol_keys(&v);
        if let Some(k) = known().iter().find(|k| keys.iter().any(|x| *x == k.key)) {
            *self.known.entry(k.key.clone()).or_insert(0) += 1;
            return;
        }
        self.viol_total += 1;
        *self.classes.entry(format!("{} / {}", v.class.unwrap_or("-"), v.universe)).or_insert(0) += 1;
        // keep unclassified ones preferentially: they are what a reader needs to see
        if self.viols.len() < VIOL_CAP {
            self.viols.push(v);
        } else if v.class.is_none() {
            if let Some(pos) = self.viols.iter().position(|x| x.class.is_some()) {
                self.viols[pos] = v;
            }
        }
    }
    pub fn merge(mut self, mut o: Acc) -> Acc {
        self.evals += o.evals;
        self.panics += o.panics;
        if self.nontrivial_hashes.len() + o.nontrivial_hashes.len() <= HASH_CAP {
            self.nontrivial_hashes.append(&mut o.nontrivial_hashes);
        } else {
            self.nontrivial_overflow += o.nontrivial_hashes.len() as u64;
        }
        self.nontrivial_overflow += o.nontrivial_overflow;
        for (k, v) in o.hist {
            *self.hist.entry(k).or_insert(0) += v;
        }
        self.viol_total += o.viol_total;
        for v in o.viols {
            if self.viols.len() < VIOL_CAP {
                self.viols.push(v);
            } else if v.class.is_none() {
                if let Some(pos) = self.viols.iter().position(|x| x.class.is_some()) {
                    self.viols[pos] = v;
                }
            }
        }
        for s in o.samples {
            if self.samples.len() < 6 {
                self.samples.push(s);
            }
        }
        for (k, v) in o.known {
            *self.known.entry(k).or_insert(0) += v;
        }
        for (k, v) in o.classes {
            *self.classes.entry(k).or_insert(0) += v;
        }
        self
    }
    pub fn distinct_nontrivial(&mut self) -> u64 {
        self.nontrivial_hashes.sort_unstable();
        self.nontrivial_hashes.dedup();
        self.nontrivial_hashes.len() as u64 + self.nontrivial_overflow
    }
}

#[derive(Clone, Debug)]
pub struct Known {
    pub property: String,
    pub key: String,
    pub what: String,
}

pub fn load_known(prop: &str) -> Vec<Known> {
    let path = format!("{}/known_findings.txt", verif_dir());
    let text = std::fs::read_to_string(&path).unwrap_or_default();
    let mut out = Vec::new();
    for line in text.lines() {
        let line = line.trim();
        if !line.starts_with("finding:") {
            continue; // `fixed:` lines and comments suppress nothing
        }
        let rest = line["finding:".len()..].trim();
        let mut parts = rest.splitn(3, ' ');
        let p = parts.next().unwrap_or("");
        let k = parts.next().unwrap_or("");
        let what = parts.next().unwrap_or("").to_string();
        let (Some(p), Some(k)) = (p.strip_prefix("property="), k.strip_prefix("key=")) else { continue };
        if p == prop {
            out.push(Known { property: p.to_string(), key: k.to_string(), what });
        }
    }
    out
}

/// key under which a violation is looked up: `class:<name>` or `input:<json string without spaces>`
pub fn viol_keys(v: &Viol) -> Vec<String> {
    let mut ks = Vec::new();
    if let Some(c) = v.class {
        ks.push(format!("class:{}", c));
    }
    ks.push(format!("input:{}", json_nospace(&v.input)));
    ks
}

pub fn json_nospace(s: &str) -> String {
    // JSON string with spaces written as   so that a key never contains a blank
    serde_json::to_string(s).unwrap().replace(' ', "\\u0020")
}

pub struct Universe {
    pub name: String,
    pub params: String,
    pub size: u64,
    pub completed: bool,
    pub wall_s: f64,
}

pub struct Report {
    pub prop: &'static str,
    pub tier: Tier,
    pub level: &'static str,
    pub rule: String,
    pub start: Instant,
    pub acc: Acc,
    pub universes: Vec<Universe>,
    pub assumptions: Vec<String>,
    pub extra: BTreeMap<String, serde_json::Value>,
    /// states/transitions for state-space engines (else filled from evaluations)
    pub states: Option<u64>,
    pub transitions: Option<u64>,
    pub traces_validated: u64,
    pub exhaustive: bool,
    pub caps: Vec<String>,
    /// a run in which nothing non-trivial happened is a machinery error
    pub min_nontrivial: u64,
}

impl Report {
    pub fn new(prop: &'static str, tier: Tier, level: &'static str, rule: &str) -> Report {
        Report {
            prop,
            tier,
            level,
            rule: rule.to_string(),
            start: Instant::now(),
            acc: Acc::default(),
            universes: Vec::new(),
            assumptions: Vec::new(),
            extra: BTreeMap::new(),
            states: None,
            transitions: None,
            traces_validated: 0,
            exhaustive: true,
            caps: Vec::new(),
            min_nontrivial: 2,
        }
    }
    pub fn absorb(&mut self, name: &str, params: &str, size: u64, completed: bool, t0: Instant, acc: Acc) {
        eprintln!("[{}] universe {:<28} {:>12} cases  {:>7.2}s  viol={} {}", self.prop, name, size, t0.elapsed().as_secs_f64(), acc.viol_total, params);
        self.universes.push(Universe { name: name.to_string(), params: params.to_string(), size, completed, wall_s: t0.elapsed().as_secs_f64() });
        if !completed {
            self.exhaustive = false;
            self.caps.push(format!("{} not completed", name));
        }
        let a = std::mem::take(&mut self.acc);
        self.acc = a.merge(acc);
    }

    /// triage, write replays + evidence, print verdict lines, return exit code
    pub fn finish(mut self) -> i32 {
        let known = load_known(self.prop);
        let mut known_hits: BTreeMap<String, (u64, String)> = BTreeMap::new();
        for (k, n) in &self.acc.known {
            let what = known.iter().find(|x| x.key == *k).map(|x| x.what.clone()).unwrap_or_default();
            known_hits.insert(k.clone(), (*n, what));
        }
        let mut unknown: Vec<Viol> = self.acc.viols.clone();
        // violations beyond the cap were not triaged individually: if all triaged ones are known and of a class,
        // the overflow is attributed to nothing and reported as unknown to stay sound.
        let untriaged = self.acc.viol_total - self.acc.viols.len() as u64;
        let distinct = self.acc.distinct_nontrivial();
        let evals = self.acc.evals;
        let wall = self.start.elapsed().as_secs_f64();

        let replay_dir = PathBuf::from(format!("{}/replays/{}", verif_dir(), self.prop));
        let _ = std::fs::create_dir_all(&replay_dir);
        let mut viol_lines = Vec::new();
        unknown.sort_by(|a, b| (a.class.is_some(), a.input.len(), &a.input).cmp(&(b.class.is_some(), b.input.len(), &b.input)));
        for (k, n) in &self.acc.classes {
            eprintln!("[{}] unknown violations of class/universe {:<60} {}", self.prop, k, n);
        }
        for (i, v) in unknown.iter().enumerate().take(25) {
            let path = replay_dir.join(format!("viol_{:03}.json", i));
            let j = serde_json::json!({
                "property": self.prop, "universe": v.universe, "input": v.input, "class": v.class, "detail": v.detail,
                "replay": format!("./run.sh {} --replay {}", self.prop, path.display()),
            });
            let _ = std::fs::write(&path, serde_json::to_string_pretty(&j).unwrap());
            viol_lines.push(format!("VIOLATION property={} replay={}", self.prop, path.display()));
            eprintln!("--- violation {} [{}] class={:?}\n    input : {:?}\n    detail: {}", i, v.universe, v.class, v.input, v.detail);
        }
        let _ = untriaged; // violations beyond the cap are all unknown ones (known ones never enter the list)
        for (k, (n, what)) in &known_hits {
            println!("KNOWN-FINDING: property={} key={} cases={} {}", self.prop, k, n, what);
        }

        let mut cov = serde_json::Map::new();
        cov.insert("evaluations".into(), evals.into());
        cov.insert("distinct_nontrivial".into(), distinct.into());
        cov.insert("rule".into(), self.rule.clone().into());
        let samples: Vec<serde_json::Value> = self.acc.samples.iter().map(|s| serde_json::Value::String(s.clone())).collect();
        cov.insert("samples".into(), serde_json::Value::Array(samples));
        if let (Some(st), Some(tr)) = (self.states, self.transitions) {
            cov.insert("states".into(), st.into());
            cov.insert("transitions".into(), tr.into());
            cov.insert("traces_validated_against_impl".into(), self.traces_validated.into());
        }
        cov.insert("exhaustive".into(), self.exhaustive.into());
        cov.insert("caps_hit".into(), serde_json::json!(self.caps));
        cov.insert(
            "universes".into(),
            serde_json::Value::Array(
                self.universes
                    .iter()
                    .map(|u| serde_json::json!({"name": u.name, "params": u.params, "size": u.size, "completed": u.completed, "wall_s": (u.wall_s*100.0).round()/100.0}))
                    .collect(),
            ),
        );
        cov.insert("outcome_histogram".into(), serde_json::json!(self.acc.hist.iter().map(|(k, v)| (k.to_string(), *v)).collect::<BTreeMap<String, u64>>()));
        cov.insert("known_findings_matched".into(), serde_json::json!(known_hits.iter().map(|(k, (n, _))| (k.clone(), *n)).collect::<BTreeMap<String, u64>>()));
        cov.insert("violations_total".into(), self.acc.viol_total.into());
        cov.insert("panics_caught".into(), self.acc.panics.into());
        cov.insert(
            "explanation".into(),
            "stateless bounded-exhaustive enumeration on the real code: every case is one execution (state = case, transition = one run through the entry points, trace validated = compared with the oracle); for explicit-state engines states/transitions are the search's own counts".into(),
        );
        for (k, v) in std::mem::take(&mut self.extra) {
            cov.insert(k, v);
        }
        let seed: i64 = std::env::var("VERIF_SEED").ok().and_then(|s| s.parse().ok()).unwrap_or(0);
        let ev = serde_json::json!({
            "property_id": self.prop,
            "tier": self.tier.name(),
            "seed": seed,
            "level": self.level,
            "coverage": serde_json::Value::Object(cov),
            "assumptions": self.assumptions,
            "wall_s": (wall * 100.0).round() / 100.0,
            "violations": self.acc.viol_total,
        });
        let evpath = format!("{}/evidence/{}.json", verif_dir(), self.prop);
        let _ = std::fs::create_dir_all(format!("{}/evidence", verif_dir()));
        if let Err(e) = std::fs::write(&evpath, serde_json::to_string_pretty(&ev).unwrap() + "\n") {
            println!("MACHINERY-ERROR cannot write evidence {}: {}", evpath, e);
            return 2;
        }
        let _ = std::io::stdout().flush();
        println!(
            "[{}] tier={} evaluations={} distinct_nontrivial={} violations={} known={} exhaustive={} wall={:.1}s",
            self.prop,
            self.tier.name(),
            evals,
            distinct,
            unknown.len(),
            known_hits.len(),
            self.exhaustive,
            wall
        );
        if !viol_lines.is_empty() {
            for l in viol_lines {
                println!("{}", l);
            }
            return 1;
        }
        if self.acc.samples.is_empty() {
            println!("MACHINERY-ERROR the run recorded no sample case");
            return 2;
        }
        if distinct < self.min_nontrivial {
            println!("MACHINERY-ERROR vacuous run: distinct_nontrivial={} < {}", distinct, self.min_nontrivial);
            return 2;
        }
        0
    }
}

/// Run `f`, turning a panic into `Err(message)`.
pub fn guarded<T>(f: impl FnOnce() -> T) -> Result<T, String> {
    match std::panic::catch_unwind(std::panic::AssertUnwindSafe(f)) {
        Ok(v) => Ok(v),
        Err(p) => Err(if let Some(s) = p.downcast_ref::<&str>() {
            s.to_string()
        } else if let Some(s) = p.downcast_ref::<String>() {
            s.clone()
        } else {
            "panic (non-string payload)".to_string()
        }),
    }
}

pub fn quiet_panics() {
    std::panic::set_hook(Box::new(|_| {}));
}

pub fn esc(s: &str) -> String {
    format!("{:?}", s)
}

pub fn read_replay(path: &str) -> serde_json::Value {
    let t = std::fs::read_to_string(path).unwrap_or_else(|e| {
        println!("MACHINERY-ERROR cannot read replay {}: {}", path, e);
        std::process::exit(2)
    });
    serde_json::from_str(&t).unwrap_or_else(|e| {
        println!("MACHINERY-ERROR replay {} is not JSON: {}", path, e);
        std::process::exit(2)
    })
}


/// The nesting depth at which the library under test starts to refuse (toml_edit's `LIMIT`, 80 today), observed on
/// four reference constructs - nested arrays, nested inline tables, a dotted key at the top level and a dotted key
/// inside an inline table - and taken as the LARGEST of the four: a change that lowers the limit for one construct
/// only still shows, a change of the constant itself moves every expectation along with it.  Searched up to 4096 on
/// a large stack; "never refuses" counts as 4096.
pub fn calibrated_limit() -> usize {
    static L: std::sync::OnceLock<usize> = std::sync::OnceLock::new();
    *L.get_or_init(|| {
        std::thread::Builder::new()
            .stack_size(2 << 30)
            .spawn(|| {
                let builders: [fn(usize) -> String; 4] = [
                    |d| format!("k = {}{}\n", "[".repeat(d), "]".repeat(d)),
                    |d| format!("k = {}1{}\n", "{a = ".repeat(d), "}".repeat(d)),
                    |d| format!("{} = 1\n", vec!["a"; d].join(".")),
                    |d| format!("k = {{ {} = 1 }}\n", vec!["a"; d].join(".")),
                ];
                let mut best = 1usize;
                for (i, b) in builders.iter().enumerate() {
                    let rejected = |d: usize| b(d).parse::<toml_edit::DocumentMut>().is_err();
                    // first refused depth: doubling, then bisection (refusal is monotone in the depth)
                    let mut hi = 1usize;
                    while hi < 4096 && !rejected(hi) {
                        hi *= 2;
                    }
                    let first = if hi >= 4096 && !rejected(4096) {
                        4096
                    } else {
                        let (mut lo, mut hi) = (hi / 2, hi.min(4096));
                        while lo + 1 < hi {
                            let mid = (lo + hi) / 2;
                            if rejected(mid) {
                                hi = mid;
                            } else {
                                lo = mid;
                            }
                        }
                        hi
                    };
                    // (a dotted key of d segments inside an inline table opens 1 + (d - 1) = d containers)
                    let _ = i;
                    best = best.max(first);
                }
                best
            })
            .expect("spawn")
            .join()
            .unwrap_or(80)
    })
}
