//! C12 — date-times: the standalone parser, the document parser and the printer agree.

use crate::common::*;
use crate::docu::dt_strings;
use crate::real::dt_of;
use crate::universe::sweep_list;
use refmodel::{canon_dt, parse_datetime_str};
use toml_datetime::{Date, Datetime, Offset, Time};
use toml_edit::{DocumentMut, Value};

fn doc_dt(s: &str) -> Result<Option<Datetime>, String> {
    let text = format!("k = {}\n", s);
    match text.parse::<DocumentMut>() {
        Ok(d) => Ok(d["k"].as_datetime().copied()),
        Err(e) => Err(e.message().to_string()),
    }
}

pub fn c12_eval(s: &str, acc: &mut Acc) {
    let model = parse_datetime_str(s);
    let r = guarded(|| -> Result<bool, (Option<&'static str>, String)> {
        let standalone = s.parse::<Datetime>();
        let as_value = s.parse::<Value>().ok().and_then(|v| v.as_datetime().copied());
        // whitespace around a value is decor inside a document, not part of the date-time: compare the document
        // parser only on strings without outer blanks
        let outer_blank = s.trim_matches(' ') != s;
        let in_doc = if outer_blank { standalone.as_ref().ok().copied().filter(|_| model.is_some()) } else { doc_dt(s).ok().flatten() };
        // newlines / comment characters cannot be part of a date-time; anything else the document accepts as
        // some other value type simply is not a date-time
        let verdicts = [standalone.is_ok(), as_value.is_some(), in_doc.is_some(), model.is_some()];
        if verdicts.iter().any(|v| *v != verdicts[3]) {
            let class = if verdicts[0] && !verdicts[1] && !verdicts[2] && !verdicts[3] { Some("standalone-parser-accepts-out-of-range-field") } else { None };
            return Err((class, format!("acceptance differs: Datetime::from_str={} Value::from_str={} in-document={} specification={}", verdicts[0], verdicts[1], verdicts[2], verdicts[3])));
        }
        let Some(m) = model else { return Ok(false) };
        let (a, b, c) = (standalone.unwrap(), as_value.unwrap(), in_doc.unwrap());
        let want = canon_dt(&m);
        for (who, d) in [("Datetime::from_str", a), ("Value::from_str", b), ("document", c)] {
            if canon_dt(&dt_of(&d)) != want {
                return Err((None, format!("{} yields fields {} but the text says {}", who, canon_dt(&dt_of(&d)), want)));
            }
        }
        // printer
        let printed = a.to_string();
        let p1 = printed.parse::<Datetime>().map_err(|e| (None, format!("printed form {:?} rejected by Datetime::from_str: {}", printed, e)))?;
        let p2 = printed.parse::<Value>().ok().and_then(|v| v.as_datetime().copied()).ok_or_else(|| (None, format!("printed form {:?} is not a date-time for Value::from_str", printed)))?;
        let p3 = doc_dt(&printed).map_err(|e| (None, format!("printed form {:?} rejected inside a document: {}", printed, e)))?.ok_or_else(|| (None, format!("printed form {:?} is not a date-time inside a document", printed)))?;
        if p1 != a || p2 != a || p3 != a {
            return Err((None, format!("printed form {:?} parses back to a different value", printed)));
        }
        if parse_datetime_str(&printed).map(|d| canon_dt(&d)) != Some(want.clone()) {
            return Err((None, format!("printed form {:?} is not the same date-time for the specification", printed)));
        }
        Ok(true)
    });
    match r {
        Ok(Ok(valid)) => {
            if valid {
                acc.bump("valid-agree");
                acc.nontrivial(s.as_bytes());
                acc.sample(|| s.to_string());
            } else {
                acc.bump("invalid-agree");
                if s.len() >= 8 {
                    acc.nontrivial(s.as_bytes());
                }
            }
        }
        Ok(Err((class, e))) => {
            acc.nontrivial(s.as_bytes());
            acc.viol("U-dt", s.to_string(), class, e)
        }
        Err(p) => {
            acc.panics += 1;
            acc.viol("U-dt", s.to_string(), None, format!("panic: {}", p));
        }
    }
}

/// every Datetime value over a lattice of in-range fields, built directly (not parsed)
fn value_lattice() -> Vec<Datetime> {
    let mut dates = Vec::new();
    for y in [0u16, 1, 1999, 2000, 2023, 2024, 9999] {
        for m in [1u8, 2, 4, 12] {
            for d in [1u8, 28, 29, 30, 31] {
                let dim = match m {
                    2 => {
                        if (y % 4 == 0 && y % 100 != 0) || y % 400 == 0 {
                            29
                        } else {
                            28
                        }
                    }
                    4 => 30,
                    _ => 31,
                };
                if d <= dim {
                    dates.push(Date { year: y, month: m, day: d });
                }
            }
        }
    }
    let mut times = Vec::new();
    for h in [0u8, 12, 23] {
        for mi in [0u8, 59] {
            for s in [0u8, 59, 60] {
                for ns in [0u32, 1, 10, 100, 500_000_000, 120_000_000, 123_456_789, 999_999_999, 999_999_990] {
                    times.push(Time { hour: h, minute: mi, second: s, nanosecond: ns });
                }
            }
        }
    }
    let offsets = [Offset::Z, Offset::Custom { minutes: 0 }, Offset::Custom { minutes: 1 }, Offset::Custom { minutes: -1 }, Offset::Custom { minutes: 59 }, Offset::Custom { minutes: 60 }, Offset::Custom { minutes: -60 }, Offset::Custom { minutes: 330 }, Offset::Custom { minutes: -570 }, Offset::Custom { minutes: 1439 }, Offset::Custom { minutes: -1439 }];
    let mut out = Vec::new();
    for d in &dates {
        out.push(Datetime { date: Some(*d), time: None, offset: None });
    }
    for t in &times {
        out.push(Datetime { date: None, time: Some(*t), offset: None });
    }
    for (i, d) in dates.iter().enumerate() {
        for (j, t) in times.iter().enumerate() {
            // full product would be 100 x 162 x 12; take every date with every time, offsets rotating so each pair (date, offset) and (time, offset) occurs
            out.push(Datetime { date: Some(*d), time: Some(*t), offset: None });
            for (k, o) in offsets.iter().enumerate() {
                if (i + j + k) % 3 == 0 {
                    out.push(Datetime { date: Some(*d), time: Some(*t), offset: Some(*o) });
                }
            }
        }
    }
    out
}

fn values(rep: &mut Report) {
    let t0 = std::time::Instant::now();
    let vals = value_lattice();
    let cases: Vec<String> = (0..vals.len()).map(|i| i.to_string()).collect();
    let f = |s: &str, acc: &mut Acc| {
        let d = vals[s.parse::<usize>().unwrap()];
        let printed = d.to_string();
        acc.nontrivial(printed.as_bytes());
        let r = guarded(|| -> Result<(), String> {
            let want = canon_dt(&dt_of(&d));
            let p1 = printed.parse::<Datetime>().map_err(|e| format!("Display of {} = {:?} rejected by Datetime::from_str: {}", want, printed, e))?;
            let p2 = printed.parse::<Value>().ok().and_then(|v| v.as_datetime().copied()).ok_or_else(|| format!("Display of {} = {:?} is not a date-time for Value::from_str", want, printed))?;
            let p3 = doc_dt(&printed).map_err(|e| format!("Display of {} = {:?} rejected inside a document: {}", want, printed, e))?.ok_or_else(|| format!("{:?} is not a date-time inside a document", printed))?;
            if p1 != d || p2 != d || p3 != d {
                return Err(format!("Display of {} = {:?} parses back differently: {:?} {:?} {:?}", want, printed, p1, p2, p3));
            }
            let m = parse_datetime_str(&printed).ok_or_else(|| format!("Display of {} = {:?} is not a date-time for the specification", want, printed))?;
            if canon_dt(&m) != want {
                return Err(format!("Display of {} = {:?} which the specification reads as {}", want, printed, canon_dt(&m)));
            }
            // written into a document through the API and through serde, read again
            let mut doc = DocumentMut::new();
            doc["k"] = toml_edit::value(d);
            let text = doc.to_string();
            if doc_dt(text.trim_start_matches("k = ").trim_end()) != Ok(Some(d)) {
                return Err(format!("document built with {} prints {:?} which does not read back", want, text));
            }
            #[derive(serde::Serialize, serde::Deserialize, PartialEq, Debug)]
            struct W {
                k: Datetime,
            }
            let text = toml::to_string(&W { k: d }).map_err(|e| format!("serializing {} fails: {}", want, e))?;
            let back: W = toml::from_str(&text).map_err(|e| format!("{:?} (from serializing {}) does not decode: {}", text, want, e.message()))?;
            if back.k != d {
                return Err(format!("serde round trip of {} gives {}", want, canon_dt(&dt_of(&back.k))));
            }
            Ok(())
        });
        match r {
            Ok(Ok(())) => acc.bump("value-roundtrip"),
            Ok(Err(e)) => acc.viol("U-dt-values", printed, None, e),
            Err(p) => acc.viol("U-dt-values", printed, None, format!("panic: {}", p)),
        }
    };
    let (total, acc) = sweep_list(&cases, &f);
    rep.absorb("U-dt-values", "Datetime values built from a lattice of in-range fields (years incl. 0000/9999 and leap days, second 60, 9 fraction patterns, 11 offsets incl. +-23:59), all four kinds", total, true, t0, acc);
}

/// every substitution of THREE positions of each seed by every symbol of the alphabet (streamed, never materialised)
fn sub3(rep: &mut Report) {
    use crate::docu::{DT_ALPHA, DT_SEEDS};
    use rayon::prelude::*;
    let t0 = std::time::Instant::now();
    let mut work: Vec<(usize, usize, usize)> = Vec::new();
    for (si, s) in DT_SEEDS.iter().enumerate() {
        let n = s.len();
        for i in 0..n {
            for j in i + 1..n {
                work.push((si, i, j));
            }
        }
    }
    let alpha: Vec<u8> = DT_ALPHA.iter().map(|a| a.as_bytes()[0]).collect();
    let acc = work
        .par_iter()
        .fold(Acc::default, |mut acc, &(si, i, j)| {
            let seed = DT_SEEDS[si].as_bytes();
            let mut buf = seed.to_vec();
            for k in j + 1..seed.len() {
                for &a in &alpha {
                    buf[i] = a;
                    for &b in &alpha {
                        buf[j] = b;
                        for &c in &alpha {
                            buf[k] = c;
                            acc.evals += 1;
                            c12_eval(std::str::from_utf8(&buf).unwrap(), &mut acc);
                        }
                    }
                }
                buf[k] = seed[k];
            }
            acc
        })
        .reduce(Acc::default, Acc::merge);
    let total = acc.evals;
    rep.absorb("U-dt-sub3", "every substitution of 3 positions of each of the 14 seeds by every symbol of the 16-symbol alphabet", total, true, t0, acc);
}

pub fn c12(tier: Tier) -> i32 {
    let mut rep = Report::new(
        "C12",
        tier,
        "model_checking",
        "every string within edit distance k of 14 seed date-times over the 16-symbol date-time alphabet (substitute, insert, delete, truncate) plus complete field sweeps: Datetime::from_str, Value::from_str, the document parser and the specification model must agree on acceptance and on every field; the printed form must be accepted by all and parse back identically; every Datetime of a field lattice must print to text all parsers read back; non-trivial = distinct accepted strings, distinct rejected strings of length >= 8, distinct values",
    );
    rep.assumptions = vec!["refmodel's date-time reading follows RFC 3339 as restricted by TOML 1.0.0 (hour 00-23, minute 00-59, second 00-60, offset 00-23:00-59, Gregorian leap years)".into()];
    let t0 = std::time::Instant::now();
    // edit distance 2 costs ~6 s: both tiers run it; the thorough tier adds every 3-position substitution
    let k = 2;
    let strs = dt_strings(k);
    let f = |s: &str, acc: &mut Acc| c12_eval(s, acc);
    let (total, acc) = sweep_list(&strs, &f);
    rep.absorb("U-dt", &format!("edit distance <= {} from 14 seeds + field sweeps", k), total, true, t0, acc);
    if tier == Tier::Thorough {
        sub3(&mut rep);
    }
    values(&mut rep);
    rep.finish()
}

pub fn replay(path: &str) -> i32 {
    let j = read_replay(path);
    let input = j["input"].as_str().unwrap_or("").to_string();
    let mut acc = Acc::default();
    c12_eval(&input, &mut acc);
    println!("string: {:?}", input);
    println!("Datetime::from_str: {:?}", input.parse::<Datetime>().map(|d| d.to_string()).map_err(|e| e.to_string()));
    println!("document parser   : {:?}", doc_dt(&input).map(|d| d.map(|d| d.to_string())));
    println!("specification     : {:?}", parse_datetime_str(&input).map(|d| canon_dt(&d)));
    if acc.viols.is_empty() && acc.known.is_empty() {
        println!("replay: property holds on this case");
        0
    } else if acc.viols.is_empty() {
        println!("replay: known finding");
        0
    } else {
        for v in &acc.viols {
            println!("replay: {}", v.detail);
        }
        println!("VIOLATION property=C12 replay={}", path);
        1
    }
}
