//! `refmodel` — an independent, deliberately naive reading of TOML v1.0.0 (prose + toml.abnf).
//!
//! Written from the specification, production by production.  It does NOT depend on any crate under
//! test.  It is the oracle of C01/C02/C03/C09/C14 and is itself validated against the toml-test corpus
//! and CPython's tomllib (see DESIGN.md section 3.4).
//!
//! Trusted base: Rust's `str::parse::<f64>` is correctly rounded (IEEE 754 round-to-nearest-even).

pub mod scan;
pub mod tree;

pub use scan::{ref_parse, ref_parse_bytes, parse_datetime_str, parse_value_str, parse_key_str};
pub use tree::*;
