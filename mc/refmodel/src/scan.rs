//! Character-level scanner following toml.abnf (v1.0.0) production by production, plus the
//! definition-rule engine of DESIGN.md section 3.2.

use crate::tree::*;

const MODEL_DEPTH_CAP: usize = 200;
/// where the implementation-limit zone for nesting starts.  80 is toml_edit's constant today; the checks set it to
/// what the library under test actually enforces (observed on reference documents), so that a changed limit moves
/// the zone instead of turning every document near the old limit into a disagreement
static LIMIT_ZONE_V: std::sync::atomic::AtomicUsize = std::sync::atomic::AtomicUsize::new(80);
pub fn limit_zone() -> usize {
    LIMIT_ZONE_V.load(std::sync::atomic::Ordering::Relaxed)
}
pub fn set_limit_zone(n: usize) {
    LIMIT_ZONE_V.store(n, std::sync::atomic::Ordering::Relaxed);
}
const U1_RULE: &str = "U1: dotted key through a table that exists only implicitly via headers";

type R<T> = Result<T, Reject>;

fn rej<T>(at: usize, rule: &'static str) -> R<T> {
    Err(Reject { at, rule, semantic: false })
}
fn sem<T>(at: usize, rule: &'static str) -> R<T> {
    Err(Reject { at, rule, semantic: true })
}

// ------------------------------------------------------------------------------------------------
// definition engine

#[derive(Clone, Copy, Debug, PartialEq, Eq)]
enum Kind {
    Root,
    ImplicitByHeader,
    ExplicitHeader,
    ByDottedKey(usize),
    AotElement,
}

#[derive(Clone, Debug)]
enum Slot {
    Table(usize),
    Aot(Vec<usize>),
    Value(Node),
}

#[derive(Clone, Debug)]
struct TNode {
    kind: Kind,
    entries: Vec<(String, Span, Slot)>,
    /// per entry: (path occurrence, segment) whose spelling a one-Key-per-entry implementation would keep
    stored: Vec<(usize, usize)>,
    late: bool,
}

struct Defs {
    arena: Vec<TNode>,
    /// arena index of the table the current section writes into
    current: usize,
    /// id of the current section (root = 0, +1 per header); inline tables get fresh ids too
    section: usize,
    next_section: usize,
    u1_permissive: bool,
    u1_hit: bool,
    /// (path occurrence, segment, table, entry): which entry each key segment resolved to
    occ: Vec<(usize, usize, usize, usize)>,
}

impl Defs {
    fn new(u1_permissive: bool) -> Self {
        Defs {
            arena: vec![TNode { kind: Kind::Root, entries: Vec::new(), stored: Vec::new(), late: false }],
            current: 0,
            section: 0,
            next_section: 1,
            u1_permissive,
            u1_hit: false,
            occ: Vec::new(),
        }
    }
    fn new_table(&mut self, kind: Kind) -> usize {
        self.arena.push(TNode { kind, entries: Vec::new(), stored: Vec::new(), late: false });
        self.arena.len() - 1
    }
    fn push_entry(&mut self, t: usize, k: &str, sp: Span, slot: Slot, pidx: usize, seg: usize) {
        self.arena[t].entries.push((k.to_string(), sp, slot));
        self.arena[t].stored.push((pidx, seg));
        let e = self.arena[t].entries.len() - 1;
        self.occ.push((pidx, seg, t, e));
    }
    /// fill `Layout::paths[..].stored` for every path occurrence this engine resolved
    fn resolve(&self, layout: &mut Layout) {
        for (pidx, seg, t, e) in &self.occ {
            layout.paths[*pidx].stored[*seg] = self.arena[*t].stored[*e];
        }
    }
    fn find(&self, t: usize, key: &str) -> Option<usize> {
        self.arena[t].entries.iter().position(|(k, _, _)| k == key)
    }

    /// walk the proper prefix of a header path
    fn header_prefix(&mut self, path: &[(String, Span)], pidx: usize) -> R<usize> {
        let mut cur = 0usize;
        for (seg, (k, sp)) in path[..path.len() - 1].iter().enumerate() {
            match self.find(cur, k) {
                None => {
                    let t = self.new_table(Kind::ImplicitByHeader);
                    self.push_entry(cur, k, *sp, Slot::Table(t), pidx, seg);
                    cur = t;
                }
                Some(i) => { self.occ.push((pidx, seg, cur, i)); match &self.arena[cur].entries[i].2 {
                    Slot::Table(t) => cur = *t,
                    Slot::Aot(v) => cur = *v.last().expect("aot never empty"),
                    Slot::Value(_) => return sem(sp.start, "header path passes through a value (scalar, static array or inline table)"),
                }},
            }
        }
        Ok(cur)
    }

    fn std_header(&mut self, path: &[(String, Span)], pidx: usize) -> R<()> {
        let parent = self.header_prefix(path, pidx)?;
        let last = path.len() - 1;
        let (k, sp) = &path[last];
        let target = match self.find(parent, k) {
            None => {
                let t = self.new_table(Kind::ExplicitHeader);
                self.push_entry(parent, k, *sp, Slot::Table(t), pidx, last);
                t
            }
            Some(i) => { self.occ.push((pidx, last, parent, i)); match &self.arena[parent].entries[i].2 {
                Slot::Table(t) => {
                    let t = *t;
                    match self.arena[t].kind {
                        Kind::ImplicitByHeader => {
                            self.arena[t].kind = Kind::ExplicitHeader;
                            self.arena[t].late = true;
                            self.arena[parent].stored[i] = (pidx, last);
                            t
                        }
                        Kind::ExplicitHeader => return sem(sp.start, "table header repeated"),
                        Kind::ByDottedKey(_) => return sem(sp.start, "header reopens a table created by dotted keys"),
                        Kind::AotElement | Kind::Root => return sem(sp.start, "header names an array-of-tables element"),
                    }
                }
                Slot::Aot(_) => return sem(sp.start, "[table] header collides with an array of tables"),
                Slot::Value(_) => return sem(sp.start, "[table] header collides with a value"),
            }},
        };
        self.current = target;
        self.section = self.next_section;
        self.next_section += 1;
        Ok(())
    }

    fn array_header(&mut self, path: &[(String, Span)], pidx: usize) -> R<()> {
        let parent = self.header_prefix(path, pidx)?;
        let last = path.len() - 1;
        let (k, sp) = &path[last];
        let elem = self.new_table(Kind::AotElement);
        match self.find(parent, k) {
            None => {
                self.push_entry(parent, k, *sp, Slot::Aot(vec![elem]), pidx, last);
            }
            Some(i) => { self.occ.push((pidx, last, parent, i)); match &mut self.arena[parent].entries[i].2 {
                Slot::Aot(v) => v.push(elem),
                Slot::Table(_) => return sem(sp.start, "[[array]] header collides with a table"),
                Slot::Value(_) => return sem(sp.start, "[[array]] header collides with a value (static array, inline table or scalar)"),
            }},
        }
        self.current = elem;
        self.section = self.next_section;
        self.next_section += 1;
        Ok(())
    }

    /// `k1.k2...kn = v` inside table `base` of section `section`
    fn keyval(&mut self, base: usize, section: usize, path: &[(String, Span)], pidx: usize, value: Node) -> R<()> {
        let mut cur = base;
        for (seg, (k, sp)) in path[..path.len() - 1].iter().enumerate() {
            match self.find(cur, k) {
                None => {
                    let t = self.new_table(Kind::ByDottedKey(section));
                    self.push_entry(cur, k, *sp, Slot::Table(t), pidx, seg);
                    cur = t;
                }
                Some(i) => { self.occ.push((pidx, seg, cur, i)); match &self.arena[cur].entries[i].2 {
                    Slot::Table(t) => {
                        let t = *t;
                        match self.arena[t].kind {
                            Kind::ByDottedKey(s) if s == section => cur = t,
                            Kind::ByDottedKey(_) => return sem(sp.start, "dotted key extends a table created by dotted keys of another section"),
                            Kind::ExplicitHeader => return sem(sp.start, "dotted key reopens a table defined by a [header]"),
                            Kind::ImplicitByHeader => {
                                self.u1_hit = true;
                                if self.u1_permissive {
                                    cur = t;
                                } else {
                                    return sem(sp.start, U1_RULE);
                                }
                            }
                            Kind::AotElement | Kind::Root => return sem(sp.start, "dotted key into array-of-tables element"),
                        }
                    }
                    Slot::Aot(_) => return sem(sp.start, "dotted key passes through an array of tables"),
                    Slot::Value(_) => return sem(sp.start, "dotted key passes through a value (scalar, static array or inline table)"),
                }},
            }
        }
        let last = path.len() - 1;
        let (k, sp) = &path[last];
        if self.find(cur, k).is_some() {
            return sem(sp.start, "key defined twice");
        }
        self.push_entry(cur, k, *sp, Slot::Value(value), pidx, last);
        Ok(())
    }

    fn build(&self, t: usize) -> Vec<Entry> {
        self.arena[t]
            .entries
            .iter()
            .map(|(k, sp, slot)| Entry {
                key: k.clone(),
                key_span: *sp,
                late: match slot {
                    Slot::Table(i) => self.arena[*i].late,
                    _ => false,
                },
                node: match slot {
                    Slot::Value(n) => n.clone(),
                    Slot::Table(i) => Node {
                        val: Val::Table(self.build(*i)),
                        span: None,
                        origin: match self.arena[*i].kind {
                            Kind::ImplicitByHeader => Origin::ImplicitTable,
                            Kind::ExplicitHeader => Origin::HeaderTable,
                            Kind::ByDottedKey(_) => Origin::DottedTable,
                            Kind::AotElement => Origin::AotElement,
                            Kind::Root => Origin::Root,
                        },
                    },
                    Slot::Aot(v) => Node {
                        val: Val::Array(v.iter().map(|i| Node { val: Val::Table(self.build(*i)), span: None, origin: Origin::AotElement }).collect()),
                        span: None,
                        origin: Origin::AotArray,
                    },
                },
            })
            .collect()
    }
}

// ------------------------------------------------------------------------------------------------
// scanner

struct P<'a> {
    s: &'a [u8],
    i: usize,
    limits: Limits,
    layout: Layout,
    depth_cap_hit: bool,
}

fn is_wschar(b: u8) -> bool {
    b == b' ' || b == b'\t'
}
fn is_unquoted_key_char(b: u8) -> bool {
    b.is_ascii_alphanumeric() || b == b'-' || b == b'_'
}
fn is_non_ascii(b: u8) -> bool {
    b >= 0x80
}
/// comment characters per the prose of v1.0.0: everything except control characters other than tab
fn is_comment_char(b: u8) -> bool {
    b == 0x09 || (0x20..=0x7E).contains(&b) || is_non_ascii(b)
}
fn is_basic_unescaped(b: u8) -> bool {
    is_wschar(b) || b == 0x21 || (0x23..=0x5B).contains(&b) || (0x5D..=0x7E).contains(&b) || is_non_ascii(b)
}
fn is_literal_char(b: u8) -> bool {
    b == 0x09 || (0x20..=0x26).contains(&b) || (0x28..=0x7E).contains(&b) || is_non_ascii(b)
}
fn is_scalar_run_char(b: u8) -> bool {
    b.is_ascii_alphanumeric() || matches!(b, b'_' | b'+' | b'-' | b'.' | b':')
}

impl<'a> P<'a> {
    fn peek(&self) -> Option<u8> {
        self.s.get(self.i).copied()
    }
    fn peek_at(&self, k: usize) -> Option<u8> {
        self.s.get(self.i + k).copied()
    }
    fn starts_with(&self, pat: &[u8]) -> bool {
        self.s[self.i..].starts_with(pat)
    }
    fn eof(&self) -> bool {
        self.i >= self.s.len()
    }
    fn ws(&mut self) {
        while let Some(b) = self.peek() {
            if is_wschar(b) {
                self.i += 1;
            } else {
                break;
            }
        }
    }
    /// newline = LF / CRLF; returns true if one was consumed
    fn newline(&mut self) -> bool {
        if self.peek() == Some(b'\n') {
            self.i += 1;
            true
        } else if self.starts_with(b"\r\n") {
            self.i += 2;
            true
        } else {
            false
        }
    }
    fn comment(&mut self) -> R<()> {
        debug_assert_eq!(self.peek(), Some(b'#'));
        let start = self.i;
        self.i += 1;
        while let Some(b) = self.peek() {
            if b == b'\n' || self.starts_with(b"\r\n") {
                break;
            }
            if !is_comment_char(b) {
                return rej(self.i, "control character in comment");
            }
            self.i += 1;
        }
        self.layout.comments.push(Span { start, end: self.i });
        Ok(())
    }
    /// ws-comment-newline = *( wschar / [ comment ] newline )
    fn ws_comment_newline(&mut self) -> R<()> {
        loop {
            self.ws();
            if self.peek() == Some(b'#') {
                self.comment()?;
                // a comment inside an array must be followed by a newline (or the text ends -> error later)
                if !self.newline() {
                    if self.eof() {
                        return rej(self.i, "unterminated array");
                    }
                    return rej(self.i, "bare CR after comment");
                }
            } else if self.newline() {
            } else {
                return Ok(());
            }
        }
    }

    // ---- keys

    fn simple_key(&mut self) -> R<(String, Span)> {
        let start = self.i;
        match self.peek() {
            Some(b'"') => {
                let s = self.basic_string()?;
                let sp = Span { start, end: self.i };
                self.layout.key_tokens.push(sp);
                Ok((s, sp))
            }
            Some(b'\'') => {
                let s = self.literal_string()?;
                let sp = Span { start, end: self.i };
                self.layout.key_tokens.push(sp);
                Ok((s, sp))
            }
            Some(b) if is_unquoted_key_char(b) => {
                while let Some(b) = self.peek() {
                    if is_unquoted_key_char(b) {
                        self.i += 1;
                    } else {
                        break;
                    }
                }
                let sp = Span { start, end: self.i };
                self.layout.key_tokens.push(sp);
                Ok((String::from_utf8(self.s[start..self.i].to_vec()).unwrap(), sp))
            }
            _ => rej(self.i, "expected a key"),
        }
    }
    /// key = simple-key *( ws "." ws simple-key ); trailing ws is consumed
    fn key(&mut self) -> R<(Vec<(String, Span)>, usize)> {
        let mut segs: Vec<Seg> = Vec::new();
        let pre_start = self.i;
        self.ws();
        let mut pre = Span { start: pre_start, end: self.i };
        let mut path = Vec::new();
        loop {
            let (k, ksp) = self.simple_key()?;
            let post_start = self.i;
            self.ws();
            segs.push(Seg { pre, key: ksp, post: Span { start: post_start, end: self.i } });
            path.push((k, ksp));
            if self.peek() == Some(b'.') {
                self.i += 1;
                let ps = self.i;
                self.ws();
                pre = Span { start: ps, end: self.i };
            } else {
                break;
            }
        }
        if path.len() >= limit_zone() {
            self.limits.depth = true;
        }
        let n = segs.len();
        self.layout.paths.push(PathOcc { segs, stored: vec![(usize::MAX, 0); n] });
        Ok((path, self.layout.paths.len() - 1))
    }

    // ---- strings

    fn hex_escape(&mut self, n: usize) -> R<char> {
        let at = self.i;
        let mut v: u32 = 0;
        for _ in 0..n {
            match self.peek() {
                Some(b) if b.is_ascii_hexdigit() => {
                    v = v * 16 + (b as char).to_digit(16).unwrap();
                    self.i += 1;
                }
                _ => return rej(self.i, "short \\u escape"),
            }
        }
        match char::from_u32(v) {
            Some(c) => Ok(c),
            None => rej(at, "escape is not a Unicode scalar value"),
        }
    }
    /// after the backslash
    fn escape_seq(&mut self, out: &mut String) -> R<()> {
        let c = match self.peek() {
            Some(b'b') => '\u{8}',
            Some(b't') => '\t',
            Some(b'n') => '\n',
            Some(b'f') => '\u{c}',
            Some(b'r') => '\r',
            Some(b'"') => '"',
            Some(b'\\') => '\\',
            Some(b'u') => {
                self.i += 1;
                out.push(self.hex_escape(4)?);
                return Ok(());
            }
            Some(b'U') => {
                self.i += 1;
                out.push(self.hex_escape(8)?);
                return Ok(());
            }
            _ => return rej(self.i, "invalid escape"),
        };
        self.i += 1;
        out.push(c);
        Ok(())
    }
    fn push_raw_char(&mut self, out: &mut String) {
        // copies one UTF-8 encoded char starting at self.i
        let b = self.s[self.i];
        let len = if b < 0x80 {
            1
        } else if b >= 0xF0 {
            4
        } else if b >= 0xE0 {
            3
        } else {
            2
        };
        out.push_str(std::str::from_utf8(&self.s[self.i..self.i + len]).expect("input is utf-8"));
        self.i += len;
    }
    fn basic_string(&mut self) -> R<String> {
        debug_assert_eq!(self.peek(), Some(b'"'));
        self.i += 1;
        let mut out = String::new();
        loop {
            match self.peek() {
                None => return rej(self.i, "unterminated basic string"),
                Some(b'"') => {
                    self.i += 1;
                    return Ok(out);
                }
                Some(b'\\') => {
                    self.i += 1;
                    self.escape_seq(&mut out)?;
                }
                Some(b) if is_basic_unescaped(b) => self.push_raw_char(&mut out),
                Some(_) => return rej(self.i, "character not allowed in basic string"),
            }
        }
    }
    fn literal_string(&mut self) -> R<String> {
        debug_assert_eq!(self.peek(), Some(b'\''));
        self.i += 1;
        let mut out = String::new();
        loop {
            match self.peek() {
                None => return rej(self.i, "unterminated literal string"),
                Some(b'\'') => {
                    self.i += 1;
                    return Ok(out);
                }
                Some(b) if is_literal_char(b) => self.push_raw_char(&mut out),
                Some(_) => return rej(self.i, "character not allowed in literal string"),
            }
        }
    }
    fn ml_basic_string(&mut self) -> R<String> {
        debug_assert!(self.starts_with(b"\"\"\""));
        self.i += 3;
        self.newline(); // first newline trimmed
        let mut out = String::new();
        loop {
            match self.peek() {
                None => return rej(self.i, "unterminated multi-line basic string"),
                Some(b'"') => {
                    let mut n = 0;
                    while self.peek_at(n) == Some(b'"') {
                        n += 1;
                    }
                    if n >= 3 {
                        // up to two quotes may sit directly before the closing delimiter
                        let content = (n - 3).min(2);
                        for _ in 0..content {
                            out.push('"');
                        }
                        self.i += content + 3;
                        return Ok(out);
                    }
                    for _ in 0..n {
                        out.push('"');
                    }
                    self.i += n;
                }
                Some(b'\\') => {
                    self.i += 1;
                    match self.peek() {
                        Some(b'b') | Some(b't') | Some(b'n') | Some(b'f') | Some(b'r') | Some(b'"') | Some(b'\\') | Some(b'u') | Some(b'U') => {
                            self.escape_seq(&mut out)?;
                        }
                        _ => {
                            // mlb-escaped-nl = escape ws newline *( wschar / newline )
                            self.ws();
                            if !self.newline() {
                                return rej(self.i, "backslash not followed by escape or line ending");
                            }
                            loop {
                                self.ws();
                                if !self.newline() {
                                    break;
                                }
                            }
                        }
                    }
                }
                Some(b'\n') => {
                    self.i += 1;
                    out.push('\n');
                }
                Some(b'\r') => {
                    if self.starts_with(b"\r\n") {
                        self.i += 2;
                        out.push('\n');
                    } else {
                        return rej(self.i, "bare CR in multi-line basic string");
                    }
                }
                Some(b) if is_basic_unescaped(b) => self.push_raw_char(&mut out),
                Some(_) => return rej(self.i, "character not allowed in multi-line basic string"),
            }
        }
    }
    fn ml_literal_string(&mut self) -> R<String> {
        debug_assert!(self.starts_with(b"'''"));
        self.i += 3;
        self.newline();
        let mut out = String::new();
        loop {
            match self.peek() {
                None => return rej(self.i, "unterminated multi-line literal string"),
                Some(b'\'') => {
                    let mut n = 0;
                    while self.peek_at(n) == Some(b'\'') {
                        n += 1;
                    }
                    if n >= 3 {
                        let content = (n - 3).min(2);
                        for _ in 0..content {
                            out.push('\'');
                        }
                        self.i += content + 3;
                        return Ok(out);
                    }
                    for _ in 0..n {
                        out.push('\'');
                    }
                    self.i += n;
                }
                Some(b'\n') => {
                    self.i += 1;
                    out.push('\n');
                }
                Some(b'\r') => {
                    if self.starts_with(b"\r\n") {
                        self.i += 2;
                        out.push('\n');
                    } else {
                        return rej(self.i, "bare CR in multi-line literal string");
                    }
                }
                Some(b) if is_literal_char(b) => self.push_raw_char(&mut out),
                Some(_) => return rej(self.i, "character not allowed in multi-line literal string"),
            }
        }
    }

    // ---- values

    /// `depth` = number of containers (arrays, inline tables, tables made by dotted key segments) around this value
    /// below its statement.  The implementation-limit zone starts where the 80th nested container is opened.
    fn value(&mut self, depth: usize) -> R<Node> {
        let start = self.i;
        if depth >= limit_zone() || (depth + 1 >= limit_zone() && matches!(self.peek(), Some(b'[') | Some(b'{'))) {
            self.limits.depth = true;
        }
        if depth > MODEL_DEPTH_CAP {
            self.depth_cap_hit = true;
            return rej(self.i, "MODEL-DEPTH-CAP");
        }
        let (val, origin) = match self.peek() {
            None => return rej(self.i, "expected a value"),
            Some(b'"') => {
                if self.starts_with(b"\"\"\"") {
                    let s = self.ml_basic_string()?;
                    self.layout.ml_spans.push(Span { start, end: self.i });
                    (Val::Str(s), Origin::Scalar)
                } else {
                    (Val::Str(self.basic_string()?), Origin::Scalar)
                }
            }
            Some(b'\'') => {
                if self.starts_with(b"'''") {
                    let s = self.ml_literal_string()?;
                    self.layout.ml_spans.push(Span { start, end: self.i });
                    (Val::Str(s), Origin::Scalar)
                } else {
                    (Val::Str(self.literal_string()?), Origin::Scalar)
                }
            }
            Some(b'[') => (Val::Array(self.array(depth)?), Origin::InlineArray),
            Some(b'{') => (Val::Table(self.inline_table(depth)?), Origin::InlineTable),
            Some(b) if is_scalar_run_char(b) => (self.scalar_run()?, Origin::Scalar),
            Some(_) => return rej(self.i, "expected a value"),
        };
        let span = Span { start, end: self.i };
        self.layout.value_tokens.push(span);
        Ok(Node { val, span: Some(span), origin })
    }

    fn array(&mut self, depth: usize) -> R<Vec<Node>> {
        debug_assert_eq!(self.peek(), Some(b'['));
        self.i += 1;
        let mut out = Vec::new();
        loop {
            self.ws_comment_newline()?;
            match self.peek() {
                None => return rej(self.i, "unterminated array"),
                Some(b']') => {
                    self.i += 1;
                    return Ok(out);
                }
                _ => {}
            }
            out.push(self.value(depth + 1)?);
            self.ws_comment_newline()?;
            match self.peek() {
                Some(b',') => {
                    self.i += 1;
                }
                Some(b']') => {
                    self.i += 1;
                    return Ok(out);
                }
                None => return rej(self.i, "unterminated array"),
                Some(_) => return rej(self.i, "expected , or ] in array"),
            }
        }
    }

    fn inline_table(&mut self, depth: usize) -> R<Vec<Entry>> {
        debug_assert_eq!(self.peek(), Some(b'{'));
        self.i += 1;
        let mut defs = Defs::new(false);
        self.layout.inline_scopes += 1;
        let scope = 1_000_000 + self.layout.inline_scopes;
        let save = self.i;
        self.ws();
        if self.peek() == Some(b'}') {
            self.i += 1;
            return Ok(Vec::new());
        }
        self.i = save;
        loop {
            // keyval = key keyval-sep val   (key() takes the whitespace in front of the key as its decor)
            let (path, pidx) = self.key()?;
            if self.peek() != Some(b'=') {
                return rej(self.i, "expected = in inline table");
            }
            self.i += 1;
            self.ws();
            let v = self.value(depth + path.len())?;
            self.layout.keyvals.push((scope, path.iter().map(|(k, _)| k.clone()).collect()));
            defs.keyval(0, 0, &path, pidx, v)?;
            self.ws();
            match self.peek() {
                Some(b',') => {
                    self.i += 1;
                }
                Some(b'}') => {
                    self.i += 1;
                    defs.resolve(&mut self.layout);
                    return Ok(defs.build(0));
                }
                None => return rej(self.i, "unterminated inline table"),
                Some(_) => return rej(self.i, "expected , or } in inline table"),
            }
        }
    }

    /// booleans, date-times, floats, integers: the maximal run of scalar characters must match one production entirely
    fn scalar_run(&mut self) -> R<Val> {
        let start = self.i;
        while let Some(b) = self.peek() {
            if is_scalar_run_char(b) {
                self.i += 1;
            } else {
                break;
            }
        }
        // a full-date may be followed by a space and a time
        if match_full_date(&self.s[start..self.i]).is_some() && self.peek() == Some(b' ') && self.peek_at(1).map_or(false, |b| b.is_ascii_digit()) {
            self.i += 1;
            while let Some(b) = self.peek() {
                if is_scalar_run_char(b) {
                    self.i += 1;
                } else {
                    break;
                }
            }
        }
        let run = &self.s[start..self.i];
        match classify_scalar(run) {
            Ok(ScalarOut::Val(v)) => Ok(v),
            Ok(ScalarOut::IntOverflow) => {
                self.limits.int_overflow = true;
                Ok(Val::Int(i128::MAX))
            }
            Ok(ScalarOut::FloatOverflow(f)) => {
                self.limits.float_overflow = true;
                Ok(Val::Float(f))
            }
            Err(rule) => rej(start, rule),
        }
    }
}

enum ScalarOut {
    Val(Val),
    IntOverflow,
    FloatOverflow(f64),
}

fn classify_scalar(run: &[u8]) -> Result<ScalarOut, &'static str> {
    if run == b"true" {
        return Ok(ScalarOut::Val(Val::Bool(true)));
    }
    if run == b"false" {
        return Ok(ScalarOut::Val(Val::Bool(false)));
    }
    match match_datetime(run) {
        DtMatch::Ok(d) => return Ok(ScalarOut::Val(Val::Dt(d))),
        DtMatch::ShapeButOutOfRange => return Err("date-time field out of range"),
        DtMatch::No => {}
    }
    if let Some(r) = match_float(run) {
        return Ok(r);
    }
    if let Some(r) = match_integer(run) {
        return Ok(r);
    }
    Err("not a boolean, date-time, float or integer")
}

fn strip_sign(run: &[u8]) -> (Option<u8>, &[u8]) {
    match run.first() {
        Some(b'+') => (Some(b'+'), &run[1..]),
        Some(b'-') => (Some(b'-'), &run[1..]),
        _ => (None, run),
    }
}

/// DIGIT *( DIGIT / underscore DIGIT ) over the given digit class; returns digits without underscores
fn digits_with_underscores(s: &[u8], is_digit: fn(u8) -> bool) -> Option<Vec<u8>> {
    if s.is_empty() || !is_digit(s[0]) {
        return None;
    }
    let mut out = vec![s[0]];
    let mut i = 1;
    while i < s.len() {
        if is_digit(s[i]) {
            out.push(s[i]);
            i += 1;
        } else if s[i] == b'_' && i + 1 < s.len() && is_digit(s[i + 1]) {
            out.push(s[i + 1]);
            i += 2;
        } else {
            return None;
        }
    }
    Some(out)
}
fn is_dec(b: u8) -> bool {
    b.is_ascii_digit()
}
fn is_hex(b: u8) -> bool {
    b.is_ascii_hexdigit()
}
fn is_oct(b: u8) -> bool {
    (b'0'..=b'7').contains(&b)
}
fn is_bin(b: u8) -> bool {
    b == b'0' || b == b'1'
}

/// unsigned-dec-int = DIGIT / digit1-9 1*( DIGIT / underscore DIGIT )
fn unsigned_dec_int(s: &[u8]) -> Option<Vec<u8>> {
    let d = digits_with_underscores(s, is_dec)?;
    if s.len() > 1 && s[0] == b'0' {
        return None;
    }
    Some(d)
}

fn accumulate(digits: &[u8], radix: u32) -> Option<i128> {
    let mut v: i128 = 0;
    for d in digits {
        let x = (*d as char).to_digit(radix).unwrap() as i128;
        v = v.checked_mul(radix as i128)?.checked_add(x)?;
        if v > (1i128 << 100) {
            return None;
        }
    }
    Some(v)
}

fn match_integer(run: &[u8]) -> Option<ScalarOut> {
    let in_range = |v: Option<i128>| -> ScalarOut {
        match v {
            Some(v) if v >= i64::MIN as i128 && v <= i64::MAX as i128 => ScalarOut::Val(Val::Int(v)),
            _ => ScalarOut::IntOverflow,
        }
    };
    if run.len() > 2 && run[0] == b'0' {
        let (radix, f): (u32, fn(u8) -> bool) = match run[1] {
            b'x' => (16, is_hex),
            b'o' => (8, is_oct),
            b'b' => (2, is_bin),
            _ => (0, is_dec),
        };
        if radix != 0 {
            let d = digits_with_underscores(&run[2..], f)?;
            return Some(in_range(accumulate(&d, radix)));
        }
    }
    let (sign, rest) = strip_sign(run);
    let d = unsigned_dec_int(rest)?;
    let v = accumulate(&d, 10).map(|v| if sign == Some(b'-') { -v } else { v });
    Some(in_range(v))
}

fn match_float(run: &[u8]) -> Option<ScalarOut> {
    let (sign, rest) = strip_sign(run);
    let neg = sign == Some(b'-');
    if rest == b"inf" {
        return Some(ScalarOut::Val(Val::Float(if neg { f64::NEG_INFINITY } else { f64::INFINITY })));
    }
    if rest == b"nan" {
        let nan = f64::NAN.copysign(1.0);
        return Some(ScalarOut::Val(Val::Float(if neg { nan.copysign(-1.0) } else { nan })));
    }
    // float-int-part ( exp / frac [ exp ] )
    let int_end = rest.iter().position(|b| matches!(b, b'.' | b'e' | b'E')).unwrap_or(rest.len());
    if int_end == rest.len() {
        return None;
    }
    let int_digits = unsigned_dec_int(&rest[..int_end])?;
    let mut clean: Vec<u8> = Vec::new();
    if neg {
        clean.push(b'-');
    }
    clean.extend_from_slice(&int_digits);
    let mut i = int_end;
    if rest[i] == b'.' {
        let frac_end = rest[i + 1..].iter().position(|b| matches!(b, b'e' | b'E')).map(|p| p + i + 1).unwrap_or(rest.len());
        let frac = digits_with_underscores(&rest[i + 1..frac_end], is_dec)?;
        clean.push(b'.');
        clean.extend_from_slice(&frac);
        i = frac_end;
    }
    if i < rest.len() {
        // exp = "e" [ minus / plus ] zero-prefixable-int
        if !matches!(rest[i], b'e' | b'E') {
            return None;
        }
        let (esign, edigits) = strip_sign(&rest[i + 1..]);
        let ed = digits_with_underscores(edigits, is_dec)?;
        clean.push(b'e');
        if esign == Some(b'-') {
            clean.push(b'-');
        }
        clean.extend_from_slice(&ed);
    }
    let text = std::str::from_utf8(&clean).unwrap();
    let f: f64 = text.parse().expect("cleaned float literal parses");
    if f.is_infinite() {
        Some(ScalarOut::FloatOverflow(f))
    } else {
        Some(ScalarOut::Val(Val::Float(f)))
    }
}

enum DtMatch {
    Ok(Dt),
    ShapeButOutOfRange,
    No,
}

fn two(s: &[u8]) -> Option<u8> {
    if s.len() == 2 && s[0].is_ascii_digit() && s[1].is_ascii_digit() {
        Some((s[0] - b'0') * 10 + (s[1] - b'0'))
    } else {
        None
    }
}

fn is_leap(y: u16) -> bool {
    (y % 4 == 0 && y % 100 != 0) || y % 400 == 0
}
fn days_in_month(y: u16, m: u8) -> u8 {
    match m {
        1 | 3 | 5 | 7 | 8 | 10 | 12 => 31,
        4 | 6 | 9 | 11 => 30,
        2 => {
            if is_leap(y) {
                29
            } else {
                28
            }
        }
        _ => 0,
    }
}

/// full-date shape at the start of `s`: returns (fields, in_range) if the first 10 bytes have the shape dddd-dd-dd and s.len()==10
fn match_full_date(s: &[u8]) -> Option<((u16, u8, u8), bool)> {
    if s.len() != 10 || s[4] != b'-' || s[7] != b'-' {
        return None;
    }
    if !s[..4].iter().all(|b| b.is_ascii_digit()) {
        return None;
    }
    let y = s[..4].iter().fold(0u16, |a, b| a * 10 + (*b - b'0') as u16);
    let m = two(&s[5..7])?;
    let d = two(&s[8..10])?;
    let ok = (1..=12).contains(&m) && d >= 1 && d <= days_in_month(y, m);
    Some(((y, m, d), ok))
}

/// partial-time [ time-offset ] anchored on the whole slice
fn match_time(s: &[u8], allow_offset: bool) -> Option<((u8, u8, u8, u32), Option<Off>, bool)> {
    if s.len() < 8 || s[2] != b':' || s[5] != b':' {
        return None;
    }
    let h = two(&s[0..2])?;
    let mi = two(&s[3..5])?;
    let se = two(&s[6..8])?;
    let mut ok = h <= 23 && mi <= 59 && se <= 60;
    let mut i = 8;
    let mut nanos: u32 = 0;
    if i < s.len() && s[i] == b'.' {
        i += 1;
        let st = i;
        while i < s.len() && s[i].is_ascii_digit() {
            i += 1;
        }
        if i == st {
            return None;
        }
        let mut scale = 100_000_000u32;
        for b in &s[st..i] {
            if scale == 0 {
                break; // truncation to nanoseconds
            }
            nanos += (*b - b'0') as u32 * scale;
            scale /= 10;
        }
    }
    let mut off = None;
    if i < s.len() {
        if !allow_offset {
            return None;
        }
        let rest = &s[i..];
        if rest == b"Z" || rest == b"z" {
            off = Some(Off::Z);
        } else if rest.len() == 6 && (rest[0] == b'+' || rest[0] == b'-') && rest[3] == b':' {
            let oh = two(&rest[1..3])?;
            let om = two(&rest[4..6])?;
            if oh > 23 || om > 59 {
                ok = false;
            }
            let total = oh as i16 * 60 + om as i16;
            off = Some(Off::Minutes(if rest[0] == b'-' { -total } else { total }));
        } else {
            return None;
        }
    }
    Some(((h, mi, se, nanos), off, ok))
}

fn match_datetime(run: &[u8]) -> DtMatch {
    // local-time
    if let Some((t, off, ok)) = match_time(run, false) {
        debug_assert!(off.is_none());
        return if ok { DtMatch::Ok(Dt { date: None, time: Some(t), offset: None }) } else { DtMatch::ShapeButOutOfRange };
    }
    if run.len() >= 10 {
        if let Some((date, dok)) = match_full_date(&run[..10]) {
            if run.len() == 10 {
                return if dok { DtMatch::Ok(Dt { date: Some(date), time: None, offset: None }) } else { DtMatch::ShapeButOutOfRange };
            }
            if matches!(run[10], b'T' | b't' | b' ') {
                if let Some((t, off, tok)) = match_time(&run[11..], true) {
                    return if dok && tok { DtMatch::Ok(Dt { date: Some(date), time: Some(t), offset: off }) } else { DtMatch::ShapeButOutOfRange };
                }
            }
        }
    }
    DtMatch::No
}

// ------------------------------------------------------------------------------------------------
// document driver

fn parse_once(text: &str, u1_permissive: bool) -> (R<(Node, Limits, Layout)>, bool, bool) {
    let s = text.as_bytes();
    let mut p = P { s, i: 0, limits: Limits::default(), layout: Layout::default(), depth_cap_hit: false };
    let mut defs = Defs::new(u1_permissive);
    let r = document(&mut p, &mut defs);
    let u1 = defs.u1_hit;
    let cap = p.depth_cap_hit;
    match r {
        Ok(()) => {
            let tree = Node { val: Val::Table(defs.build(0)), span: None, origin: Origin::Root };
            (Ok((tree, p.limits, p.layout)), u1, cap)
        }
        Err(e) => (Err(e), u1, cap),
    }
}

fn document(p: &mut P<'_>, defs: &mut Defs) -> R<()> {
    if p.starts_with(b"\xEF\xBB\xBF") {
        p.i += 3;
        p.layout.has_bom = true;
    }
    let mut last;
    loop {
        // expression = ws [comment] / ws keyval ws [comment] / ws table ws [comment]
        last = LastLine::Trivia;
        p.ws();
        match p.peek() {
            None => break,
            Some(b'#') => {}
            Some(b'\n') | Some(b'\r') => {}
            Some(b'[') => {
                let is_array = p.starts_with(b"[[");
                p.i += if is_array { 2 } else { 1 };
                let (path, pidx) = p.key()?;
                if is_array {
                    if !p.starts_with(b"]]") {
                        return rej(p.i, "expected ]] closing array-of-tables header");
                    }
                    p.i += 2;
                    defs.array_header(&path, pidx)?;
                    p.layout.statements.push('a');
                } else {
                    if p.peek() != Some(b']') {
                        return rej(p.i, "expected ] closing table header");
                    }
                    p.i += 1;
                    defs.std_header(&path, pidx)?;
                    p.layout.statements.push('h');
                }
                last = LastLine::Header;
                p.ws();
            }
            Some(_) => {
                let (path, pidx) = p.key()?;
                if p.peek() != Some(b'=') {
                    return rej(p.i, "expected = after key");
                }
                p.i += 1;
                p.ws();
                let v = p.value(path.len() - 1)?;
                let (cur, sec) = (defs.current, defs.section);
                p.layout.keyvals.push((sec, path.iter().map(|(k, _)| k.clone()).collect()));
                defs.keyval(cur, sec, &path, pidx, v)?;
                p.layout.statements.push('k');
                last = LastLine::Keyval;
                p.ws();
            }
        }
        if p.peek() == Some(b'#') {
            p.comment()?;
        }
        if p.eof() {
            break;
        }
        if !p.newline() {
            return rej(p.i, "expected newline or end of input after expression");
        }
    }
    defs.resolve(&mut p.layout);
    p.layout.last_line = Some(last);
    p.layout.ends_with_newline = p.s.ends_with(b"\n");
    Ok(())
}

/// The specification's verdict on `text` as a TOML 1.0.0 document.
pub fn ref_parse(text: &str) -> Verdict {
    let (strict, u1, cap) = parse_once(text, false);
    if cap {
        // deeper than the model is willing to recurse: far inside the implementation-limit zone
        return match strict {
            Ok((tree, mut limits, layout)) => {
                limits.depth = true;
                Verdict::Valid { tree, limits, layout }
            }
            Err(mut e) => {
                e.rule = "MODEL-DEPTH-CAP";
                Verdict::Invalid(e)
            }
        };
    }
    match strict {
        Ok((tree, limits, layout)) => {
            debug_assert!(!u1 || true);
            Verdict::Valid { tree, limits, layout }
        }
        Err(e) => {
            if u1 && e.rule == U1_RULE {
                let (perm, _, _) = parse_once(text, true);
                match perm {
                    Ok(_) => Verdict::UndecidedU1,
                    // invalid under both readings (possibly for different reasons)
                    Err(e2) => Verdict::Invalid(e2),
                }
            } else {
                Verdict::Invalid(e)
            }
        }
    }
}

/// Verdict for the byte-slice entry point: invalid UTF-8 is invalid TOML.
pub fn ref_parse_bytes(bytes: &[u8]) -> Verdict {
    match std::str::from_utf8(bytes) {
        Ok(s) => ref_parse(s),
        Err(e) => Verdict::Invalid(Reject { at: e.valid_up_to(), rule: "invalid UTF-8", semantic: false }),
    }
}

/// `s` as a stand-alone date-time (the whole string must be one).
pub fn parse_datetime_str(s: &str) -> Option<Dt> {
    match match_datetime(s.as_bytes()) {
        DtMatch::Ok(d) => Some(d),
        _ => None,
    }
}

/// `s` as a stand-alone value (no surrounding whitespace / comments are accepted here).
pub fn parse_value_str(s: &str) -> Result<(Node, Limits), Reject> {
    let mut p = P { s: s.as_bytes(), i: 0, limits: Limits::default(), layout: Layout::default(), depth_cap_hit: false };
    let n = p.value(0)?;
    if !p.eof() {
        return rej(p.i, "trailing characters after value");
    }
    Ok((n, p.limits))
}

/// `s` as a stand-alone (possibly dotted) key; surrounding whitespace allowed as in a keyval.
pub fn parse_key_str(s: &str) -> Result<Vec<String>, Reject> {
    let mut p = P { s: s.as_bytes(), i: 0, limits: Limits::default(), layout: Layout::default(), depth_cap_hit: false };
    p.ws();
    let (k, _) = p.key()?;
    if !p.eof() {
        return rej(p.i, "trailing characters after key");
    }
    Ok(k.into_iter().map(|(k, _)| k).collect())
}

#[cfg(test)]
mod tests {
    use super::*;
    fn v(s: &str) -> bool {
        ref_parse(s).is_valid()
    }
    #[test]
    fn basics() {
        assert!(v(""));
        assert!(v("a=1"));
        assert!(v("a=1\n"));
        assert!(v("a = 1 # c\n[b]\nc.d = 'x'\n[[e]]\n[[e]]\n"));
        assert!(!v("a=1 b=2"));
        assert!(!v("a=1\na=2"));
        assert!(!v("a=01"));
        assert!(v("a=0x_1") == false);
        assert!(v("a=1979-05-27 07:32:00Z"));
        assert!(v("a=1979-05-27 # c"));
        assert!(!v("a=1979-02-30"));
        assert!(v("a=\"\"\"\"\"\"\"\"")); // open + 2 quotes + close
        assert!(!v("a=\"\"\"\"\"\"\"\"\"")); // 9 quotes
        assert!(v("a={b.c=1,b.d=2}"));
        assert!(!v("a={b=1,b.d=2}"));
        assert!(!v("a={b=1,}"));
        assert!(v("a=[1,2,]"));
        assert!(v("[a.b]\n[a]\n"));
        assert!(!v("[a]\n[a]\n"));
        assert!(!v("a.b=1\n[a]\n"));
        assert!(v("a.b=1\n[a.c]\n"));
        assert!(!v("[[a.b]]\n[a]\nb.c.d=1"));
        assert!(matches!(ref_parse("[a.b.c]\n[a]\nb.d=1"), Verdict::UndecidedU1));
        assert!(!v("[a.b.c]\n[a]\nb.c.t=1"));
        assert!(!v("[a.b]\n[a]\nb.c=1"));
        assert!(v("[a]\nb.c=1\n[a.b.d]\n"));
        assert!(!v("[a]\nb.c=1\n[a.b]\n"));
        assert!(v("\u{feff}a=1"));
        assert!(!v("a=1\r"));
        assert!(v("a=1\r\n"));
    }
}
