//! Plain data types of the specification model.

#[derive(Clone, Copy, Debug, PartialEq, Eq, Hash, PartialOrd, Ord)]
pub struct Span {
    pub start: usize,
    pub end: usize,
}

#[derive(Clone, Copy, Debug, PartialEq, Eq, Hash)]
pub enum Off {
    Z,
    /// signed minutes east of UTC
    Minutes(i16),
}

#[derive(Clone, Copy, Debug, PartialEq, Eq, Hash)]
pub struct Dt {
    /// (year, month, day)
    pub date: Option<(u16, u8, u8)>,
    /// (hour, minute, second, nanosecond)
    pub time: Option<(u8, u8, u8, u32)>,
    pub offset: Option<Off>,
}

#[derive(Clone, Copy, Debug, PartialEq, Eq, Hash)]
pub enum Origin {
    Scalar,
    InlineArray,
    InlineTable,
    /// table defined by its own `[header]`
    HeaderTable,
    /// table that exists only as super-table of header-defined tables
    ImplicitTable,
    /// table created by a dotted key
    DottedTable,
    /// the array behind `[[header]]`
    AotArray,
    /// one element of an array of tables
    AotElement,
    Root,
}

#[derive(Clone, Debug)]
pub enum Val {
    Str(String),
    Int(i128),
    Float(f64),
    Bool(bool),
    Dt(Dt),
    Array(Vec<Node>),
    Table(Vec<Entry>),
}

#[derive(Clone, Debug)]
pub struct Node {
    pub val: Val,
    /// extent of the value token (scalars, arrays, inline tables); `None` for header / dotted / implicit tables
    pub span: Option<Span>,
    pub origin: Origin,
}

#[derive(Clone, Debug)]
pub struct Entry {
    pub key: String,
    /// extent of the simple key (with quotes) at the occurrence that created the entry
    pub key_span: Span,
    pub node: Node,
    /// the entry was first created implicitly (as super-table in a header path) and only later
    /// defined by its own `[header]`: its position in "source order" is ambiguous
    pub late: bool,
}

#[derive(Clone, Copy, Debug, Default, PartialEq, Eq)]
pub struct Limits {
    /// some integer literal lies outside i64
    pub int_overflow: bool,
    /// some decimal float literal rounds to +-inf
    pub float_overflow: bool,
    /// array / inline-table nesting or a dotted key length reaches 80 (implementation limit zone)
    pub depth: bool,
}

impl Limits {
    pub fn any(&self) -> bool {
        self.int_overflow || self.float_overflow || self.depth
    }
}

#[derive(Clone, Copy, Debug, PartialEq, Eq)]
pub enum LastLine {
    /// nothing or only whitespace / comment on the last line
    Trivia,
    Keyval,
    Header,
}

/// one simple key inside a (possibly dotted) key path, with the whitespace around it
#[derive(Clone, Copy, Debug)]
pub struct Seg {
    pub pre: Span,
    pub key: Span,
    pub post: Span,
}

/// one occurrence of a key path (header or key/value pair)
#[derive(Clone, Debug)]
pub struct PathOcc {
    pub segs: Vec<Seg>,
    /// per segment: (path occurrence, segment) whose spelling an implementation that stores ONE key per table entry keeps
    pub stored: Vec<(usize, usize)>,
}

#[derive(Clone, Debug, Default)]
pub struct Layout {
    pub paths: Vec<PathOcc>,
    pub has_bom: bool,
    /// extents of multi-line string tokens (delimiters included)
    pub ml_spans: Vec<Span>,
    /// extents of comments (`#` up to, not including, the line end)
    pub comments: Vec<Span>,
    /// every simple key occurrence, in source order
    pub key_tokens: Vec<Span>,
    /// every value token (scalars, arrays, inline tables; nested ones too), in source order of their start
    pub value_tokens: Vec<Span>,
    pub last_line: Option<LastLine>,
    pub ends_with_newline: bool,
    /// statement kinds in order: 'h' header, 'a' array header, 'k' keyval
    pub statements: Vec<char>,
    /// every key/value pair as (scope id, decoded key path); scope = section (root = 0, +1 per header) or a fresh id (>= 1_000_000) per inline table
    pub keyvals: Vec<(usize, Vec<String>)>,
    /// number of inline-table scopes handed out so far
    pub inline_scopes: usize,
}

#[derive(Clone, Debug)]
pub struct Reject {
    pub at: usize,
    pub rule: &'static str,
    /// true if the rejection comes from the definition rules (duplicate key, redefinition, extension
    /// of frozen values), false if it is lexical / syntactic / range
    pub semantic: bool,
}

#[derive(Clone, Debug)]
pub enum Verdict {
    Valid { tree: Node, limits: Limits, layout: Layout },
    Invalid(Reject),
    /// class U1 (DESIGN.md 3.3): the two readings of the specification give different results
    UndecidedU1,
}

impl Verdict {
    pub fn is_valid(&self) -> bool {
        matches!(self, Verdict::Valid { .. })
    }
    pub fn is_invalid(&self) -> bool {
        matches!(self, Verdict::Invalid(_))
    }
}

impl Node {
    pub fn depth(&self) -> usize {
        match &self.val {
            Val::Array(a) => 1 + a.iter().map(|n| n.depth()).max().unwrap_or(0),
            Val::Table(t) => 1 + t.iter().map(|e| e.node.depth()).max().unwrap_or(0),
            _ => 0,
        }
    }
    pub fn count(&self) -> usize {
        match &self.val {
            Val::Array(a) => 1 + a.iter().map(|n| n.count()).sum::<usize>(),
            Val::Table(t) => 1 + t.iter().map(|e| e.node.count()).sum::<usize>(),
            _ => 1,
        }
    }
    /// Canonical text of the *data* (no spans, no origins); floats by bits, NaN as sign only.
    pub fn canon(&self) -> String {
        let mut s = String::new();
        self.canon_into(&mut s, false);
        s
    }
    /// Same, with table keys sorted (for comparison with sorted maps).
    pub fn canon_sorted(&self) -> String {
        let mut s = String::new();
        self.canon_into(&mut s, true);
        s
    }
    fn canon_into(&self, out: &mut String, sorted: bool) {
        use std::fmt::Write;
        match &self.val {
            Val::Str(x) => {
                let _ = write!(out, "s{:?}", x);
            }
            Val::Int(i) => {
                let _ = write!(out, "i{}", i);
            }
            Val::Float(f) => {
                out.push_str(&canon_float(*f));
            }
            Val::Bool(b) => {
                let _ = write!(out, "b{}", b);
            }
            Val::Dt(d) => out.push_str(&canon_dt(d)),
            Val::Array(a) => {
                out.push('[');
                for (i, n) in a.iter().enumerate() {
                    if i > 0 {
                        out.push(',');
                    }
                    n.canon_into(out, sorted);
                }
                out.push(']');
            }
            Val::Table(t) => {
                out.push('{');
                let mut idx: Vec<usize> = (0..t.len()).collect();
                if sorted {
                    idx.sort_by(|a, b| t[*a].key.cmp(&t[*b].key));
                }
                for (n, i) in idx.into_iter().enumerate() {
                    if n > 0 {
                        out.push(',');
                    }
                    let _ = write!(out, "{:?}:", t[i].key);
                    t[i].node.canon_into(out, sorted);
                }
                out.push('}');
            }
        }
    }
}

pub fn canon_float(f: f64) -> String {
    if f.is_nan() {
        if f.is_sign_negative() {
            "f-nan".to_string()
        } else {
            "f+nan".to_string()
        }
    } else {
        format!("f{:016x}", f.to_bits())
    }
}

pub fn canon_dt(d: &Dt) -> String {
    use std::fmt::Write;
    let mut s = String::from("d");
    if let Some((y, m, dd)) = d.date {
        let _ = write!(s, "{:04}-{:02}-{:02}", y, m, dd);
    }
    if let Some((h, mi, se, ns)) = d.time {
        if d.date.is_some() {
            s.push('T');
        }
        let _ = write!(s, "{:02}:{:02}:{:02}.{:09}", h, mi, se, ns);
    }
    match d.offset {
        Some(Off::Z) => s.push('Z'),
        Some(Off::Minutes(m)) => {
            let _ = write!(s, "{:+}", m);
        }
        None => {}
    }
    s
}
