//! cfgbattery — the same deterministic battery under every cargo feature configuration (C18; also the
//! insertion-ordered halves of C16 and C17).  Prints one digest per block of 256 items per kind; the parent
//! (`mc C18`) compares the digests across configurations and uses `dump` to locate a differing item.
#![allow(dead_code, unused_imports, unused_variables, unused_mut)]

use std::fmt::Write as _;

fn hash64(s: &[u8], mut h: u64) -> u64 {
    for b in s {
        h ^= *b as u64;
        h = h.wrapping_mul(0x100000001b3);
    }
    h
}
const H0: u64 = 0xcbf29ce484222325;

/// a panic inside the library is a RESULT of that configuration (compared like any other), not a crash of the battery
fn guard<T>(f: impl FnOnce() -> T) -> Result<T, String> {
    std::panic::catch_unwind(std::panic::AssertUnwindSafe(f)).map_err(|p| {
        let m = if let Some(s) = p.downcast_ref::<&str>() {
            s.to_string()
        } else if let Some(s) = p.downcast_ref::<String>() {
            s.clone()
        } else {
            "?".to_string()
        };
        format!("PANIC {}", m.lines().next().unwrap_or(""))
    })
}

/// valid documents around and beyond the recursion limit (the `unbounded` exception): (label, text)
fn deep_docs() -> Vec<(String, String)> {
    let mut out = Vec::new();
    for d in [1usize, 40, 78, 79, 80, 81, 100, 127, 128, 129, 200] {
        out.push((format!("arrays x{}", d), format!("k = {}1{}\n", "[".repeat(d), "]".repeat(d))));
        out.push((format!("inline tables x{}", d), format!("k = {}1{}\n", "{a = ".repeat(d), "}".repeat(d))));
        out.push((format!("dotted key x{}", d), format!("{} = 1\n", vec!["a"; d].join("."))));
        out.push((format!("header path x{}", d), format!("[{}]\nx = 1\n", vec!["a"; d].join("."))));
        out.push((format!("array-of-tables path x{}", d), format!("[[{}]]\nx = 1\n", vec!["a"; d].join("."))));
        out.push((format!("dotted key in inline table x{}", d), format!("k = {{ {} = 1 }}\n", vec!["a"; d].join("."))));
        out.push((format!("mixed array/inline x{}", d), format!("k = {}1{}\n", "[{a = ".repeat(d / 2 + 1), "}]".repeat(d / 2 + 1))));
    }
    out
}

// ---- battery (generated sequentially, identical in every configuration)

const T24: [&str; 24] = ["a", "b", "=", "1", "\n", " ", ".", "[", "]", "\"a\"", "'b'", "{", "}", ",", "0", "-", "_", "e", ":", "true", "inf", "\r\n", "#c", "\"\"\""];

fn docs() -> Vec<String> {
    let mut out = Vec::new();
    // all sequences of <= 4 tokens
    for n in 0..=4usize {
        let total = 24usize.pow(n as u32);
        for idx in 0..total {
            let mut i = idx;
            let mut d = [0usize; 4];
            for k in (0..n).rev() {
                d[k] = i % 24;
                i /= 24;
            }
            let mut s = String::new();
            for k in 0..n {
                s.push_str(T24[d[k]]);
            }
            out.push(s);
        }
    }
    // statements: <= 3 of {[p], [[p]], p = 1, p = {b.a = 1}, p = [1]} over paths of length <= 2 over {a, b}
    let paths = ["a", "b", "a.a", "a.b", "b.a", "b.b", "\"a\"", "'a'.b"];
    let mut st = Vec::new();
    for p in paths {
        st.push(format!("[{}]\n", p));
        st.push(format!("[[{}]]\n", p));
        st.push(format!("{} = 1\n", p));
        st.push(format!("{} = {{b.a = 1}}\n", p));
        st.push(format!("{} = [1]\n", p));
    }
    for n in 0..=3usize {
        let total = st.len().pow(n as u32);
        for idx in 0..total {
            let mut i = idx;
            let mut parts = Vec::new();
            for _ in 0..n {
                parts.push(i % st.len());
                i /= st.len();
            }
            parts.reverse();
            out.push(parts.iter().map(|k| st[*k].as_str()).collect::<String>());
        }
    }
    // range-edge literals, strings, date-times, decor
    for lit in [
        "9223372036854775807", "9223372036854775808", "-9223372036854775808", "-9223372036854775809", "0x7fffffffffffffff", "0x8000000000000000", "0o777777777777777777777", "0b1", "1e308", "1e309", "-1e309", "1.7976931348623157e308", "5e-324", "1e-400", "-0.0", "+0.0", "inf", "-inf", "nan", "-nan",
        "1_000", "1__0", "01", "1979-05-27T07:32:00Z", "1979-05-27 07:32:00.123456789123-07:00", "2000-02-30", "24:00:00", "07:32:00.5", "\"\\u00e9\\U0001F600\"", "'''\na'b''c'''", "\"\"\"\\\n  x\"\"\"", "[1, [2, {a = [3]}]]", "{a.b = 1, a.c = {d = []}}", "\"a\\q\"", "'\u{7f}'",
    ] {
        out.push(format!("k = {}\n", lit));
        out.push(format!("k = [ {} , ] # c\n", lit));
    }
    for d in [
        "# c\n\n  a  =  1   # c\r\n[ t . \"u\" ]  # c\nb.c = 2\n\n[[x]]\n[[x]]\ny = [\n 1, # c\n 2\n]\n",
        "\u{feff}a = 1\r\nb = 2",
        "z = 1\ny = 2\nx.b = 1\nx.a = 2\n[t]\nb = 1\na = 2\n[s]\n",
        "[b]\nk = 1\n[a]\nk = 2\n[a.z]\n[a.y]\n",
        "é = 'é'\n\"😀\" = \"\\u00e9\"\n",
    ] {
        out.push(d.to_string());
    }
    out
}

struct Blocks {
    kind: &'static str,
    cur: u64,
    n_in_block: usize,
    block: usize,
    count: usize,
    dump: Option<(String, usize)>,
}
impl Blocks {
    fn new(kind: &'static str, dump: &Option<(String, usize)>) -> Self {
        Blocks { kind, cur: H0, n_in_block: 0, block: 0, count: 0, dump: dump.clone() }
    }
    fn item(&mut self, text: &str) {
        if let Some((k, b)) = &self.dump {
            if k == self.kind && *b == self.block {
                println!("ITEM {} {} {:?}", self.kind, self.count, text);
            }
        }
        self.cur = hash64(text.as_bytes(), self.cur);
        self.cur = hash64(b"\x00", self.cur);
        self.n_in_block += 1;
        self.count += 1;
        if self.n_in_block == 256 {
            self.flush();
        }
    }
    fn flush(&mut self) {
        if self.n_in_block > 0 {
            if self.dump.is_none() {
                println!("BLOCK {} {} {:016x}", self.kind, self.block, self.cur);
            }
            self.block += 1;
            self.cur = H0;
            self.n_in_block = 0;
        }
    }
    fn done(mut self) {
        self.flush();
        if self.dump.is_none() {
            println!("DONE {} {}", self.kind, self.count);
        }
    }
}

// ---- toml_edit

#[cfg(feature = "te")]
mod te {
    use super::*;
    use toml_edit::{Item, Table, Value};

    pub fn canon_item(item: &Item, out: &mut String) {
        match item {
            Item::None => out.push_str("NONE"),
            Item::Value(v) => canon_value(v, out),
            Item::Table(t) => canon_table(t, out),
            Item::ArrayOfTables(a) => {
                out.push('[');
                for (i, t) in a.iter().enumerate() {
                    if i > 0 {
                        out.push(',');
                    }
                    canon_table(t, out);
                }
                out.push(']');
            }
        }
    }
    pub fn canon_table(t: &Table, out: &mut String) {
        out.push('{');
        for (n, (k, v)) in t.iter().enumerate() {
            if n > 0 {
                out.push(',');
            }
            let _ = write!(out, "{:?}:", k);
            canon_item(v, out);
        }
        out.push('}');
    }
    pub fn canon_value(v: &Value, out: &mut String) {
        match v {
            Value::String(s) => {
                let _ = write!(out, "s{:?}", s.value());
            }
            Value::Integer(i) => {
                let _ = write!(out, "i{}", i.value());
            }
            Value::Float(f) => {
                let _ = write!(out, "f{:016x}", f.value().to_bits());
            }
            Value::Boolean(b) => {
                let _ = write!(out, "b{}", b.value());
            }
            Value::Datetime(d) => {
                let d = d.value();
                let _ = write!(out, "d{:?}", (d.date.map(|x| (x.year, x.month, x.day)), d.time.map(|t| (t.hour, t.minute, t.second, t.nanosecond)), d.offset.map(|o| format!("{:?}", o))));
            }
            Value::Array(a) => {
                out.push('[');
                for (i, x) in a.iter().enumerate() {
                    if i > 0 {
                        out.push(',');
                    }
                    canon_value(x, out);
                }
                out.push(']');
            }
            Value::InlineTable(t) => {
                out.push('{');
                for (n, (k, x)) in t.iter().enumerate() {
                    if n > 0 {
                        out.push(',');
                    }
                    let _ = write!(out, "{:?}:", k);
                    canon_value(x, out);
                }
                out.push('}');
            }
        }
    }

    #[cfg(feature = "te_parse")]
    pub fn parse_kinds(docs: &[String], dump: &Option<(String, usize)>) {
        let mut verdict = Blocks::new("te.verdict", dump);
        let mut tree = Blocks::new("te.tree", dump);
        #[cfg(feature = "te_display")]
        let mut print = Blocks::new("te.print", dump);
        #[cfg(feature = "te_display")]
        let mut sorted = Blocks::new("te.sorted.print", dump);
        let mut im = Blocks::new("te.imdocument.tree", dump);
        let mut val = Blocks::new("te.value.verdict", dump);
        for d in docs {
            // (verdict, tree, print, sorted print)
            let r = guard(|| match d.parse::<toml_edit::DocumentMut>() {
                Ok(mut doc) => {
                    let mut c = String::new();
                    canon_table(doc.as_table(), &mut c);
                    #[cfg(feature = "te_display")]
                    let (p, sp) = {
                        let p = doc.to_string();
                        doc.as_table_mut().sort_values();
                        for (_, it) in doc.as_table_mut().iter_mut() {
                            if let Some(t) = it.as_table_like_mut() {
                                t.sort_values();
                            }
                        }
                        (p, doc.to_string())
                    };
                    #[cfg(not(feature = "te_display"))]
                    let (p, sp) = (String::new(), String::new());
                    ("1".to_string(), c, p, sp)
                }
                Err(e) => {
                    // the error value must be usable in every configuration
                    let _ = (e.message().len(), e.span(), format!("{:?}", e).len());
                    ("0".to_string(), "-".to_string(), "-".to_string(), "-".to_string())
                }
            });
            let (v, t, p, sp) = r.unwrap_or_else(|m| (m.clone(), m.clone(), m.clone(), m));
            verdict.item(&v);
            tree.item(&t);
            #[cfg(feature = "te_display")]
            {
                print.item(&p);
                sorted.item(&sp);
            }
            let _ = (&p, &sp);
            let r = guard(|| match toml_edit::ImDocument::parse(d.as_str()) {
                Ok(doc) => {
                    let mut c = String::new();
                    canon_table(doc.as_table(), &mut c);
                    c
                }
                Err(_) => "-".to_string(),
            });
            im.item(&r.unwrap_or_else(|m| m));
            if d.len() <= 12 {
                val.item(&guard(|| if d.parse::<toml_edit::Value>().is_ok() { "1" } else { "0" }.to_string()).unwrap_or_else(|m| m));
                val.item(&guard(|| if d.parse::<toml_edit::Key>().is_ok() { "1" } else { "0" }.to_string()).unwrap_or_else(|m| m));
            }
        }
        // around and beyond the recursion limit: compared between configurations with the same boundedness only
        let unb = cfg!(feature = "te_unbounded");
        let mut deep = Blocks::new(if unb { "te.deep.verdict[unbounded]" } else { "te.deep.verdict[bounded]" }, dump);
        for (label, text) in deep_docs() {
            let r = guard(|| match text.parse::<toml_edit::DocumentMut>() {
                Ok(doc) => {
                    drop(doc);
                    "1".to_string()
                }
                Err(e) => format!("0 {}", e.message().lines().next().unwrap_or("")),
            })
            .unwrap_or_else(|m| m);
            if unb && r != "1" {
                println!("VIOL unbounded configuration does not accept a valid deeply nested document ({}): {}", label, r);
            }
            // (only the verdict is compared across configurations; the wording of an error may depend on features)
            deep.item(if r == "1" { "1" } else if r.starts_with("PANIC") { &r } else { "0" });
        }
        deep.done();
        verdict.done();
        tree.done();
        #[cfg(feature = "te_display")]
        {
            print.done();
            sorted.done();
        }
        im.done();
        val.done();
    }

    /// the public string / key types as ordered, hashed and compared values: `InternalString` (a different backend under
    /// `perf`) and `Key` must order, compare and hash like the `str` they hold, in every configuration
    pub fn string_kinds(dump: &Option<(String, usize)>) {
        use std::collections::{BTreeMap, BTreeSet, HashSet};
        use toml_edit::{InternalString, Key};
        let mut b = Blocks::new("te.strings.order", dump);
        let strs = ["", "a", "b", "aa", "ab", "ba", "B", "alpha", "zeta", "é", "z", "a b", "a.b", "\u{10FFFF}", "aaaaaaaaaaaaaaaaaaaaaaaaaaaaaaaa", "aaaaaaaaaaaaaaaaaaaaaaaaaaaaaaab", "b\0", "1", "10", "9"];
        for x in strs {
            for y in strs {
                let (ix, iy) = (InternalString::from(x), InternalString::from(y));
                let (kx, ky) = (Key::new(x), Key::new(y));
                let line = format!("{:?} {:?} is.cmp={:?} is.partial={:?} is.eq={} key.cmp={:?} key.eq={}", x, y, ix.cmp(&iy), ix.partial_cmp(&iy), ix == iy, kx.cmp(&ky), kx == ky);
                if ix.cmp(&iy) != x.cmp(y) || ix.partial_cmp(&iy) != Some(x.cmp(y)) || (ix == iy) != (x == y) {
                    println!("VIOL InternalString does not order / compare like the str it holds: {}", line);
                }
                if kx.cmp(&ky) != x.cmp(y) || (kx == ky) != (x == y) {
                    println!("VIOL Key does not order / compare like the str it holds: {}", line);
                }
                b.item(&line);
            }
        }
        let sorted: Vec<String> = {
            let mut v: Vec<InternalString> = strs.iter().map(|s| InternalString::from(*s)).collect();
            v.sort();
            v.iter().map(|s| s.as_str().to_string()).collect()
        };
        let set: BTreeSet<InternalString> = strs.iter().map(|s| InternalString::from(*s)).collect();
        let map: BTreeMap<InternalString, usize> = strs.iter().enumerate().map(|(i, s)| (InternalString::from(*s), i)).collect();
        let hs: HashSet<InternalString> = strs.iter().map(|s| InternalString::from(*s)).collect();
        let mut want: Vec<String> = strs.iter().map(|s| s.to_string()).collect();
        want.sort();
        if sorted != want || set.iter().map(|s| s.as_str().to_string()).collect::<Vec<_>>() != want {
            println!("VIOL sorting InternalStrings gives {:?}, sorting the same strs gives {:?}", sorted, want);
        }
        for (i, s) in strs.iter().enumerate() {
            // lookups through Borrow<str>
            if map.get(*s) != Some(&i) || !set.contains(*s) || !hs.contains(*s) {
                println!("VIOL a BTreeMap / BTreeSet / HashSet keyed by InternalString does not find {:?} through Borrow<str>", s);
            }
        }
        b.item(&format!("{:?}", sorted));
        b.done();
    }

    /// API-built structures printed (needs only `display`)
    #[cfg(feature = "te_display")]
    pub fn build_kinds(dump: &Option<(String, usize)>) {
        use toml_edit::{value, Array, ArrayOfTables, DocumentMut, InlineTable};
        let mut b = Blocks::new("te.build.print", dump);
        let keys = ["a", "", "a b", "a.b", "é", "\"", "1"];
        let vals: Vec<Box<dyn Fn() -> Item>> = vec![
            Box::new(|| value(1)),
            Box::new(|| value("s\n\"'")),
            Box::new(|| value("'''")),
            Box::new(|| value(1.5)),
            Box::new(|| value(f64::NAN)),
            Box::new(|| value(-0.0)),
            Box::new(|| value(1e300)),
            Box::new(|| value(true)),
            Box::new(|| value(Array::from_iter([1, 2]))),
            Box::new(|| value(InlineTable::from_iter([("x", 1), ("y z", 2)]))),
            Box::new(|| {
                let mut t = Table::new();
                t.insert("z", value(1));
                t.insert("a", value(2));
                Item::Table(t)
            }),
            Box::new(|| {
                let mut t = Table::new();
                t.insert("z", value(1));
                let mut a = ArrayOfTables::new();
                a.push(t.clone());
                a.push(t);
                Item::ArrayOfTables(a)
            }),
        ];
        for k1 in keys {
            for v1 in &vals {
                for k2 in keys {
                    for v2 in &vals {
                        if k1 == k2 {
                            continue;
                        }
                        let mut doc = DocumentMut::new();
                        doc.insert(k1, v1());
                        doc.insert(k2, v2());
                        b.item(&doc.to_string());
                        doc.as_table_mut().sort_values();
                        b.item(&doc.to_string());
                    }
                }
            }
        }
        b.done();
        // numbers: every power of two of the f64 range with three mantissa patterns and both signs, and the i64 lattice,
        // written by Value::from and printed (the writers may take a different path with `perf`)
        let mut n = Blocks::new("te.number.print", dump);
        for e in 0..2048u64 {
            for m in [0u64, 1, 0x000F_FFFF_FFFF_FFFF, 0x0008_0000_0000_0000, 0x0005_5555_5555_5555] {
                for sgn in [0u64, 1] {
                    let f = f64::from_bits((sgn << 63) | (e << 52) | m);
                    let r = guard(|| Value::from(f).to_string()).unwrap_or_else(|m| m);
                    n.item(&r);
                }
            }
        }
        for k in 0..63u32 {
            for d in [-1i64, 0, 1] {
                for v in [(1i64 << k).wrapping_add(d), (1i64 << k).wrapping_neg().wrapping_add(d)] {
                    n.item(&guard(|| Value::from(v).to_string()).unwrap_or_else(|m| m));
                }
            }
        }
        for v in [i64::MIN, i64::MAX, 0] {
            n.item(&guard(|| Value::from(v).to_string()).unwrap_or_else(|m| m));
        }
        n.done();
    }
}

// ---- toml

#[cfg(feature = "tm")]
mod tm {
    use super::*;
    use toml::Value;

    pub fn canon(v: &Value, out: &mut String, sorted: bool) {
        match v {
            Value::String(s) => {
                let _ = write!(out, "s{:?}", s);
            }
            Value::Integer(i) => {
                let _ = write!(out, "i{}", i);
            }
            Value::Float(f) => {
                if f.is_nan() {
                    out.push_str("fnan");
                } else {
                    let _ = write!(out, "f{:016x}", f.to_bits());
                }
            }
            Value::Boolean(b) => {
                let _ = write!(out, "b{}", b);
            }
            Value::Datetime(d) => {
                let _ = write!(out, "d{}", d);
            }
            Value::Array(a) => {
                out.push('[');
                for (i, x) in a.iter().enumerate() {
                    if i > 0 {
                        out.push(',');
                    }
                    canon(x, out, sorted);
                }
                out.push(']');
            }
            Value::Table(t) => canon_table(t, out, sorted),
        }
    }
    pub fn canon_table(t: &toml::Table, out: &mut String, sorted: bool) {
        out.push('{');
        let mut items: Vec<(&String, &Value)> = t.iter().collect();
        if sorted {
            items.sort_by(|a, b| a.0.cmp(b.0));
        }
        for (n, (k, x)) in items.into_iter().enumerate() {
            if n > 0 {
                out.push(',');
            }
            let _ = write!(out, "{:?}:", k);
            canon(x, out, sorted);
        }
        out.push('}');
    }

    pub fn preserve() -> bool {
        let mut m = toml::map::Map::new();
        m.insert("b".to_string(), Value::Integer(1));
        m.insert("a".to_string(), Value::Integer(1));
        m.keys().next().map(|k| k == "b").unwrap_or(false)
    }

    #[cfg(feature = "tm_parse")]
    pub fn parse_kinds(docs: &[String], dump: &Option<(String, usize)>) {
        let mut verdict = Blocks::new("tm.verdict", dump);
        let mut sorted = Blocks::new("tm.tree.sorted", dump);
        let mut order = Blocks::new(if preserve() { "tm.tree.order[insertion]" } else { "tm.tree.order[sorted]" }, dump);
        #[cfg(feature = "tm_display")]
        let mut print_sorted = Blocks::new("tm.print.decoded-sorted", dump);
        #[cfg(feature = "tm_display")]
        let mut print_raw = Blocks::new(if preserve() { "tm.print.raw[insertion]" } else { "tm.print.raw[sorted]" }, dump);
        for d in docs {
            let parsed = match guard(|| toml::from_str::<toml::Table>(d).map_err(|e| { let _ = (e.message().len(), e.span(), format!("{:?}", e).len()); })) {
                Ok(r) => r,
                Err(m) => {
                    verdict.item(&m);
                    sorted.item(&m);
                    order.item(&m);
                    #[cfg(feature = "tm_display")]
                    {
                        print_sorted.item(&m);
                        print_raw.item(&m);
                    }
                    continue;
                }
            };
            match parsed {
                Ok(t) => {
                    // with preserve_order the VALUE entries of every table must come out in source order (the
                    // specification model's order); table-valued entries are left out of the comparison (where a
                    // re-opened table sits is not constrained)
                    if preserve() {
                        if let refmodel::Verdict::Valid { tree, limits, .. } = refmodel::ref_parse(d) {
                            fn model_keys(n: &refmodel::Node, out: &mut String) {
                                match &n.val {
                                    refmodel::Val::Table(es) => {
                                        out.push('{');
                                        for e in es {
                                            if !matches!(e.node.val, refmodel::Val::Table(_)) && !matches!(&e.node.val, refmodel::Val::Array(a) if a.iter().any(|x| matches!(x.val, refmodel::Val::Table(_)))) {
                                                out.push_str(&format!("{:?},", e.key));
                                            }
                                        }
                                        let mut subs: Vec<&refmodel::Entry> = es.iter().filter(|e| matches!(e.node.val, refmodel::Val::Table(_))).collect();
                                        subs.sort_by(|a, b| a.key.cmp(&b.key));
                                        for e in subs {
                                            out.push_str(&format!("{:?}:", e.key));
                                            model_keys(&e.node, out);
                                        }
                                        out.push('}');
                                    }
                                    _ => {}
                                }
                            }
                            fn real_keys(t: &toml::Table, out: &mut String) {
                                out.push('{');
                                for (k, v) in t.iter() {
                                    if !v.is_table() && !matches!(v, Value::Array(a) if a.iter().any(|x| x.is_table())) {
                                        out.push_str(&format!("{:?},", k));
                                    }
                                }
                                let mut subs: Vec<(&String, &Value)> = t.iter().filter(|(_, v)| v.is_table()).collect();
                                subs.sort_by(|a, b| a.0.cmp(b.0));
                                for (k, v) in subs {
                                    out.push_str(&format!("{:?}:", k));
                                    real_keys(v.as_table().unwrap(), out);
                                }
                                out.push('}');
                            }
                            // sub-tables and arrays of tables come in the order of their first appearance too (a super-table that was
                            // first implied by a longer header and only later defined by its own is left out: its place is ambiguous)
                            fn table_order(n: &refmodel::Node, t: &toml::Table) -> Result<(), String> {
                                let refmodel::Val::Table(es) = &n.val else { return Ok(()) };
                                let tablish_m = |v: &refmodel::Val| matches!(v, refmodel::Val::Table(_)) || matches!(v, refmodel::Val::Array(a) if a.iter().any(|x| matches!(x.val, refmodel::Val::Table(_))));
                                let late: Vec<&String> = es.iter().filter(|e| e.late).map(|e| &e.key).collect();
                                let want: Vec<&String> = es.iter().filter(|e| tablish_m(&e.node.val) && !e.late).map(|e| &e.key).collect();
                                let got: Vec<&String> = t.iter().filter(|(k, v)| (v.is_table() || matches!(v, Value::Array(a) if a.iter().any(|x| x.is_table()))) && !late.contains(k)).map(|(k, _)| k).collect();
                                if want != got {
                                    return Err(format!("tables / arrays of tables in the order {:?}, the source has them in the order {:?}", got, want));
                                }
                                for e in es {
                                    match (&e.node.val, t.get(&e.key)) {
                                        (refmodel::Val::Table(_), Some(Value::Table(st))) => table_order(&e.node, st)?,
                                        (refmodel::Val::Array(ms), Some(Value::Array(a))) => {
                                            for (m, x) in ms.iter().zip(a.iter()) {
                                                if let Value::Table(st) = x {
                                                    table_order(m, st)?;
                                                }
                                            }
                                        }
                                        _ => {}
                                    }
                                }
                                Ok(())
                            }
                            if !limits.any() {
                                if let Err(e) = table_order(&tree, &t) {
                                    println!("VIOL toml::Table[preserve_order] does not keep the source order of keys: {:?} decodes with {}", d, e);
                                }
                            }
                            if !limits.any() {
                                let (mut a, mut b) = (String::new(), String::new());
                                model_keys(&tree, &mut a);
                                real_keys(&t, &mut b);
                                if a != b {
                                    println!("VIOL toml::Table[preserve_order] does not keep the source order of keys: {:?} decodes with key order {} (source order {})", d, b, a);
                                }
                            }
                        }
                    }
                    verdict.item("1");
                    let mut c = String::new();
                    canon_table(&t, &mut c, true);
                    sorted.item(&c);
                    let mut c = String::new();
                    canon_table(&t, &mut c, false);
                    order.item(&c);
                    #[cfg(feature = "tm_display")]
                    {
                        let text = toml::to_string(&t).unwrap_or_else(|e| format!("SER-ERROR {}", e));
                        print_raw.item(&text);
                        match toml::from_str::<toml::Table>(&text) {
                            Ok(back) => {
                                let mut c = String::new();
                                canon_table(&back, &mut c, true);
                                print_sorted.item(&c);
                                // (NaN != NaN by float semantics: only NaN-free tables are compared with ==)
                                if !c.contains("fnan") && back != t {
                                    println!("VIOL toml::Table printed and re-parsed compares unequal: {:?} -> {:?}", d, text);
                                }
                            }
                            Err(e) => {
                                println!("VIOL toml::to_string output does not parse: {:?} -> {:?}: {}", d, text, e);
                                print_sorted.item("UNPARSABLE");
                            }
                        }
                    }
                }
                Err(_) => {
                    verdict.item("0");
                    sorted.item("-");
                    order.item("-");
                    #[cfg(feature = "tm_display")]
                    {
                        print_sorted.item("-");
                        print_raw.item("-");
                    }
                }
            }
        }
        let unb = cfg!(feature = "te_unbounded");
        let mut deep = Blocks::new(if unb { "tm.deep.verdict[unbounded]" } else { "tm.deep.verdict[bounded]" }, dump);
        for (label, text) in deep_docs() {
            let r = guard(|| match toml::from_str::<toml::Table>(&text) {
                Ok(t) => {
                    drop(t);
                    "1".to_string()
                }
                Err(e) => format!("0 {}", e.message().lines().next().unwrap_or("")),
            })
            .unwrap_or_else(|m| m);
            if unb && r != "1" {
                println!("VIOL unbounded configuration does not accept a valid deeply nested document through toml::from_str ({}): {}", label, r);
            }
            // (only the verdict is compared across configurations; the wording of an error may depend on features)
            deep.item(if r == "1" { "1" } else if r.starts_with("PANIC") { &r } else { "0" });
        }
        deep.done();
        verdict.done();
        sorted.done();
        order.done();
        #[cfg(feature = "tm_display")]
        {
            print_sorted.done();
            print_raw.done();
        }
    }

    // value trees: every assignment of 7 entry kinds to 3 keys x every insertion order x 2 depths
    fn ek(k: usize, depth: usize) -> Value {
        use Value as V;
        let tab = |kv: Vec<(&str, Value)>| -> Value { V::Table(kv.into_iter().map(|(k, v)| (k.to_string(), v)).collect()) };
        match k {
            0 => V::Integer(1),
            1 => V::Array(vec![V::Integer(1), V::Integer(2)]),
            2 => {
                let mut kv = vec![("x", V::Integer(1))];
                if depth > 0 {
                    kv.push(("sub", ek(3, depth - 1)));
                    kv.push(("a", ek(2, depth - 1)));
                    kv.push(("m", ek(4, depth - 1)));
                }
                let t = tab(kv);
                V::Array(vec![t.clone(), t])
            }
            3 => {
                let mut kv = vec![("y", V::Integer(2))];
                if depth > 0 {
                    kv.push(("b", ek(2, depth - 1)));
                    kv.push(("a", ek(3, depth - 1)));
                    kv.push(("m", ek(4, depth - 1)));
                    kv.push(("e", ek(6, depth - 1)));
                    kv.push(("c", V::Integer(3)));
                }
                tab(kv)
            }
            4 => V::Array(vec![V::String("s".into()), tab(vec![("x", V::Integer(1))])]),
            5 => V::Table(toml::Table::new()),
            7 => V::Datetime("1979-05-27T07:32:00.5Z".parse().unwrap()),
            _ => V::Array(vec![]),
        }
    }

    /// per table (recursively, arrays of tables element-wise): its value keys, its table keys, its array-of-tables keys,
    /// each list in the map's iteration order
    #[cfg(all(feature = "tm_display", feature = "tm_parse"))]
    fn order_sig(t: &toml::Table) -> String {
        // classes: plain values (no table inside), mixed arrays (some elements are tables: written in the second pass but
        // spelled as an inline value), arrays of tables, tables - "values before sub-tables and arrays of tables"; the map's
        // order is kept within each class
        fn some_table(v: &Value) -> bool {
            matches!(v, Value::Array(a) if a.iter().any(|x| x.is_table()))
        }
        fn all_tables(v: &Value) -> bool {
            matches!(v, Value::Array(a) if !a.is_empty() && a.iter().all(|x| x.is_table()))
        }
        let mut vals = Vec::new();
        let mut mixed = Vec::new();
        let mut tabs = Vec::new();
        let mut aots = Vec::new();
        for (k, v) in t {
            match v {
                Value::Table(sub) => tabs.push(format!("{}{}", k, order_sig(sub))),
                v if all_tables(v) => aots.push(format!("{}[{}]", k, v.as_array().unwrap().iter().map(|e| e.as_table().map(order_sig).unwrap_or_default()).collect::<Vec<_>>().join(";"))),
                v if some_table(v) => mixed.push(k.clone()),
                _ => vals.push(k.clone()),
            }
        }
        let vals = [vals.join(","), mixed.join(",")].join("|");
        format!("(v:{} t:{} a:{})", vals, tabs.join(","), aots.join(","))
    }

    #[cfg(all(feature = "tm_display", feature = "tm_parse"))]
    pub fn value_trees(dump: &Option<(String, usize)>) {
        let mut b = Blocks::new("tm.valuetree.decoded-sorted", dump);
        let keys = ["a", "b", "c"];
        let perms = [[0, 1, 2], [0, 2, 1], [1, 0, 2], [1, 2, 0], [2, 0, 1], [2, 1, 0]];
        for a in 0..8usize.pow(3) {
            let assign = [a % 8, (a / 8) % 8, (a / 64) % 8];
            for p in perms {
                for depth in 0..2 {
                    let mut t = toml::Table::new();
                    for i in p {
                        t.insert(keys[i].to_string(), ek(assign[i], depth));
                    }
                    let mut want = String::new();
                    canon_table(&t, &mut want, true);
                    for (name, text) in [("to_string", toml::to_string(&t).unwrap_or_else(|e| format!("SER-ERROR {}", e))), ("to_string_pretty", toml::to_string_pretty(&t).unwrap_or_else(|e| format!("SER-ERROR {}", e))), ("Display", t.to_string())] {
                        if !refmodel::ref_parse(&text).is_valid() {
                            println!("VIOL {} of a toml::Table (insertion order {:?}, kinds {:?}, depth {}) is not valid TOML: {:?}", name, p, assign, depth, text);
                            continue;
                        }
                        match toml::from_str::<toml::Table>(&text) {
                            Ok(back) => {
                                let mut got = String::new();
                                canon_table(&back, &mut got, true);
                                if got != want {
                                    println!("VIOL {} of a toml::Table (insertion order {:?}, kinds {:?}, depth {}) decodes differently: {:?}", name, p, assign, depth, text);
                                }
                                if back != t {
                                    println!("VIOL {} of a toml::Table (insertion order {:?}, kinds {:?}, depth {}) decodes to a table that compares unequal (==) to the one printed: {:?}", name, p, assign, depth, text);
                                }
                                // print-then-parse keeps the map's own order within each class of entries (values, tables,
                                // arrays of tables) of every table: sorted in the default build, insertion order with preserve_order
                                if order_sig(&back) != order_sig(&t) {
                                    println!("VIOL {} of a toml::Table (insertion order {:?}, kinds {:?}, depth {}) does not keep the map's order of entries: built {} printed-and-reparsed {} text {:?}", name, p, assign, depth, order_sig(&t), order_sig(&back), text);
                                }
                                let again = match name {
                                    "to_string" => toml::to_string(&back).unwrap_or_default(),
                                    "to_string_pretty" => toml::to_string_pretty(&back).unwrap_or_default(),
                                    _ => back.to_string(),
                                };
                                if again != text {
                                    println!("VIOL {} is not a fixed point (insertion order {:?}, kinds {:?}, depth {}): {:?} -> {:?}", name, p, assign, depth, text, again);
                                }
                            }
                            Err(e) => println!("VIOL {} output does not parse: {:?}: {}", name, text, e),
                        }
                    }
                    b.item(&want);
                }
            }
        }
        b.done();
    }

    /// every history of <= 4 calls on toml::Map over keys {a,b,c,d}, against a reference ordered / sorted map
    pub fn map_histories(dump: &Option<(String, usize)>) {
        let mut b = Blocks::new("tm.map.sorted-observation", dump);
        let pres = preserve();
        let keys = ["a", "b", "c", "d"];
        #[derive(Clone, Copy, Debug)]
        enum Op {
            Insert(usize, i64),
            Remove(usize),
            EntryOrInsert(usize, i64),
            EntryRemove(usize),
            EntryInsert(usize, i64),
            RetainNot(usize),
            Clear,
        }
        let mut ops = Vec::new();
        for k in 0..4 {
            ops.push(Op::Insert(k, 1));
            ops.push(Op::Insert(k, 2));
            ops.push(Op::Remove(k));
            ops.push(Op::EntryOrInsert(k, 3));
            ops.push(Op::EntryRemove(k));
            ops.push(Op::EntryInsert(k, 4));
        }
        ops.push(Op::RetainNot(1));
        ops.push(Op::Clear);
        let depth = 4;
        let n = ops.len();
        let starts: [&[(usize, i64)]; 2] = [&[], &[(2, 9), (0, 9), (3, 9), (1, 9)]];
        for start in starts {
            for h in 0..n.pow(depth as u32) {
                let mut real = toml::map::Map::new();
                let mut model: Vec<(String, i64)> = Vec::new();
                for (k, v) in start {
                    real.insert(keys[*k].to_string(), Value::Integer(*v));
                    model.push((keys[*k].to_string(), *v));
                }
                let mut hh = h;
                let mut hist = Vec::new();
                for _ in 0..depth {
                    let op = ops[hh % n];
                    hh /= n;
                    hist.push(op);
                    let pos = |m: &Vec<(String, i64)>, k: &str| m.iter().position(|(kk, _)| kk == k);
                    let iv = |v: &Value| v.as_integer().unwrap_or(-1);
                    let (rr, mr): (Option<i64>, Option<i64>) = match op {
                        Op::Insert(k, v) => (
                            real.insert(keys[k].to_string(), Value::Integer(v)).as_ref().map(iv),
                            match pos(&model, keys[k]) {
                                Some(i) => Some(std::mem::replace(&mut model[i].1, v)),
                                None => {
                                    model.push((keys[k].to_string(), v));
                                    None
                                }
                            },
                        ),
                        Op::Remove(k) => (real.remove(keys[k]).as_ref().map(iv), pos(&model, keys[k]).map(|i| model.remove(i).1)),
                        Op::EntryOrInsert(k, v) => (
                            Some(iv(real.entry(keys[k]).or_insert(Value::Integer(v)))),
                            Some(match pos(&model, keys[k]) {
                                Some(i) => model[i].1,
                                None => {
                                    model.push((keys[k].to_string(), v));
                                    v
                                }
                            }),
                        ),
                        Op::EntryRemove(k) => (
                            match real.entry(keys[k]) {
                                toml::map::Entry::Occupied(e) => Some(iv(&e.remove())),
                                _ => None,
                            },
                            pos(&model, keys[k]).map(|i| model.remove(i).1),
                        ),
                        Op::EntryInsert(k, v) => (
                            match real.entry(keys[k]) {
                                toml::map::Entry::Occupied(mut e) => Some(iv(&e.insert(Value::Integer(v)))),
                                toml::map::Entry::Vacant(e) => {
                                    e.insert(Value::Integer(v));
                                    None
                                }
                            },
                            match pos(&model, keys[k]) {
                                Some(i) => Some(std::mem::replace(&mut model[i].1, v)),
                                None => {
                                    model.push((keys[k].to_string(), v));
                                    None
                                }
                            },
                        ),
                        Op::RetainNot(k) => {
                            real.retain(|kk, _| kk != keys[k]);
                            model.retain(|(kk, _)| kk != keys[k]);
                            (None, None)
                        }
                        Op::Clear => {
                            real.clear();
                            model.clear();
                            (None, None)
                        }
                    };
                    if !pres {
                        model.sort_by(|a, b| a.0.cmp(&b.0));
                    }
                    let robs: Vec<(String, i64)> = real.iter().map(|(k, v)| (k.clone(), iv(v))).collect();
                    let rrev: Vec<(String, i64)> = real.iter().rev().map(|(k, v)| (k.clone(), iv(v))).collect();
                    let krev: Vec<String> = real.keys().rev().cloned().collect();
                    let mut mrev = model.clone();
                    mrev.reverse();
                    if rrev != mrev || krev != mrev.iter().map(|(k, _)| k.clone()).collect::<Vec<_>>() {
                        println!("VIOL toml::Map history {:?} from {:?}: back-to-front iteration {:?} is not the reverse of the reference {:?}", hist, start, rrev, model);
                        break;
                    }
                    if rr != mr || robs != model || real.len() != model.len() {
                        println!("VIOL toml::Map history {:?} from {:?}: returned {:?} (reference {:?}), iteration {:?} (reference {:?})", hist, start, rr, mr, robs, model);
                        break;
                    }
                }
                let mut obs: Vec<(String, i64)> = real.iter().map(|(k, v)| (k.clone(), v.as_integer().unwrap_or(-1))).collect();
                obs.sort();
                b.item(&format!("{:?}", obs));
            }
        }
        b.done();

        // toml::Table / toml::Value deserialized from a NON-TOML serde source whose size hints are wrong or hostile
        {
            use serde::de::{self, DeserializeSeed, MapAccess, SeqAccess, Visitor};
            struct Src {
                entries: usize,
                hint: Option<usize>,
                seq: bool,
            }
            struct M {
                left: usize,
                hint: Option<usize>,
                i: usize,
            }
            impl<'de> MapAccess<'de> for M {
                type Error = de::value::Error;
                fn next_key_seed<K: DeserializeSeed<'de>>(&mut self, seed: K) -> Result<Option<K::Value>, Self::Error> {
                    if self.left == 0 {
                        return Ok(None);
                    }
                    self.left -= 1;
                    self.i += 1;
                    seed.deserialize(de::value::StringDeserializer::new(format!("k{}", 9 - self.i))).map(Some)
                }
                fn next_value_seed<V: DeserializeSeed<'de>>(&mut self, seed: V) -> Result<V::Value, Self::Error> {
                    seed.deserialize(de::value::I64Deserializer::new(self.i as i64))
                }
                fn size_hint(&self) -> Option<usize> {
                    self.hint
                }
            }
            impl<'de> SeqAccess<'de> for M {
                type Error = de::value::Error;
                fn next_element_seed<T: DeserializeSeed<'de>>(&mut self, seed: T) -> Result<Option<T::Value>, Self::Error> {
                    if self.left == 0 {
                        return Ok(None);
                    }
                    self.left -= 1;
                    self.i += 1;
                    seed.deserialize(de::value::I64Deserializer::new(self.i as i64)).map(Some)
                }
                fn size_hint(&self) -> Option<usize> {
                    self.hint
                }
            }
            impl<'de> de::Deserializer<'de> for Src {
                type Error = de::value::Error;
                fn deserialize_any<V: Visitor<'de>>(self, v: V) -> Result<V::Value, Self::Error> {
                    let m = M { left: self.entries, hint: self.hint, i: 0 };
                    if self.seq {
                        v.visit_seq(m)
                    } else {
                        v.visit_map(m)
                    }
                }
                serde::forward_to_deserialize_any! { bool i8 i16 i32 i64 i128 u8 u16 u32 u64 u128 f32 f64 char str string bytes byte_buf option unit unit_struct newtype_struct seq tuple tuple_struct map struct enum identifier ignored_any }
            }
            let mut f = Blocks::new("tm.foreign-source.sorted", dump);
            for entries in [0usize, 1, 3] {
                for hint in [None, Some(0), Some(1), Some(3), Some(1 << 20), Some(usize::MAX / 64), Some(usize::MAX)] {
                    for seq in [false, true] {
                        let r = guard(|| {
                            use serde::Deserialize;
                            let a = toml::Value::deserialize(Src { entries, hint, seq }).map(|v| {
                                let mut c = String::new();
                                canon(&v, &mut c, true);
                                c
                            });
                            let b = if seq { Ok(String::new()) } else { toml::Table::deserialize(Src { entries, hint, seq }).map(|t| {
                                let mut c = String::new();
                                canon_table(&t, &mut c, true);
                                c
                            }) };
                            format!("{:?} {:?}", a.map_err(|e| e.to_string()), b.map_err(|e| e.to_string()))
                        })
                        .unwrap_or_else(|m| m);
                        f.item(&r);
                    }
                }
            }
            f.done();
        }

        // equality is about content, not about insertion order
        let mut e = Blocks::new("tm.eq", dump);
        let perms = [[0, 1, 2], [0, 2, 1], [1, 0, 2], [1, 2, 0], [2, 0, 1], [2, 1, 0]];
        for p in perms {
            for q in perms {
                let mut t1 = toml::Table::new();
                let mut t2 = toml::Table::new();
                for i in p {
                    t1.insert(keys[i].to_string(), Value::Integer(i as i64));
                }
                for i in q {
                    t2.insert(keys[i].to_string(), Value::Integer(i as i64));
                }
                e.item(&format!("{}", t1 == t2));
                e.item(&format!("{}", Value::Table(t1.clone()) == Value::Table(t2.clone())));
                let nested1 = Value::Array(vec![Value::Table(t1)]);
                let nested2 = Value::Array(vec![Value::Table(t2)]);
                e.item(&format!("{}", nested1 == nested2));
            }
        }
        e.done();
    }
}

fn main() {
    let args: Vec<String> = std::env::args().collect();
    let dump: Option<(String, usize)> = if args.get(1).map(|s| s.as_str()) == Some("dump") { Some((args[2].clone(), args[3].parse().unwrap())) } else { None };
    let mut feats: Vec<&str> = Vec::new();
    for (f, on) in [
        ("te_parse", cfg!(feature = "te_parse")),
        ("te_display", cfg!(feature = "te_display")),
        ("te_perf", cfg!(feature = "te_perf")),
        ("te_serde", cfg!(feature = "te_serde")),
        ("te_unbounded", cfg!(feature = "te_unbounded")),
        ("tm_parse", cfg!(feature = "tm_parse")),
        ("tm_display", cfg!(feature = "tm_display")),
        ("tm_preserve", cfg!(feature = "tm_preserve")),
    ] {
        if on {
            feats.push(f);
        }
    }
    if dump.is_none() {
        println!("CONFIG {}", feats.join(","));
    }
    std::panic::set_hook(Box::new(|_| {}));
    let docs = docs();
    #[cfg(feature = "te_parse")]
    te::parse_kinds(&docs, &dump);
    #[cfg(feature = "te_display")]
    te::build_kinds(&dump);
    #[cfg(feature = "te")]
    te::string_kinds(&dump);
    #[cfg(feature = "tm_parse")]
    tm::parse_kinds(&docs, &dump);
    #[cfg(all(feature = "tm_display", feature = "tm_parse"))]
    tm::value_trees(&dump);
    #[cfg(feature = "tm")]
    tm::map_histories(&dump);
    let _ = docs;
}
