#!/bin/bash
# Entry point for every check:  ./run.sh <ID> quick|thorough   |   ./run.sh <ID> --replay <file>   |   ./run.sh setup
# Exit 0: property held on everything explored; 1: VIOLATION line(s) printed; 2: machinery error (never a verdict).
set -u
export VERIF_DIR="$(cd "$(dirname "$0")" && pwd)"
export CARGO_NET_OFFLINE=true
cd "$VERIF_DIR/mc" || { echo "MACHINERY-ERROR no mc dir"; exit 2; }

build() {
  # rebuilds from /repo's current working tree (path dependencies); quiet unless it fails
  local log; log=$(mktemp)
  if ! cargo build --offline --profile mc -p checks >"$log" 2>&1; then
    cat "$log"; rm -f "$log"
    echo "MACHINERY-ERROR build failed"
    exit 2
  fi
  rm -f "$log"
}

case "${1:-}" in
  setup)
    build
    ./target/mc/mc audit || exit 2
    # warm the other build products the quick tier needs (they are rebuilt from /repo on every run anyway)
    cargo build --offline --profile mcdev -p checks >/dev/null 2>&1 || { echo "MACHINERY-ERROR mcdev build failed"; exit 2; }
    cargo build --offline --profile mcrel -p checks >/dev/null 2>&1 || { echo "MACHINERY-ERROR mcrel build failed"; exit 2; }
    ./target/mc/mc warm-cfg || exit 2
    exit 0 ;;
  "")
    echo "usage: $0 <ID> quick|thorough | <ID> --replay <file> | setup"; exit 2 ;;
esac

ID="$1"; shift
build
if [ "$ID" = "C05" ]; then
  # second build of the same binary at opt-level 0 (profile mcdev) for the stack-depth workers
  log=$(mktemp)
  if ! cargo build --offline --profile mcdev -p checks >"$log" 2>&1; then cat "$log"; rm -f "$log"; echo "MACHINERY-ERROR build (mcdev) failed"; exit 2; fi
  rm -f "$log"
fi
if [ "$ID" = "C04" ]; then
  # second build without debug assertions / overflow checks (profile mcrel): the release differential and memcheck workers
  log=$(mktemp)
  if ! cargo build --offline --profile mcrel -p checks >"$log" 2>&1; then cat "$log"; rm -f "$log"; echo "MACHINERY-ERROR build (mcrel) failed"; exit 2; fi
  rm -f "$log"
fi
exec ./target/mc/mc "$ID" "$@"
